//! C16 driver: property-test runs through the public test-framework API.
//! JSONL jobs on stdin -> JSONL results on stdout. Thin by design: it reports what the
//! framework did (PropertyTest::run / run_n_times), what an independent sample->eval loop
//! observes for the same seed, and the re-evaluation / replay of every reported
//! counterexample. All judgement happens in /verif/oracles/proptest.
//!
//! job: {"id", "modules":[{"name","kind":"lib"|"validator","src"}], "test":{"module","name"},
//!       "seed":u32, "max_success":n, "repeat":k, "threads":t, "plutus":"v3", "tracing":"verbose-all"}
//!   or, one build for many runs: "seeds":[u32..], "max_successes":[n..] (cross product), and
//!   "det_seeds":d = repetitions/threads only on the runs of the first d seeds.
//! result: {"mode", "runs":[{"seed","max_success",
//!            "outcome":{"run":{success,iterations,labels,counterexample,logs},
//!                       "run_n_times":{counterexample:{kind,value,choices},remaining,labels,
//!                                      "check":{reeval:{failed,..},replay:{kind,value,eq}}}},
//!            "others":[{"where":"repeat#k|rebuild|thread#k","part","same","outcome"}],
//!            "ms", "simplify":{"events","steps"}}],      (steps: read off the framework's stderr)
//!          "loops":{"<seed>":[{"choices","value","failed","labels","replay_eq"} | {"stop":..}]}}
use aiken_lang::ast::{Definition, ModuleKind, OnTestFailure};
use aiken_lang::plutus_version::PlutusVersion;
use aiken_lang::test_framework::{Prng, PropertyTest, RunnableKind, Test, TestResult};
use pallas_primitives::alonzo::PlutusData;
use pallas_primitives::conway::Language;
use serde_json::{Value as J, json};
use std::collections::BTreeMap;
use std::io::{BufRead, Write};
use std::path::PathBuf;
use std::time::Instant;
use vh::aik::{self, AddError, MemProject};
use vh::tj;
use vh::util::{guarded, trunc, variant_name};

// ---- the framework reports simplification progress only on stderr ("Simplified counterexample
// in 2ms after 57 steps"): stderr is redirected to a scratch file so that the step counts of
// the (sequential) reference runs can be read back. Plain libc calls; no extra dependency.
unsafe extern "C" {
    fn dup2(oldfd: i32, newfd: i32) -> i32;
}

struct StderrTap {
    file: std::fs::File,
    pos: u64,
}

impl StderrTap {
    fn install() -> Option<StderrTap> {
        use std::os::fd::AsRawFd;
        if std::env::var("VH_KEEP_STDERR").is_ok() {
            return None;
        }
        let path = std::env::temp_dir().join(format!("prop-run-stderr-{}", std::process::id()));
        let file = std::fs::OpenOptions::new().create(true).truncate(true).read(true).write(true).open(&path).ok()?;
        let _ = std::fs::remove_file(&path);
        if unsafe { dup2(file.as_raw_fd(), 2) } < 0 {
            return None;
        }
        Some(StderrTap { file, pos: 0 })
    }

    /// (number of "Simplified" events, total steps) written since the last call
    fn take_steps(&mut self) -> (u64, u64) {
        use std::io::{Read, Seek, SeekFrom};
        let mut buf = String::new();
        if self.file.seek(SeekFrom::Start(self.pos)).is_err() {
            return (0, 0);
        }
        let mut raw = vec![];
        let _ = self.file.read_to_end(&mut raw);
        self.pos += raw.len() as u64;
        buf.push_str(&String::from_utf8_lossy(&raw));
        if self.pos > (8 << 20) {
            let _ = self.file.set_len(0);
            self.pos = 0;
        }
        let (mut events, mut steps) = (0, 0);
        for line in buf.lines() {
            if let Some(rest) = line.split(" after ").nth(1) {
                if let Some(n) = rest.split(" steps").next().and_then(|x| x.trim().parse::<u64>().ok()) {
                    events += 1;
                    steps += n;
                }
            }
        }
        (events, steps)
    }
}

thread_local! {
    static TAP: std::cell::RefCell<Option<StderrTap>> = const { std::cell::RefCell::new(None) };
}

fn take_steps() -> (u64, u64) {
    TAP.with(|t| t.borrow_mut().as_mut().map(|t| t.take_steps()).unwrap_or((0, 0)))
}

fn kind_of(s: Option<&str>) -> ModuleKind {
    match s {
        Some("lib") => ModuleKind::Lib,
        Some("env") => ModuleKind::Env,
        Some("config") => ModuleKind::Config,
        _ => ModuleKind::Validator,
    }
}

fn data_json(d: &PlutusData) -> J {
    tj::with_plain(|| tj::data_to_json(d))
}

fn short(mut s: String, n: usize) -> String {
    trunc(&mut s, n);
    s
}

fn mode_name(m: &OnTestFailure) -> &'static str {
    match m {
        OnTestFailure::FailImmediately => "FailImmediately",
        OnTestFailure::SucceedImmediately => "SucceedImmediately",
        OnTestFailure::SucceedEventually => "SucceedEventually",
    }
}

/// Parse + type-check the job's modules and build the property test the way
/// `Project::collect_test_items` does (Test::from_function_definition on a fresh generator).
fn build_test(job: &J) -> Result<(PropertyTest, PlutusVersion), J> {
    let plutus = aik::plutus_of(job["plutus"].as_str().unwrap_or("v3")).map_err(|e| json!({"harness_error": e}))?;
    let tracing = aik::tracing_of(job["tracing"].as_str().unwrap_or("verbose-all")).map_err(|e| json!({"harness_error": e}))?;
    let mut project = MemProject::new();
    for m in job["modules"].as_array().cloned().unwrap_or_default() {
        let name = m["name"].as_str().unwrap_or("m").to_string();
        let kind = kind_of(m["kind"].as_str());
        let src = m["src"].as_str().unwrap_or("");
        match guarded(|| project.add(&name, kind, src, tracing)) {
            Ok(Ok(())) => {}
            Ok(Err(AddError::Parse(e))) => {
                return Err(json!({"rejected": "parse", "module": name, "detail": short(e, 800)}));
            }
            Ok(Err(AddError::Type(v, d))) => {
                return Err(json!({"rejected": "type", "module": name, "variant": v, "detail": short(d, 1500)}));
            }
            Err(p) => return Err(json!({"rejected": "panic", "module": name, "panic": p})),
        }
    }
    let module = job["test"]["module"].as_str().unwrap_or("m").to_string();
    let name = job["test"]["name"].as_str().unwrap_or("").to_string();
    let built = guarded(|| -> Result<PropertyTest, String> {
        let m = project.module(&module).ok_or("no such module")?;
        let t = m
            .definitions()
            .find_map(|d| match d {
                Definition::Test(t) if t.name == name => Some(t),
                _ => None,
            })
            .ok_or("no such test")?;
        if t.arguments.is_empty() {
            return Err("not a property test".into());
        }
        let mut generator = project.generator(plutus, tracing);
        match Test::from_function_definition(
            &mut generator,
            t.to_owned(),
            module.clone(),
            PathBuf::from(format!("{module}.ak")),
            RunnableKind::Test,
        ) {
            Test::PropertyTest(p) => Ok(p),
            _ => Err("not a property test".into()),
        }
    });
    match built {
        Ok(Ok(p)) => Ok((p, plutus)),
        Ok(Err(e)) => Err(json!({"harness_error": e})),
        Err(p) => Err(json!({"panic": p, "where": "build"})),
    }
}

/// Re-evaluate and replay a counterexample (value, choices).
fn check_counterexample(test: &PropertyTest, value: &PlutusData, choices: &[u8], pv: &PlutusVersion) -> J {
    let lang: Language = pv.into();
    let reeval = match guarded(|| {
        let r = test.eval(value, pv);
        (r.failed(true, &lang), r.labels(), r.logs())
    }) {
        Ok((failed, labels, logs)) => json!({"failed": failed, "labels": labels, "logs": logs}),
        Err(p) => json!({"panic": p}),
    };
    let replay = match guarded(|| Prng::from_choices(choices).sample(&test.fuzzer.program)) {
        Ok(Ok(Some((_, v)))) => json!({"kind": "some", "value": data_json(&v), "eq": &v == value}),
        Ok(Ok(None)) => json!({"kind": "none"}),
        Ok(Err(e)) => json!({"kind": "err", "msg": short(e.to_string(), 300)}),
        Err(p) => json!({"kind": "panic", "panic": p}),
    };
    json!({"reeval": reeval, "replay": replay})
}

/// (a) what the framework reports for (seed, n): PropertyTest::run.
fn run_part(test: &PropertyTest, seed: u32, n: usize, pv: &PlutusVersion) -> J {
    match guarded(|| test.clone().run(seed, n, pv)) {
        Err(p) => json!({"panic": p}),
        Ok(res) => {
            let cx = match &res.counterexample {
                Ok(None) => json!({"kind": "none"}),
                Ok(Some(v)) => json!({"kind": "some", "value": data_json(v)}),
                Err(e) => json!({"kind": "err", "variant": variant_name(&format!("{e:?}")), "msg": short(e.to_string(), 300)}),
            };
            let iterations = res.iterations;
            let labels = res.labels.clone();
            let logs = res.logs.clone();
            let tr: TestResult<(), PlutusData> = TestResult::PropertyTestResult(res);
            json!({
                "success": tr.is_success(),
                "iterations": iterations,
                "labels": labels,
                "counterexample": cx,
                "logs": logs,
            })
        }
    }
}

/// (a') run_n_times: what `run` wraps, and the only public way to the Counterexample's choice
/// sequence; (c) re-evaluation and replay of that counterexample.
fn run_n_times_part(test: &PropertyTest, seed: u32, n: usize, pv: &PlutusVersion) -> J {
    let mut remaining = n;
    let mut labels: BTreeMap<String, usize> = BTreeMap::new();
    let r2 = guarded(|| {
        match test.run_n_times(&mut remaining, Prng::from_seed(seed), &mut labels, pv) {
            Ok(None) => (json!({"kind": "none"}), None),
            Ok(Some(cx)) => (
                json!({"kind": "some", "value": data_json(&cx.value), "choices": cx.choices, "cache_size": cx.cache.size()}),
                Some((cx.value.clone(), cx.choices.clone())),
            ),
            Err(e) => (json!({"kind": "err", "msg": short(e.to_string(), 300)}), None),
        }
    });
    match r2 {
        Err(p) => json!({"panic": p}),
        Ok((cx, kept)) => {
            let mut o = json!({"counterexample": cx, "remaining": remaining, "labels": labels});
            if let Some((value, choices)) = kept {
                o["check"] = check_counterexample(test, &value, &choices, pv);
            }
            o
        }
    }
}

/// (b) the independent loop: from_seed -> (sample -> eval)^n, no shrinking, never stops early
/// (except when the fuzzer itself stops: error or None).
fn independent_loop(test: &PropertyTest, seed: u32, n: usize, pv: &PlutusVersion, replay_each: bool) -> J {
    let lang: Language = pv.into();
    let mut prng = Prng::from_seed(seed);
    let mut iterations = vec![];
    for _ in 0..n {
        let sampled = guarded(|| prng.sample(&test.fuzzer.program));
        let (next, value) = match sampled {
            Err(p) => {
                iterations.push(json!({"stop": "panic", "panic": p}));
                break;
            }
            Ok(Err(e)) => {
                iterations.push(json!({"stop": "fuzzer-error", "msg": short(e.to_string(), 300)}));
                break;
            }
            Ok(Ok(None)) => {
                iterations.push(json!({"stop": "none"}));
                break;
            }
            Ok(Ok(Some(x))) => x,
        };
        let choices = next.choices();
        let seeded = matches!(next, Prng::Seeded { .. });
        let mut it = json!({"choices": choices, "value": data_json(&value), "seeded": seeded});
        match guarded(|| {
            let r = test.eval(&value, pv);
            (r.failed(true, &lang), r.labels())
        }) {
            Ok((failed, labels)) => {
                it["failed"] = json!(failed);
                it["labels"] = json!(labels);
            }
            Err(p) => {
                it["eval_panic"] = json!(p);
            }
        }
        if replay_each {
            it["replay_eq"] = match guarded(|| Prng::from_choices(&choices).sample(&test.fuzzer.program)) {
                Ok(Ok(Some((_, v)))) => json!(v == value),
                Ok(Ok(None)) => json!("none"),
                Ok(Err(_)) => json!("err"),
                Err(p) => json!({"panic": p}),
            };
        }
        iterations.push(it);
        prng = next;
    }
    J::Array(iterations)
}

/// The (seed, max_success) pairs of a job: either the single "seed"/"max_success" of the
/// protocol, or the cross product of "seeds" x "max_successes" (one build, many runs).
fn runs_of(job: &J) -> Vec<(u32, usize)> {
    let seeds: Vec<u32> = match job.get("seeds").and_then(|s| s.as_array()) {
        Some(a) => a.iter().filter_map(|x| x.as_u64()).map(|x| x as u32).collect(),
        None => vec![job["seed"].as_u64().unwrap_or(42) as u32],
    };
    let ns: Vec<usize> = match job.get("max_successes").and_then(|s| s.as_array()) {
        Some(a) => a.iter().filter_map(|x| x.as_u64()).map(|x| x as usize).collect(),
        None => vec![job["max_success"].as_u64().unwrap_or(100) as usize],
    };
    let mut out = vec![];
    for s in &seeds {
        for n in &ns {
            out.push((*s, *n));
        }
    }
    out
}

fn do_job(job: &J) -> J {
    let runs = runs_of(job);
    let repeat = job["repeat"].as_u64().unwrap_or(1).max(1) as usize;
    let threads = job["threads"].as_u64().unwrap_or(0) as usize;
    let replay_each = job["replay_each"].as_bool().unwrap_or(true);
    // repetitions / threads only on the runs of the first `det_seeds` distinct seeds (default: all)
    let det_seeds = job["det_seeds"].as_u64().map(|x| x as usize).unwrap_or(usize::MAX);
    let mut seed_order: Vec<u32> = vec![];
    for (s, _) in &runs {
        if !seed_order.contains(s) {
            seed_order.push(*s);
        }
    }
    let det: Vec<bool> = runs
        .iter()
        .map(|(s, _)| seed_order.iter().position(|x| x == s).unwrap_or(0) < det_seeds)
        .collect();
    let (test, pv) = match build_test(job) {
        Ok(x) => x,
        Err(e) => return e,
    };
    // the reference outcome of every run: both parts, in this thread
    let mut firsts: Vec<(J, J)> = vec![];
    let mut canon: Vec<(String, String)> = vec![];
    let mut ms: Vec<u64> = vec![];
    let mut steps: Vec<(u64, u64)> = vec![];
    let mut others: Vec<Vec<J>> = vec![];
    for (seed, n) in &runs {
        let t0 = Instant::now();
        let a = run_part(&test, *seed, *n, &pv);
        let _ = take_steps();
        let b = run_n_times_part(&test, *seed, *n, &pv);
        steps.push(take_steps());
        ms.push(t0.elapsed().as_millis() as u64);
        canon.push((a.to_string(), b.to_string()));
        firsts.push((a, b));
        others.push(vec![]);
    }
    // part 0 = PropertyTest::run, part 1 = run_n_times (+ counterexample checks)
    let part = |t: &PropertyTest, pv: &PlutusVersion, which: usize, seed: u32, n: usize| -> String {
        if which == 0 { run_part(t, seed, n, pv).to_string() } else { run_n_times_part(t, seed, n, pv).to_string() }
    };
    let note = |others: &mut Vec<Vec<J>>, i: usize, place: String, which: usize, o: String| {
        let reference = if which == 0 { &canon[i].0 } else { &canon[i].1 };
        let same = &o == reference;
        let shown = if same { J::Null } else { serde_json::from_str(&o).unwrap_or(J::String(o)) };
        others[i].push(json!({"where": place, "part": if which == 0 { "run" } else { "run_n_times" }, "same": same, "outcome": shown}));
    };
    // repeats: same PropertyTest value, same thread
    for k in 1..repeat {
        for (i, (seed, n)) in runs.iter().enumerate() {
            if det[i] {
                let which = (k + 1) % 2;
                let o = part(&test, &pv, which, *seed, *n);
                note(&mut others, i, format!("repeat#{k}"), which, o);
            }
        }
    }
    // same thread, everything rebuilt (fresh id generator, hash maps, code generator)
    if repeat > 1 {
        match build_test(job) {
            Ok((t2, pv2)) => {
                for (i, (seed, n)) in runs.iter().enumerate() {
                    if det[i] {
                        let o = part(&t2, &pv2, 1, *seed, *n);
                        note(&mut others, i, "rebuild".to_string(), 1, o);
                    }
                }
            }
            Err(e) => {
                for i in 0..runs.len() {
                    note(&mut others, i, "rebuild".to_string(), 1, json!({"build": e}).to_string());
                }
            }
        }
    }
    // parallel threads, each with its own project / generator / PropertyTest (Rc is not Send)
    let mut handles = vec![];
    for k in 0..threads {
        let job = job.clone();
        let runs = runs.clone();
        let det = det.clone();
        let which = k % 2;
        let h = std::thread::Builder::new().stack_size(256 << 20).spawn(move || -> Vec<Option<String>> {
            match guarded(|| match build_test(&job) {
                Ok((t, pv)) => runs
                    .iter()
                    .enumerate()
                    .map(|(i, (seed, n))| {
                        if !det[i] {
                            None
                        } else if which == 0 {
                            Some(run_part(&t, *seed, *n, &pv).to_string())
                        } else {
                            Some(run_n_times_part(&t, *seed, *n, &pv).to_string())
                        }
                    })
                    .collect::<Vec<_>>(),
                Err(e) => runs.iter().map(|_| Some(json!({"build": e}).to_string())).collect(),
            }) {
                Ok(v) => v,
                Err(p) => runs.iter().map(|_| Some(json!({"panic": p, "where": "thread"}).to_string())).collect(),
            }
        });
        handles.push((k, which, h));
    }
    for (k, which, h) in handles {
        let outs: Vec<Option<String>> = match h {
            Ok(h) => match h.join() {
                Ok(v) => v,
                Err(_) => runs.iter().map(|_| Some(json!({"panic": "thread died"}).to_string())).collect(),
            },
            Err(e) => runs.iter().map(|_| Some(json!({"harness_error": format!("spawn: {e}")}).to_string())).collect(),
        };
        for (i, o) in outs.into_iter().enumerate() {
            if let Some(o) = o {
                note(&mut others, i, format!("thread#{k}"), which, o);
            }
        }
    }
    // (b) one independent loop per seed, as long as the longest run of that seed: the loop of a
    // shorter run is its prefix (the sequence depends on the seed only)
    let mut loops = serde_json::Map::new();
    let t1 = Instant::now();
    for seed in &seed_order {
        let nmax = runs.iter().filter(|(s, _)| s == seed).map(|(_, n)| *n).max().unwrap_or(0);
        loops.insert(seed.to_string(), independent_loop(&test, *seed, nmax, &pv, replay_each));
    }
    let ms_loops = t1.elapsed().as_millis() as u64;
    let mut results = vec![];
    for (i, (seed, n)) in runs.iter().enumerate() {
        let (a, b) = &firsts[i];
        results.push(json!({
            "seed": seed,
            "max_success": n,
            "outcome": {"run": a, "run_n_times": b},
            "others": others[i],
            "ms": ms[i],
            "simplify": {"events": steps[i].0, "steps": steps[i].1},
        }));
    }
    json!({"mode": mode_name(&test.on_test_failure), "runs": results, "loops": loops, "ms_loops": ms_loops})
}

fn main() {
    vh::util::quiet_panics();
    let stack_mb: usize = std::env::var("VH_STACK_MB").ok().and_then(|s| s.parse().ok()).unwrap_or(1024);
    let h = std::thread::Builder::new()
        .stack_size(stack_mb << 20)
        .spawn(|| {
            TAP.with(|t| *t.borrow_mut() = StderrTap::install());
            let stdin = std::io::stdin();
            let stdout = std::io::stdout();
            for line in stdin.lock().lines() {
                let Ok(line) = line else { break };
                if line.trim().is_empty() {
                    continue;
                }
                let job: J = match vh::util::parse_job(&line) {
                    Ok(j) => j,
                    Err(e) => {
                        let mut o = stdout.lock();
                        let _ = writeln!(o, "{}", json!({"harness_error": format!("bad job json: {e}")}));
                        continue;
                    }
                };
                let id = job["id"].clone();
                let mut res = match guarded(|| do_job(&job)) {
                    Ok(v) => v,
                    Err(p) => json!({"panic": p, "where": "job"}),
                };
                res["id"] = id;
                let mut o = stdout.lock();
                let _ = writeln!(o, "{}", res);
                let _ = o.flush();
            }
        })
        .unwrap();
    h.join().unwrap();
}
