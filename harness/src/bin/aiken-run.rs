//! Generic Aiken compile-and-run job runner: JSONL jobs on stdin -> JSONL results on stdout.
//! Thin by design: all judgement happens in the Python oracles.
use aiken_lang::ast::{Definition, ModuleKind, Tracing};
use aiken_lang::tipo::error::Error as TypeError;
use pallas_primitives::conway::Language;
use serde_json::{Value as J, json};
use std::io::{BufRead, Write};
use std::rc::Rc;
use uplc::ast::{Name, NamedDeBruijn, Program, Term};
use uplc::machine::cost_model::ExBudget;
use uplc::optimize::interner::CodeGenInterner;
use uplc::optimize::shrinker::NO_INLINE;
use vh::aik::{self, AddError, MemProject};
use vh::tj;
use vh::util::{guarded, variant_name};

fn kind_of(s: Option<&str>) -> ModuleKind {
    match s {
        Some("lib") => ModuleKind::Lib,
        Some("env") => ModuleKind::Env,
        Some("config") => ModuleKind::Config,
        _ => ModuleKind::Validator,
    }
}

fn lang(p: &str) -> Language {
    match p {
        "v1" => Language::PlutusV1,
        "v2" => Language::PlutusV2,
        _ => Language::PlutusV3,
    }
}

fn strip_no_inline(t: &Term<Name>) -> Term<Name> {
    match t {
        Term::Lambda {
            parameter_name,
            body,
        } => {
            if parameter_name.text == NO_INLINE {
                strip_no_inline(body)
            } else {
                Term::Lambda {
                    parameter_name: parameter_name.clone(),
                    body: Rc::new(strip_no_inline(body)),
                }
            }
        }
        Term::Apply { function, argument } => Term::Apply {
            function: Rc::new(strip_no_inline(function)),
            argument: Rc::new(strip_no_inline(argument)),
        },
        Term::Delay(b) => Term::Delay(Rc::new(strip_no_inline(b))),
        Term::Force(b) => Term::Force(Rc::new(strip_no_inline(b))),
        Term::Constr { tag, fields } => Term::Constr {
            tag: *tag,
            fields: fields.iter().map(strip_no_inline).collect(),
        },
        Term::Case { constr, branches } => Term::Case {
            constr: Rc::new(strip_no_inline(constr)),
            branches: branches.iter().map(strip_no_inline).collect(),
        },
        Term::Var(_) | Term::Constant(_) | Term::Error | Term::Builtin(_) => t.clone(),
    }
}

fn uses_typed_list_lowering(t: &Term<Name>) -> bool {
    use uplc::builtins::DefaultFunction as F;
    match t {
        Term::Builtin(f) => matches!(
            f,
            F::WriteBits | F::Bls12_381_G1_MultiScalarMul | F::Bls12_381_G2_MultiScalarMul
        ),
        Term::Lambda { body, .. } => uses_typed_list_lowering(body),
        Term::Apply { function, argument } => {
            uses_typed_list_lowering(function) || uses_typed_list_lowering(argument)
        }
        Term::Delay(b) | Term::Force(b) => uses_typed_list_lowering(b),
        Term::Constr { fields, .. } => fields.iter().any(uses_typed_list_lowering),
        Term::Case { constr, branches } => {
            uses_typed_list_lowering(constr) || branches.iter().any(uses_typed_list_lowering)
        }
        _ => false,
    }
}

/// Evaluate a (possibly intermediate) named program applied to Data arguments.
/// Returns a compact, comparable rendering of the outcome.
fn eval_named(p: &Program<Name>, args: &[J], language: &Language, detailed: bool) -> J {
    let r = guarded(|| -> Result<J, String> {
        let mut q = Program {
            version: p.version,
            term: strip_no_inline(&p.term),
        };
        for a in args {
            let d = tj::data_from_json(a)?;
            q = q.apply_data(d);
        }
        CodeGenInterner::new().program(&mut q);
        let nd: Program<NamedDeBruijn> = q.try_into().map_err(|e| format!("debruijn: {e:?}"))?;
        let res = nd.eval_version(ExBudget::max(), language);
        let cost = res.cost();
        let failed_strict = res.failed(false, language);
        let failed_bool = res.failed(true, language);
        let logs = res.logs();
        let mut out = match &res.result {
            Ok(Term::Constant(c)) => json!({"ok": tj::constant_to_json(c)}),
            Ok(Term::Error) => json!({"err": "EvaluationFailure"}),
            Ok(t) => json!({"ok": {"k": variant_name(&format!("{t:?}"))}}),
            Err(e) => {
                let mut o = json!({"err": variant_name(&format!("{e:?}"))});
                if detailed {
                    let mut m = e.to_string();
                    vh::util::trunc(&mut m, 200);
                    o["err_msg"] = json!(m);
                }
                o
            }
        };
        if detailed {
            out["cost"] = json!([cost.cpu, cost.mem]);
            out["logs"] = json!(logs);
            out["failed"] = json!([failed_strict, failed_bool]);
        }
        Ok(out)
    });
    match r {
        Ok(Ok(v)) => v,
        Ok(Err(e)) => json!({"conv_err": e}),
        Err(p) => json!({"panic": p}),
    }
}

fn outcome_key(o: &J) -> String {
    // value-or-abort class used for differential comparisons
    if let Some(v) = o.get("ok") {
        format!("ok:{v}")
    } else if let Some(e) = o.get("err") {
        // abort classes: budget vs everything else is kept apart; all script aborts are one class
        if e == "OutOfExError" { "oom".into() } else { "abort".into() }
    } else if o.get("panic").is_some() {
        "panic".into()
    } else {
        format!("other:{o}")
    }
}

fn type_error_json(variant: &str, dbg: &str) -> J {
    let mut m = dbg.to_string();
    vh::util::trunc(&mut m, 1500);
    json!({"variant": variant, "debug": m})
}

fn add_modules(job: &J, infer_tracing: Tracing) -> Result<MemProject, J> {
    let mut project = MemProject::new();
    for m in job["modules"].as_array().cloned().unwrap_or_default() {
        let name = m["name"].as_str().unwrap_or("m").to_string();
        let kind = kind_of(m["kind"].as_str());
        let src = m["src"].as_str().unwrap_or("");
        let r = guarded(|| project.add(&name, kind, src, infer_tracing));
        match r {
            Ok(Ok(())) => {}
            Ok(Err(AddError::Parse(e))) => {
                let mut e = e;
                vh::util::trunc(&mut e, 800);
                return Err(json!({"rejected": "parse", "module": name, "detail": e}));
            }
            Ok(Err(AddError::Type(v, d))) => {
                return Err(json!({"rejected": "type", "module": name, "error": type_error_json(&v, &d)}));
            }
            Err(p) => return Err(json!({"rejected": "panic", "module": name, "panic": p})),
        }
    }
    Ok(project)
}

fn op_compile_eval(job: &J) -> Result<J, String> {
    let plutus_s = job["plutus"].as_str().unwrap_or("v3");
    let plutus = aik::plutus_of(plutus_s)?;
    let language = lang(plutus_s);
    let tracings: Vec<String> = match job.get("tracings").and_then(|t| t.as_array()) {
        Some(ts) => ts.iter().filter_map(|t| t.as_str().map(|s| s.to_string())).collect(),
        None => vec!["verbose-all".to_string()],
    };
    let infer_same = job["infer_tracing"].as_str().unwrap_or("same") == "same";
    let want_snapshots = job["snapshots"].as_bool().unwrap_or(false);
    let detailed = job["detailed"].as_bool().unwrap_or(true);
    let reuse = job["reuse_generator"].as_bool().unwrap_or(true);
    let entries = job["entries"].as_array().cloned().unwrap_or_default();
    let mut per_tracing = vec![];
    for ts in &tracings {
        let tracing = aik::tracing_of(ts)?;
        let infer_tracing = if infer_same { tracing } else { aik::tracing_of("verbose-all")? };
        let project = match add_modules(job, infer_tracing) {
            Ok(p) => p,
            Err(rej) => {
                per_tracing.push(json!({"tracing": ts, "rejected": rej}));
                continue;
            }
        };
        let mut generator = project.generator(plutus, tracing);
        let mut entry_results = vec![];
        for e in &entries {
            let module = e["module"].as_str().unwrap_or("m").to_string();
            let name = e["name"].as_str().unwrap_or("").to_string();
            let kind = e["kind"].as_str().unwrap_or("fn");
            let argsets: Vec<Vec<J>> = e["args"]
                .as_array()
                .map(|a| a.iter().map(|t| t.as_array().cloned().unwrap_or_default()).collect())
                .unwrap_or_else(|| vec![vec![]]);
            if !reuse {
                generator = project.generator(plutus, tracing);
            }
            if want_snapshots {
                uplc::verif::arm_opt();
                uplc::verif::arm_inline();
            }
            let state_before = generator.verif_state();
            let compiled = guarded(|| -> Result<Program<Name>, String> {
                let m = project.module(&module).ok_or("no such module")?;
                match kind {
                    "fn" => {
                        let f = m
                            .definitions()
                            .find_map(|d| match d {
                                Definition::Fn(f) if f.name == name => Some(f),
                                _ => None,
                            })
                            .ok_or("no such fn")?;
                        Ok(generator.generate_raw(&f.body, &f.arguments, &module))
                    }
                    "test" => {
                        let t = m
                            .definitions()
                            .find_map(|d| match d {
                                Definition::Test(t) if t.name == name => Some(t),
                                _ => None,
                            })
                            .ok_or("no such test")?;
                        if !t.arguments.is_empty() {
                            return Err("property test".into());
                        }
                        Ok(generator.generate_raw(&t.body, &[], &module))
                    }
                    "validator" => {
                        let v = m
                            .definitions()
                            .find_map(|d| match d {
                                Definition::Validator(v) if v.name == name => Some(v),
                                _ => None,
                            })
                            .ok_or("no such validator")?;
                        Ok(generator.generate(v, &module))
                    }
                    o => Err(format!("bad entry kind {o}")),
                }
            });
            let state_after = generator.verif_state();
            let snaps = uplc::verif::take_opt();
            let inline = uplc::verif::take_inline();
            let mut er = json!({"module": module, "name": name, "kind": kind,
                "gen_state_before": state_before.to_vec(), "gen_state_after": state_after.to_vec()});
            match compiled {
                Err(p) => {
                    er["compile_panic"] = json!(p);
                    // a panic may leave the generator dirty: start from a fresh one
                    generator = project.generator(plutus, tracing);
                }
                Ok(Err(e)) => {
                    er["harness_error"] = json!(e);
                }
                Ok(Ok(program)) => {
                    let size = program.clone().to_debruijn().ok().and_then(|d| d.to_flat().ok()).map(|b| b.len());
                    er["size"] = json!(size);
                    if job["emit_hex"].as_bool().unwrap_or(false) {
                        er["hex"] = json!(program.clone().to_debruijn().ok().and_then(|d| d.to_hex().ok()));
                    }
                    let mut results = vec![];
                    for args in &argsets {
                        results.push(eval_named(&program, args, &language, detailed));
                    }
                    if let Some(inl) = inline {
                        er["inline_checked"] = json!(inl.checked);
                        er["inline_disagreements"] = json!(
                            inl.disagreements
                                .iter()
                                .map(|(n, t, c, b)| json!({"param": n, "trusted": t, "counted": c, "body": b}))
                                .collect::<Vec<_>>()
                        );
                    }
                    if let Some(sink) = snaps {
                        // the outermost optimiser call is the one whose "final" snapshot equals
                        // what the generator returned: the last call recorded
                        let last_call = sink.snapshots.iter().map(|s| s.call).max();
                        let mut stages = vec![];
                        let mut calls = 0usize;
                        if let Some(lc) = last_call {
                            calls = lc + 1;
                            let needs_lowering = sink
                                .snapshots
                                .iter()
                                .find(|s| s.call == lc)
                                .map(|s| uses_typed_list_lowering(&s.program.term))
                                .unwrap_or(false);
                            let group: Vec<_> = sink.snapshots.iter().filter(|s| s.call == lc).collect();
                            for (i, s) in group.iter().enumerate() {
                                let keys: Vec<String> = argsets
                                    .iter()
                                    .map(|args| outcome_key(&eval_named(&s.program, args, &language, false)))
                                    .collect();
                                // the snapshot at the entry of pass X is the output of the previous pass
                                let produced_by = if i == 0 { "codegen" } else { group[i - 1].stage };
                                stages.push(json!({"after": produced_by, "before": s.stage, "outcomes": keys}));
                            }
                            er["needs_typed_list_lowering"] = json!(needs_lowering);
                        }
                        er["opt_calls"] = json!(calls);
                        er["stages"] = J::Array(stages);
                    }
                    er["results"] = J::Array(results);
                }
            }
            entry_results.push(er);
        }
        per_tracing.push(json!({"tracing": ts, "warnings": project.warnings, "entries": entry_results}));
    }
    Ok(json!({"runs": per_tracing}))
}

/// Type-check one module against `project` (which is only extended when `register`).
fn infer_item(project: &mut MemProject, m: &J, tracing: Tracing, register: bool) -> J {
    let name = m["name"].as_str().unwrap_or("m").to_string();
    let kind = kind_of(m["kind"].as_str());
    let src = m["src"].as_str().unwrap_or("").to_string();
    let parsed = guarded(|| aiken_lang::parser::module(&src, kind));
    let (mut ast, _) = match parsed {
        Err(p) => return json!({"rejected": "panic", "stage": "parse", "panic": p}),
        Ok(Err(e)) => {
            let mut d = format!("{e:?}");
            vh::util::trunc(&mut d, 600);
            return json!({"rejected": "parse", "detail": d});
        }
        Ok(Ok(x)) => x,
    };
    ast.name = name.clone();
    let mut warnings = vec![];
    let r = guarded(|| {
        ast.infer(
            &project.id_gen,
            kind,
            &project.package,
            &project.module_types,
            tracing,
            &mut warnings,
            None,
        )
    });
    let warn_json: Vec<J> = warnings
        .iter()
        .map(|w| {
            let mut d = format!("{w:?}");
            vh::util::trunc(&mut d, 300);
            json!({"variant": variant_name(&d), "debug": d})
        })
        .collect();
    match r {
        Err(p) => json!({"rejected": "panic", "stage": "infer", "panic": p}),
        Ok(Err(e)) => {
            let dbg = format!("{e:?}");
            let mut j = json!({"variant": variant_name(&dbg)});
            match &e {
                TypeError::NotExhaustivePatternMatch {
                    location,
                    unmatched,
                    is_let,
                } => {
                    j["unmatched"] = json!(unmatched);
                    j["is_let"] = json!(is_let);
                    j["span"] = json!([location.start, location.end]);
                }
                TypeError::RedundantMatchClause { original, redundant } => {
                    j["redundant"] = json!([redundant.start, redundant.end]);
                    j["original"] = json!(original.map(|s| [s.start, s.end]));
                }
                _ => {
                    let mut d = dbg.clone();
                    vh::util::trunc(&mut d, 600);
                    j["debug"] = json!(d);
                }
            }
            json!({"rejected": "type", "module": name, "errors": [j], "warnings": warn_json})
        }
        Ok(Ok(typed)) => {
            if register {
                typed.register_definitions(&mut project.functions, &mut project.constants, &mut project.data_types);
                project
                    .module_sources
                    .insert(name.clone(), (src.clone(), aiken_lang::line_numbers::LineNumbers::new(&src)));
                project.module_types.insert(name.clone(), typed.type_info.clone());
                project.modules.push((name, typed));
            }
            json!({"accepted": true, "warnings": warn_json})
        }
    }
}

/// C07 (and C06): type-check only; structured report of exhaustiveness diagnostics.
/// Modules are checked in order, each seeing the previous ones; stops at the first rejection.
fn op_infer(job: &J) -> Result<J, String> {
    let tracing: Tracing = aik::tracing_of(job["tracing"].as_str().unwrap_or("verbose-all"))?;
    let mut project = MemProject::new();
    let mut all_warnings = vec![];
    for m in job["modules"].as_array().cloned().unwrap_or_default() {
        let r = infer_item(&mut project, &m, tracing, true);
        if r.get("accepted").is_none() {
            return Ok(r);
        }
        if let Some(w) = r["warnings"].as_array() {
            all_warnings.extend(w.iter().cloned());
        }
    }
    Ok(json!({"accepted": true, "warnings": all_warnings}))
}

/// Many independent single-module checks against the pristine prelude (items never see
/// each other); the prelude is built once per job.
fn op_infer_many(job: &J) -> Result<J, String> {
    let tracing: Tracing = aik::tracing_of(job["tracing"].as_str().unwrap_or("verbose-all"))?;
    let mut project = MemProject::new();
    let mut results = vec![];
    for m in job["items"].as_array().cloned().unwrap_or_default() {
        results.push(infer_item(&mut project, &m, tracing, false));
    }
    Ok(json!({"results": results}))
}

fn main() {
    vh::util::quiet_panics();
    let stack_mb: usize = std::env::var("VH_STACK_MB").ok().and_then(|s| s.parse().ok()).unwrap_or(1024);
    let h = std::thread::Builder::new()
        .stack_size(stack_mb << 20)
        .spawn(|| {
            let stdin = std::io::stdin();
            let stdout = std::io::stdout();
            for line in stdin.lock().lines() {
                let Ok(line) = line else { break };
                if line.trim().is_empty() {
                    continue;
                }
                let job: J = match vh::util::parse_job(&line) {
                    Ok(j) => j,
                    Err(e) => {
                        let mut o = stdout.lock();
                        let _ = writeln!(o, "{}", json!({"harness_error": format!("bad job json: {e}")}));
                        continue;
                    }
                };
                let id = job["id"].clone();
                let r = guarded(|| match job["op"].as_str().unwrap_or("compile_eval") {
                    "compile_eval" => op_compile_eval(&job),
                    "infer" => op_infer(&job),
                    "infer_many" => op_infer_many(&job),
                    "fmt" => vh::surface::op_fmt(&job),
                    "schema" => vh::schema::op_schema(&job),
                    "blueprint" => vh::bp::op_blueprint(&job),
                    "apply" => vh::bp::op_apply(&job),
                    "apply_raw" => vh::bp::op_apply_raw(&job),
                    "json_load" => vh::bp::op_json_load(&job),
                    "eval_hex" => vh::bp::op_eval_hex(&job),
                    o => Err(format!("unknown op {o}")),
                });
                let mut res = match r {
                    Ok(Ok(v)) => v,
                    Ok(Err(e)) => json!({"harness_error": e}),
                    Err(p) => json!({"panic": p}),
                };
                res["id"] = id;
                let mut o = stdout.lock();
                let _ = writeln!(o, "{}", res);
                let _ = o.flush();
            }
        })
        .unwrap();
    h.join().unwrap();
}
