//! Phase-two transaction simulation driver (property C19): JSONL jobs on stdin -> JSONL
//! results on stdout. Thin by design: all judgement happens in /verif/oracles/txsim.
//!
//! ops
//!   script      {"term":T,"version":[1,1,0]}                     -> {"cbor":hex,"flat":hex,"hash":{"v1","v2","v3"}}
//!   phase2      {"tx":hex,"utxos":[[in_hex,out_hex]..],"cost_mdls":hex|null,"budget":[cpu,mem],
//!                "slot":[zero_time,zero_slot,slot_length],"pv":null|n,"phase_one":bool,
//!                "second_path":bool,"ctx_json":bool}
//!               -> {"ok":[{tag,index,ex_units:[mem,steps],data,cost,initial,remaining,result,logs_hex,..,"direct":{..}}],
//!                   "order":[[tag,index]..]}
//!                | {"err":Variant,"chain":[..],"err_msg":..,"order":[..],"machine_cost":[cpu,mem]?}
//!   batch       {"jobs":[job..]} -> {"results":[result..]}
//!   apply_eval  {"script":hex,"args":[data_cbor_hex..],"lang","pv":null|n,"costs":[..]|null,"budget":[cpu,mem]|null}
//!               -> {"cost":[cpu,mem],"result":..,"logs_hex":[..]}
use pallas_codec::minicbor;
use pallas_crypto::hash::Hasher;
use pallas_primitives::Fragment;
use pallas_primitives::conway::{
    CostModels, Language, MintedTx, PlutusData, Redeemer, RedeemerTag, Redeemers,
    TransactionInput, TransactionOutput,
};
use serde_json::{Value as J, json};
use std::cell::RefCell;
use std::io::{BufRead, Write};
use uplc::ast::{Constant, DeBruijn, FakeNamedDeBruijn, NamedDeBruijn, Program, Term};
use uplc::machine::cost_model::ExBudget;
use uplc::machine::eval_result::EvalResult;
use uplc::tx::error::Error as TxError;
use uplc::tx::script_context::{
    DataLookupTable, PlutusScript, ResolvedInput, SlotConfig, TxInfoV1, TxInfoV2, TxInfoV3,
    find_script,
};
use uplc::tx::to_plutus_data::ToPlutusData;
use vh::tj;
use vh::util::{guarded, trunc, variant_name};

thread_local! {
    static ORDER: RefCell<Vec<(String, u32)>> = const { RefCell::new(Vec::new()) };
}

fn tag_name(t: &RedeemerTag) -> &'static str {
    match t {
        RedeemerTag::Spend => "spend",
        RedeemerTag::Mint => "mint",
        RedeemerTag::Cert => "cert",
        RedeemerTag::Reward => "reward",
        RedeemerTag::Vote => "vote",
        RedeemerTag::Propose => "propose",
    }
}

fn note_redeemer(r: &Redeemer) {
    ORDER.with(|o| o.borrow_mut().push((tag_name(&r.tag).to_string(), r.index)));
}

fn hexfield(job: &J, k: &str) -> Result<Vec<u8>, String> {
    hex::decode(job[k].as_str().ok_or_else(|| format!("missing {k}"))?).map_err(|e| format!("{k}: {e}"))
}

fn budget_of(j: Option<&J>, default: ExBudget) -> ExBudget {
    match j {
        Some(J::Array(b)) if b.len() == 2 => ExBudget {
            cpu: b[0].as_i64().unwrap_or(default.cpu),
            mem: b[1].as_i64().unwrap_or(default.mem),
        },
        _ => default,
    }
}

fn result_to_json(r: &Result<Term<NamedDeBruijn>, uplc::machine::Error>, want_json: bool) -> J {
    match r {
        Ok(Term::Constant(c)) => match c.as_ref() {
            Constant::Data(d) => {
                let mut o = json!({"k": "data", "cbor": hex::encode(uplc::plutus_data_to_bytes(d))});
                if want_json {
                    o["json"] = tj::with_plain(|| tj::data_to_json(d));
                }
                o
            }
            Constant::Unit => json!({"k": "unit"}),
            Constant::Bool(b) => json!({"k": "bool", "v": b}),
            Constant::Integer(i) => json!({"k": "integer", "v": i.to_string()}),
            Constant::ByteString(b) => json!({"k": "bytestring", "hex": hex::encode(b)}),
            other => json!({"k": "con", "type": tj::type_to_json(&tj::constant_type(other))}),
        },
        Ok(Term::Error) => json!({"k": "error_term"}),
        Ok(t) => {
            let mut s = format!("{t:?}");
            trunc(&mut s, 80);
            json!({"k": "term", "debug": s})
        }
        Err(e) => {
            let mut m = e.to_string();
            trunc(&mut m, 200);
            json!({"k": "err", "err": variant_name(&format!("{e:?}")), "err_msg": m})
        }
    }
}

fn logs_hex(e: &EvalResult) -> J {
    J::Array(e.logs().iter().map(|l| json!(hex::encode(l.as_bytes()))).collect())
}

fn eval_json(e: &EvalResult, want_json: bool) -> J {
    let cost = e.cost();
    json!({
        "cost": [cost.cpu, cost.mem],
        "initial": [e.initial_budget.cpu, e.initial_budget.mem],
        "remaining": [e.remaining_budget.cpu, e.remaining_budget.mem],
        "result": result_to_json(&e.result, want_json),
        "logs_hex": logs_hex(e),
    })
}

fn lang_name(l: &Language) -> &'static str {
    match l {
        Language::PlutusV1 => "v1",
        Language::PlutusV2 => "v2",
        Language::PlutusV3 => "v3",
    }
}

/// `RedeemerError { err: Machine(OutOfExError(..)) }` -> ["RedeemerError","Machine","OutOfExError"]
fn error_chain(e: &TxError) -> (Vec<String>, Option<ExBudget>) {
    let mut chain = vec![variant_name(&format!("{e:?}"))];
    let mut cost = None;
    match e {
        TxError::RedeemerError { err, .. } => {
            let (mut rest, c) = error_chain(err);
            chain.append(&mut rest);
            cost = c;
        }
        TxError::Machine(m, c, _) => {
            chain.push(variant_name(&format!("{m:?}")));
            cost = Some(*c);
        }
        _ => {}
    }
    (chain, cost)
}

fn eval_direct(
    program: Program<NamedDeBruijn>,
    lang: &Language,
    costs: Option<&[i64]>,
    pv: Option<u16>,
    budget: ExBudget,
) -> EvalResult {
    match (costs, pv) {
        (Some(c), Some(pv)) => program.eval_as_with_protocol(lang, pv, c, Some(&budget)),
        (Some(c), None) => program.eval_as(lang, c, Some(&budget)),
        (None, Some(pv)) => program.eval_version_with_protocol(budget, lang, pv),
        (None, None) => program.eval_version(budget, lang),
    }
}

/// Second, direct path for one redeemer: the pieces `do_eval_redeemer` uses, called one by
/// one through the public API, and the applied program evaluated under a fresh budget.
#[allow(clippy::too_many_arguments)]
fn second_path(
    tx: &MintedTx,
    utxos: &[ResolvedInput],
    sc: &SlotConfig,
    redeemer: &Redeemer,
    lookup: &DataLookupTable,
    cost_mdls: Option<&CostModels>,
    pv: Option<u16>,
    budget: ExBudget,
    want_json: bool,
) -> J {
    let (script, datum) = match find_script(redeemer, tx, utxos, lookup) {
        Ok(x) => x,
        Err(e) => return json!({"stage": "find_script", "err": variant_name(&format!("{e:?}"))}),
    };
    let (lang, tag) = match &script {
        PlutusScript::V1(_) => (Language::PlutusV1, 1u8),
        PlutusScript::V2(_) => (Language::PlutusV2, 2u8),
        PlutusScript::V3(_) => (Language::PlutusV3, 3u8),
    };
    let bytes: &[u8] = &script;
    let mut out = json!({
        "lang": lang_name(&lang),
        "script_hash": hex::encode(Hasher::<224>::hash_tagged(bytes, tag).as_ref()),
        "script_len": bytes.len(),
        "datum": datum.as_ref().map(|d| hex::encode(uplc::plutus_data_to_bytes(d))),
    });
    let info = match lang {
        Language::PlutusV1 => TxInfoV1::from_transaction(tx, utxos, sc),
        Language::PlutusV2 => TxInfoV2::from_transaction(tx, utxos, sc),
        Language::PlutusV3 => TxInfoV3::from_transaction(tx, utxos, sc),
    };
    let info = match info {
        Ok(i) => i,
        Err(e) => {
            out["stage"] = json!("tx_info");
            out["err"] = json!(variant_name(&format!("{e:?}")));
            return out;
        }
    };
    let Some(ctx) = info.into_script_context(redeemer, datum.as_ref()) else {
        out["stage"] = json!("script_context");
        out["err"] = json!("None");
        return out;
    };
    let ctx_data = ctx.to_plutus_data();
    out["ctx_cbor"] = json!(hex::encode(uplc::plutus_data_to_bytes(&ctx_data)));
    if want_json {
        out["ctx"] = tj::with_plain(|| tj::data_to_json(&ctx_data));
    }
    let mut buffer = Vec::new();
    let program: Program<NamedDeBruijn> = match Program::<FakeNamedDeBruijn>::from_cbor(bytes, &mut buffer) {
        Ok(p) => p.into(),
        Err(e) => {
            out["stage"] = json!("decode_script");
            out["err"] = json!(e.to_string());
            return out;
        }
    };
    let program = match lang {
        Language::PlutusV3 => program.apply_data(ctx_data),
        _ => {
            let p = match datum {
                Some(d) => program.apply_data(d),
                None => program,
            };
            p.apply_data(redeemer.data.clone()).apply_data(ctx_data)
        }
    };
    let costs: Option<&[i64]> = match cost_mdls {
        None => None,
        Some(m) => match lang {
            Language::PlutusV1 => m.plutus_v1.as_deref(),
            Language::PlutusV2 => m.plutus_v2.as_deref(),
            Language::PlutusV3 => m.plutus_v3.as_deref(),
        },
    };
    if cost_mdls.is_some() && costs.is_none() {
        out["stage"] = json!("cost_model");
        out["err"] = json!("CostModelNotFound");
        return out;
    }
    let e = eval_direct(program, &lang, costs, pv, budget);
    out["eval"] = eval_json(&e, false);
    out["failed"] = json!(e.failed(false, &lang));
    out
}

fn op_phase2(job: &J) -> Result<J, String> {
    let tx_bytes = hexfield(job, "tx")?;
    let mut utxos_bytes: Vec<(Vec<u8>, Vec<u8>)> = vec![];
    for u in job["utxos"].as_array().ok_or("utxos")? {
        let i = hex::decode(u[0].as_str().ok_or("utxo in")?).map_err(|e| e.to_string())?;
        let o = hex::decode(u[1].as_str().ok_or("utxo out")?).map_err(|e| e.to_string())?;
        utxos_bytes.push((i, o));
    }
    let cost_bytes: Option<Vec<u8>> = match job.get("cost_mdls") {
        Some(J::String(s)) => Some(hex::decode(s).map_err(|e| e.to_string())?),
        _ => None,
    };
    let budget = (
        job["budget"][0].as_u64().ok_or("budget cpu")?,
        job["budget"][1].as_u64().ok_or("budget mem")?,
    );
    let slot = (
        job["slot"][0].as_u64().unwrap_or(1596059091000),
        job["slot"][1].as_u64().unwrap_or(4492800),
        job["slot"][2].as_u64().unwrap_or(1000) as u32,
    );
    let pv: Option<u16> = job["pv"].as_u64().map(|p| p as u16);
    let phase_one = job["phase_one"].as_bool().unwrap_or(false);
    let want_second = job["second_path"].as_bool().unwrap_or(false);
    let want_json = job["ctx_json"].as_bool().unwrap_or(false);

    ORDER.with(|o| o.borrow_mut().clear());
    let res = guarded(|| match pv {
        Some(pv) => uplc::tx::eval_phase_two_raw_with_protocol(
            &tx_bytes,
            &utxos_bytes,
            cost_bytes.as_deref(),
            budget,
            slot,
            pv,
            phase_one,
            note_redeemer,
        ),
        None => uplc::tx::eval_phase_two_raw(
            &tx_bytes,
            &utxos_bytes,
            cost_bytes.as_deref(),
            budget,
            slot,
            phase_one,
            note_redeemer,
        ),
    });
    let order: Vec<J> = ORDER.with(|o| o.borrow().iter().map(|(t, i)| json!([t, i])).collect());
    let mut out = json!({"order": order});
    let evaluated: Vec<(Redeemer, EvalResult)> = match res {
        Err(p) => {
            out["panic"] = json!(p);
            vec![]
        }
        Ok(Err(e)) => {
            let (chain, cost) = error_chain(&e);
            out["err"] = json!(chain[0]);
            out["chain"] = json!(chain);
            if let Some(c) = cost {
                out["machine_cost"] = json!([c.cpu, c.mem]);
            }
            let mut m = e.to_string();
            trunc(&mut m, 300);
            out["err_msg"] = json!(m);
            vec![]
        }
        Ok(Ok(rs)) => {
            let mut v = vec![];
            for (bytes, ev) in rs {
                let r = Redeemer::decode_fragment(&bytes).map_err(|e| format!("returned redeemer does not decode: {e}"))?;
                v.push((r, ev));
            }
            v
        }
    };

    // typed view for the second path (the same decoding the raw entry point performs)
    let typed: Option<MintedTx> = minicbor::decode::<MintedTx>(&tx_bytes).ok();
    let mut utxos: Vec<ResolvedInput> = vec![];
    let mut utxo_decode_ok = true;
    for (i, o) in &utxos_bytes {
        match (TransactionInput::decode_fragment(i), TransactionOutput::decode_fragment(o)) {
            (Ok(input), Ok(output)) => utxos.push(ResolvedInput { input, output }),
            _ => utxo_decode_ok = false,
        }
    }
    let cost_mdls: Option<CostModels> = match &cost_bytes {
        Some(b) => CostModels::decode_fragment(b).ok(),
        None => None,
    };
    out["tx_decodes"] = json!(typed.is_some());
    out["utxos_decode"] = json!(utxo_decode_ok);
    let sc = SlotConfig { zero_time: slot.0, zero_slot: slot.1, slot_length: slot.2 };
    let direct_budget = budget_of(job.get("direct_budget"), ExBudget { cpu: 1_000_000_000_000, mem: 1_000_000_000_000 });

    if out.get("err").is_none() && out.get("panic").is_none() {
        let mut items = vec![];
        for (r, ev) in &evaluated {
            let mut item = eval_json(ev, want_json);
            item["tag"] = json!(tag_name(&r.tag));
            item["index"] = json!(r.index);
            item["ex_units"] = json!([r.ex_units.mem, r.ex_units.steps]);
            item["data"] = json!(hex::encode(uplc::plutus_data_to_bytes(&r.data)));
            if want_second {
                if let (Some(tx), true) = (&typed, utxo_decode_ok) {
                    let lookup = DataLookupTable::from_transaction(tx, &utxos);
                    let d = guarded(|| second_path(tx, &utxos, &sc, r, &lookup, cost_mdls.as_ref(), pv, direct_budget, want_json));
                    item["direct"] = match d {
                        Ok(j) => j,
                        Err(p) => json!({"panic": p}),
                    };
                }
            }
            items.push(item);
        }
        out["ok"] = J::Array(items);
    } else if want_second && job["second_path_on_error"].as_bool().unwrap_or(false) {
        // which redeemers does the transaction carry, and what does the direct path say about each
        if let (Some(tx), true) = (&typed, utxo_decode_ok) {
            let lookup = DataLookupTable::from_transaction(tx, &utxos);
            let mut items = vec![];
            if let Some(rs) = tx.transaction_witness_set.redeemer.as_deref() {
                let rs: &Redeemers = rs;
                for (key, data, ex_units) in uplc::tx::iter_redeemers(rs) {
                    let r = Redeemer { tag: key.tag, index: key.index, data: data.clone(), ex_units };
                    let d = guarded(|| second_path(tx, &utxos, &sc, &r, &lookup, cost_mdls.as_ref(), pv, direct_budget, false));
                    let mut j = match d {
                        Ok(j) => j,
                        Err(p) => json!({"panic": p}),
                    };
                    j["tag"] = json!(tag_name(&r.tag));
                    j["index"] = json!(r.index);
                    items.push(j);
                }
            }
            out["direct_all"] = J::Array(items);
        }
    }
    Ok(out)
}

fn op_script(job: &J) -> Result<J, String> {
    let p: Program<DeBruijn> = tj::program_from_json(&job["term"], job.get("version"))?;
    let cbor = p.to_cbor().map_err(|e| format!("to_cbor: {e}"))?;
    let flat = p.to_flat().map_err(|e| format!("to_flat: {e}"))?;
    Ok(json!({
        "cbor": hex::encode(&cbor),
        "flat": hex::encode(&flat),
        "hash": {
            "v1": hex::encode(Hasher::<224>::hash_tagged(&cbor, 1).as_ref()),
            "v2": hex::encode(Hasher::<224>::hash_tagged(&cbor, 2).as_ref()),
            "v3": hex::encode(Hasher::<224>::hash_tagged(&cbor, 3).as_ref()),
        },
    }))
}

fn op_apply_eval(job: &J) -> Result<J, String> {
    let script = hexfield(job, "script")?;
    let lang = vh::util::lang_of(job["lang"].as_str().unwrap_or("v3"))?;
    let pv: Option<u16> = job["pv"].as_u64().map(|p| p as u16);
    let costs: Option<Vec<i64>> = match job.get("costs") {
        Some(J::Array(v)) => Some(v.iter().map(|x| x.as_i64().unwrap_or(0)).collect()),
        _ => None,
    };
    let budget = budget_of(job.get("budget"), ExBudget { cpu: 1_000_000_000_000, mem: 1_000_000_000_000 });
    let mut buffer = Vec::new();
    let mut program: Program<NamedDeBruijn> = Program::<FakeNamedDeBruijn>::from_cbor(&script, &mut buffer)
        .map_err(|e| format!("script: {e}"))?
        .into();
    for a in job["args"].as_array().ok_or("args")? {
        let bytes = hex::decode(a.as_str().ok_or("arg")?).map_err(|e| e.to_string())?;
        let d: PlutusData = uplc::plutus_data(&bytes).map_err(|e| format!("arg: {e}"))?;
        program = program.apply_data(d);
    }
    let e = eval_direct(program, &lang, costs.as_deref(), pv, budget);
    let mut out = eval_json(&e, job["ctx_json"].as_bool().unwrap_or(false));
    out["failed"] = json!(e.failed(false, &lang));
    Ok(out)
}

/// several jobs on one line (cuts the per-job pipe round trip); every inner job is guarded
/// on its own, so a panic is still attributed to the job that raised it.
fn op_batch(job: &J) -> Result<J, String> {
    let mut results = vec![];
    for j in job["jobs"].as_array().ok_or("jobs")? {
        let mut res = match guarded(|| dispatch(j)) {
            Ok(Ok(v)) => v,
            Ok(Err(e)) => json!({"harness_error": e}),
            Err(p) => json!({"panic": p}),
        };
        res["id"] = j["id"].clone();
        results.push(res);
    }
    Ok(json!({"results": results}))
}

fn dispatch(job: &J) -> Result<J, String> {
    match job["op"].as_str().unwrap_or("phase2") {
        "batch" => op_batch(job),
        "phase2" => op_phase2(job),
        "script" => op_script(job),
        "apply_eval" => op_apply_eval(job),
        o => Err(format!("unknown op {o}")),
    }
}

fn main() {
    vh::util::quiet_panics();
    let stack_mb: usize = std::env::var("VH_STACK_MB").ok().and_then(|s| s.parse().ok()).unwrap_or(256);
    let h = std::thread::Builder::new()
        .stack_size(stack_mb << 20)
        .spawn(|| {
            let stdin = std::io::stdin();
            let stdout = std::io::stdout();
            for line in stdin.lock().lines() {
                let Ok(line) = line else { break };
                if line.trim().is_empty() {
                    continue;
                }
                let job: J = match vh::util::parse_job(&line) {
                    Ok(j) => j,
                    Err(e) => {
                        let mut o = stdout.lock();
                        let _ = writeln!(o, "{}", json!({"harness_error": format!("bad job json: {e}")}));
                        continue;
                    }
                };
                let id = job["id"].clone();
                let mut res = match guarded(|| dispatch(&job)) {
                    Ok(Ok(v)) => v,
                    Ok(Err(e)) => json!({"harness_error": e}),
                    Err(p) => json!({"panic": p}),
                };
                res["id"] = id;
                let mut o = stdout.lock();
                let _ = writeln!(o, "{}", res);
                let _ = o.flush();
            }
        })
        .unwrap();
    h.join().unwrap();
}
