//! Self-contained, seeded workloads for the undefined-behaviour interpreter (Miri):
//! pure-Rust paths that sit on top of `unsafe` dependencies (bitvec in the bitwise builtins,
//! manual bit arithmetic in the flat codec, the evaluator's Rc-heavy machine). No FFI
//! builtin (blst, secp256k1) is ever called here: Miri cannot enter C.
//!
//!   miri-run <kind> <seed> <n>      kind = codec | bitwise | hostile | decode
//!
//! Prints `MIRI-DONE kind=<k> cases=<n> ok=<..> err=<..>`; a Rust panic is caught and counted
//! (and printed as `MIRI-PANIC ...`): under plain `cargo run` this binary is an ordinary
//! smoke test of the same workloads.
use num_bigint::BigInt;
use std::rc::Rc;
use uplc::ast::{Constant, DeBruijn, NamedDeBruijn, Program, Term, Type};
use uplc::builtins::DefaultFunction as F;
use uplc::machine::cost_model::ExBudget;
use vh::rng::Rng;
use vh::util::guarded;

fn int(r: &mut Rng) -> BigInt {
    let pool: [i128; 16] = [0, 1, -1, 2, 7, 8, 9, 63, 64, 65, 255, 256, -256, 8192, i64::MAX as i128, i64::MIN as i128];
    match r.below(4) {
        0 => BigInt::from(*r.pick(&pool)),
        1 => BigInt::from(r.below(40) as i64 - 8),
        2 => BigInt::from(r.next()) * BigInt::from(r.next()),
        _ => -BigInt::from(r.next()),
    }
}

fn bytes(r: &mut Rng) -> Vec<u8> {
    let n = *r.pick(&[0usize, 1, 2, 7, 8, 9, 15, 16, 17, 31, 32, 33, 64, 65]);
    (0..n)
        .map(|_| match r.below(4) {
            0 => 0,
            1 => 0xff,
            _ => r.next() as u8,
        })
        .collect()
}

fn con_i(i: BigInt) -> Term<DeBruijn> {
    Term::Constant(Rc::new(Constant::Integer(i)))
}
fn con_b(b: Vec<u8>) -> Term<DeBruijn> {
    Term::Constant(Rc::new(Constant::ByteString(b)))
}
fn con_bool(b: bool) -> Term<DeBruijn> {
    Term::Constant(Rc::new(Constant::Bool(b)))
}
fn app(f: Term<DeBruijn>, xs: Vec<Term<DeBruijn>>) -> Term<DeBruijn> {
    xs.into_iter().fold(f, |acc, x| Term::Apply {
        function: Rc::new(acc),
        argument: Rc::new(x),
    })
}

fn bitwise_case(r: &mut Rng) -> Term<DeBruijn> {
    let b = |f: F| Term::Builtin(f);
    match r.below(14) {
        0 => app(b(F::ShiftByteString), vec![con_b(bytes(r)), con_i(int(r))]),
        1 => app(b(F::RotateByteString), vec![con_b(bytes(r)), con_i(int(r))]),
        2 => app(b(F::ReadBit), vec![con_b(bytes(r)), con_i(int(r))]),
        3 => {
            let n = r.below(4);
            let idx: Vec<Constant> = (0..n).map(|_| Constant::Integer(int(r))).collect();
            app(
                b(F::WriteBits),
                vec![con_b(bytes(r)), Term::Constant(Rc::new(Constant::ProtoList(Type::Integer, idx))), con_bool(r.chance(1, 2))],
            )
        }
        4 => app(b(F::AndByteString), vec![con_bool(r.chance(1, 2)), con_b(bytes(r)), con_b(bytes(r))]),
        5 => app(b(F::OrByteString), vec![con_bool(r.chance(1, 2)), con_b(bytes(r)), con_b(bytes(r))]),
        6 => app(b(F::XorByteString), vec![con_bool(r.chance(1, 2)), con_b(bytes(r)), con_b(bytes(r))]),
        7 => app(b(F::ComplementByteString), vec![con_b(bytes(r))]),
        8 => app(b(F::CountSetBits), vec![con_b(bytes(r))]),
        9 => app(b(F::FindFirstSetBit), vec![con_b(bytes(r))]),
        10 => app(b(F::IntegerToByteString), vec![con_bool(r.chance(1, 2)), con_i(BigInt::from(r.below(40))), con_i(int(r))]),
        11 => app(b(F::ByteStringToInteger), vec![con_bool(r.chance(1, 2)), con_b(bytes(r))]),
        12 => app(b(F::ReplicateByte), vec![con_i(BigInt::from(r.below(70) as i64 - 2)), con_i(BigInt::from(r.below(300) as i64 - 10))]),
        _ => app(b(F::SliceByteString), vec![con_i(int(r)), con_i(int(r)), con_b(bytes(r))]),
    }
}

fn data(r: &mut Rng, depth: u32) -> uplc::PlutusData {
    use uplc::ast::Data;
    match if depth == 0 { 3 + r.below(2) } else { r.below(5) } {
        0 => Data::constr(r.below(9), (0..r.below(3)).map(|_| data(r, depth - 1)).collect()),
        1 => Data::map((0..r.below(3)).map(|_| (data(r, depth - 1), data(r, depth - 1))).collect()),
        2 => Data::list((0..r.below(3)).map(|_| data(r, depth - 1)).collect()),
        3 => Data::integer(int(r)),
        _ => Data::bytestring(bytes(r)),
    }
}

fn constant(r: &mut Rng) -> Constant {
    match r.below(9) {
        0 => Constant::Integer(int(r)),
        1 => Constant::ByteString(bytes(r)),
        2 => Constant::String(["", "a", "é→", "\u{1F600}x", "q\"\\\n"][r.below(5) as usize].to_string()),
        3 => Constant::Unit,
        4 => Constant::Bool(r.chance(1, 2)),
        5 => Constant::Data(data(r, 2)),
        6 => Constant::ProtoList(Type::Integer, (0..r.below(4)).map(|_| Constant::Integer(int(r))).collect()),
        7 => Constant::ProtoPair(Type::Integer, Type::ByteString, Rc::new(Constant::Integer(int(r))), Rc::new(Constant::ByteString(bytes(r)))),
        _ => Constant::ProtoList(Type::Data, (0..r.below(3)).map(|_| Constant::Data(data(r, 1))).collect()),
    }
}

const SAFE_BUILTINS: [F; 12] = [
    F::AddInteger, F::SubtractInteger, F::MultiplyInteger, F::DivideInteger, F::IfThenElse, F::HeadList, F::TailList, F::ChooseList, F::AppendByteString,
    F::EqualsData, F::Trace, F::UnConstrData,
];

fn term(r: &mut Rng, size: u64, depth: u64, open: bool) -> Term<DeBruijn> {
    if size <= 1 {
        return match r.below(8) {
            0 | 1 if depth > 0 => Term::Var(Rc::new(DeBruijn::new(1 + r.below(depth) as usize))),
            2 if open => Term::Var(Rc::new(DeBruijn::new(*r.pick(&[0usize, 1, 9, 1 << 31])))),
            3 => Term::Builtin(*r.pick(&SAFE_BUILTINS)),
            4 => Term::Error,
            _ => Term::Constant(Rc::new(constant(r))),
        };
    }
    match r.below(9) {
        0 | 1 => {
            let l = 1 + r.below(size - 1);
            Term::Apply {
                function: Rc::new(term(r, l, depth, open)),
                argument: Rc::new(term(r, (size - 1).saturating_sub(l).max(1), depth, open)),
            }
        }
        2 | 3 => Term::Lambda {
            parameter_name: Rc::new(DeBruijn::new(0)),
            body: Rc::new(term(r, size - 1, depth + 1, open)),
        },
        4 => Term::Delay(Rc::new(term(r, size - 1, depth, open))),
        5 => Term::Force(Rc::new(term(r, size - 1, depth, open))),
        6 => Term::Constr {
            tag: r.below(3) as usize,
            fields: (0..r.below(3)).map(|_| term(r, (size / 3).max(1), depth, open)).collect(),
        },
        7 => Term::Case {
            constr: Rc::new(term(r, (size / 2).max(1), depth, open)),
            branches: (0..r.below(3)).map(|_| term(r, (size / 3).max(1), depth, open)).collect(),
        },
        _ => {
            // a redex that is likely to run: ((lam body) arg)
            Term::Apply {
                function: Rc::new(Term::Lambda {
                    parameter_name: Rc::new(DeBruijn::new(0)),
                    body: Rc::new(term(r, (size / 2).max(1), depth + 1, open)),
                }),
                argument: Rc::new(term(r, (size / 2).max(1), depth, open)),
            }
        }
    }
}

fn eval(t: Term<DeBruijn>) -> bool {
    let p: Program<NamedDeBruijn> = Program { version: (1, 1, 0), term: t }.into();
    p.eval(ExBudget { cpu: 50_000_000, mem: 500_000 }).result().is_ok()
}

fn main() {
    let args: Vec<String> = std::env::args().collect();
    let kind = args.get(1).map(|s| s.as_str()).unwrap_or("codec").to_string();
    let seed: u64 = args.get(2).and_then(|s| s.parse().ok()).unwrap_or(0);
    let n: u64 = args.get(3).and_then(|s| s.parse().ok()).unwrap_or(20);
    vh::util::quiet_panics();
    let mut r = Rng::new(seed, 0x4d495249);
    let (mut ok, mut err, mut panics) = (0u64, 0u64, 0u64);
    for i in 0..n {
        let res = match kind.as_str() {
            "bitwise" => {
                let t = bitwise_case(&mut r);
                guarded(|| eval(t))
            }
            "hostile" => {
                let sz = 3 + r.below(25);
                let t = term(&mut r, sz, 0, true);
                guarded(|| eval(t))
            }
            "decode" => {
                // mutate a valid encoding and decode + evaluate whatever decodes
                let sz = 3 + r.below(20);
                let t = term(&mut r, sz, 0, false);
                let p = Program { version: (1, 1, 0), term: t };
                let mut bytes = p.to_flat().unwrap_or_default();
                for _ in 0..1 + r.below(3) {
                    if bytes.is_empty() {
                        break;
                    }
                    let k = r.below(bytes.len() as u64) as usize;
                    match r.below(3) {
                        0 => bytes[k] ^= 1 << r.below(8),
                        1 => bytes.truncate(k),
                        _ => bytes[k] = r.next() as u8,
                    }
                }
                guarded(|| match Program::<DeBruijn>::from_flat(&bytes) {
                    Ok(q) => {
                        let _ = q.to_pretty();
                        eval(q.term)
                    }
                    Err(_) => false,
                })
            }
            _ => {
                // codec: flat / cbor round trips, all binder forms
                let sz = 3 + r.below(25);
                let t = term(&mut r, sz, 0, false);
                let p = Program { version: (1, 1, 0), term: t };
                guarded(|| {
                    let bytes = match p.to_flat() {
                        Ok(b) => b,
                        Err(_) => return false,
                    };
                    let q = Program::<DeBruijn>::from_flat(&bytes).expect("decode what was encoded");
                    assert!(q == p, "flat round trip changed the program");
                    assert!(q.to_flat().unwrap() == bytes, "re-encoding changed the bytes");
                    let cbor = p.to_cbor().unwrap();
                    let mut buf = Vec::new();
                    let q2 = Program::<DeBruijn>::from_cbor(&cbor, &mut buf).expect("cbor decode");
                    assert!(q2 == p);
                    let nd: Program<NamedDeBruijn> = p.clone().into();
                    let nb = nd.to_flat().unwrap();
                    let _ = Program::<NamedDeBruijn>::from_flat(&nb).expect("named decode");
                    true
                })
            }
        };
        match res {
            Ok(true) => ok += 1,
            Ok(false) => err += 1,
            Err(p) => {
                panics += 1;
                println!("MIRI-PANIC kind={kind} seed={seed} case={i} {p}");
            }
        }
    }
    println!("MIRI-DONE kind={kind} seed={seed} cases={n} ok={ok} err={err} panics={panics}");
}
