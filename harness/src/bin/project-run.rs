//! Project-level driver (C09, C17, C16 cross-checks): runs the real `Project` on an
//! on-disk project directory. JSONL jobs on stdin -> JSONL results on stdout. The number of
//! rayon workers is fixed per process (env RAYON_NUM_THREADS, read by rayon on first use).
use aiken_lang::ast::{TraceLevel, Tracing};
use aiken_lang::test_framework::{Test, TestResult};
use aiken_project::Project;
use aiken_project::options::BlueprintExport;
use aiken_project::telemetry::{CoverageMode, Event, EventListener};
use serde_json::{Value as J, json};
use std::cell::RefCell;
use std::collections::HashMap;
use std::io::{BufRead, Write};
use std::path::PathBuf;
use std::rc::Rc;
use std::sync::{Arc, Mutex};
use uplc::ast::{Constant, Name, Program, Term, Type};
use vh::util::{guarded, trunc};

#[derive(Clone, Default)]
struct Collector(Arc<Mutex<Vec<J>>>);

impl EventListener for Collector {
    fn handle_event(&self, event: Event) {
        if let Event::FinishedTests { tests, seed, .. } = event {
            let mut out = vec![];
            for t in &tests {
                let success = t.is_success();
                match t {
                    TestResult::UnitTestResult(u) => out.push(json!({
                        "kind": "unit", "module": u.test.module, "name": u.test.name, "success": success,
                        "cpu": u.spent_budget.cpu, "mem": u.spent_budget.mem, "logs": u.logs,
                        "has_assertion": u.assertion.is_some(),
                    })),
                    TestResult::PropertyTestResult(p) => {
                        let cx = match &p.counterexample {
                            Ok(None) => json!(null),
                            Ok(Some(e)) => {
                                let mut s = format!("{e:?}");
                                // positions are irrelevant and stable anyway; keep it short
                                trunc(&mut s, 2000);
                                json!({"some": s})
                            }
                            Err(e) => json!({"err": format!("{e:?}").chars().take(200).collect::<String>()}),
                        };
                        out.push(json!({
                            "kind": "property", "module": p.test.module, "name": p.test.name, "success": success,
                            "iterations": p.iterations, "labels": p.labels, "counterexample": cx, "logs": p.logs,
                        }))
                    }
                    TestResult::BenchmarkResult(_) => out.push(json!({"kind": "bench"})),
                }
            }
            self.0.lock().unwrap().push(json!({"seed": seed, "tests": out}));
        }
    }
}

// ------------------------------------------------------------------ C17 structural audit

#[derive(Default)]
struct Graph {
    /// allocation address -> (strong_count observed, in-degree inside this test's graph, kind)
    nodes: HashMap<usize, (usize, usize, &'static str)>,
}

impl Graph {
    /// returns true when the allocation is seen for the first time (recurse into it then)
    fn handle<T>(&mut self, rc: &Rc<T>, kind: &'static str) -> bool {
        let ptr = Rc::as_ptr(rc) as *const u8 as usize;
        let e = self.nodes.entry(ptr).or_insert((Rc::strong_count(rc), 0, kind));
        e.1 += 1;
        e.1 == 1
    }

    fn ty(&mut self, t: &Type) {
        match t {
            Type::List(inner) => {
                if self.handle(inner, "type") {
                    self.ty(inner);
                }
            }
            Type::Pair(a, b) => {
                if self.handle(a, "type") {
                    self.ty(a);
                }
                if self.handle(b, "type") {
                    self.ty(b);
                }
            }
            _ => {}
        }
    }

    fn constant(&mut self, c: &Constant) {
        match c {
            Constant::ProtoList(t, xs) => {
                self.ty(t);
                for x in xs {
                    self.constant(x);
                }
            }
            Constant::ProtoPair(t1, t2, a, b) => {
                self.ty(t1);
                self.ty(t2);
                if self.handle(a, "constant") {
                    self.constant(a);
                }
                if self.handle(b, "constant") {
                    self.constant(b);
                }
            }
            _ => {}
        }
    }

    fn term(&mut self, root: &Term<Name>) {
        let mut stack: Vec<&Term<Name>> = vec![root];
        while let Some(t) = stack.pop() {
            match t {
                Term::Var(n) => {
                    self.handle(n, "name");
                }
                Term::Delay(b) | Term::Force(b) => {
                    if self.handle(b, "term") {
                        stack.push(b);
                    }
                }
                Term::Lambda { parameter_name, body } => {
                    self.handle(parameter_name, "name");
                    if self.handle(body, "term") {
                        stack.push(body);
                    }
                }
                Term::Apply { function, argument } => {
                    if self.handle(function, "term") {
                        stack.push(function);
                    }
                    if self.handle(argument, "term") {
                        stack.push(argument);
                    }
                }
                Term::Constant(c) => {
                    if self.handle(c, "constant") {
                        self.constant(c);
                    }
                }
                Term::Constr { fields, .. } => stack.extend(fields.iter()),
                Term::Case { constr, branches } => {
                    if self.handle(constr, "term") {
                        stack.push(constr);
                    }
                    stack.extend(branches.iter());
                }
                Term::Error | Term::Builtin(_) => {}
            }
        }
    }

    fn program(&mut self, p: &Program<Name>) {
        self.term(&p.term);
    }
}

fn audit(tests: &[Test]) -> J {
    let mut owner: HashMap<usize, usize> = HashMap::new();
    let mut shared = vec![];
    let mut extra_owner = vec![];
    let mut allocations = 0usize;
    let mut assertions_present = 0usize;
    let mut names = vec![];
    for (i, t) in tests.iter().enumerate() {
        let mut g = Graph::default();
        let name = match t {
            Test::UnitTest(u) => {
                g.program(&u.program);
                if u.assertion.is_some() {
                    assertions_present += 1;
                }
                format!("{}.{}", u.module, u.name)
            }
            Test::PropertyTest(p) => {
                g.program(&p.program);
                g.program(&p.fuzzer.program);
                format!("{}.{}", p.module, p.name)
            }
            Test::Benchmark(b) => {
                g.program(&b.program);
                g.program(&b.sampler.program);
                format!("{}.{}", b.module, b.name)
            }
        };
        for (ptr, (strong, indeg, kind)) in &g.nodes {
            allocations += 1;
            if let Some(j) = owner.insert(*ptr, i) {
                if j != i && shared.len() < 20 {
                    shared.push(json!({"kind": kind, "tests": [names.get(j).cloned().unwrap_or_default(), name.clone()]}));
                }
            }
            if strong != indeg && extra_owner.len() < 20 {
                extra_owner.push(json!({"test": name, "kind": kind, "strong_count": strong, "in_graph_references": indeg}));
            }
        }
        names.push(name);
    }
    json!({
        "tests": tests.len(), "allocations": allocations, "shared_between_tests": shared,
        "owners_outside_the_test": extra_owner, "assertions_left_on_tests": assertions_present,
    })
}

thread_local! {
    static AUDIT: RefCell<Option<J>> = const { RefCell::new(None) };
}

fn tracing_of(s: &str) -> Tracing {
    vh::aik::tracing_of(s).unwrap_or(Tracing::All(TraceLevel::Verbose))
}

fn op_check(job: &J) -> Result<J, String> {
    let root = PathBuf::from(job["root"].as_str().ok_or("root")?);
    let seed = job["seed"].as_u64().unwrap_or(42) as u32;
    let max_success = job["max_success"].as_u64().unwrap_or(100) as usize;
    let tracing = tracing_of(job["tracing"].as_str().unwrap_or("verbose-all"));
    let collector = Collector::default();
    let mut project = Project::new(root, collector.clone()).map_err(|e| format!("project: {e:?}"))?;
    if job["audit"].as_bool().unwrap_or(false) {
        aiken_project::verif::set_pre_parallel(Some(Box::new(|tests| {
            let a = audit(tests);
            AUDIT.with(|s| *s.borrow_mut() = Some(a));
        })));
    }
    let r = guarded(|| project.check(false, None, false, false, seed, max_success, CoverageMode::default(), tracing, true, None));
    aiken_project::verif::set_pre_parallel(None);
    let audit = AUDIT.with(|s| s.borrow_mut().take());
    let events = collector.0.lock().unwrap().clone();
    Ok(match r {
        Err(p) => json!({"panic": p, "events": events, "audit": audit}),
        Ok(res) => {
            let errs: Vec<String> = match res {
                Ok(()) => vec![],
                Err(es) => es
                    .iter()
                    .map(|e| {
                        let mut s = format!("{e:?}");
                        trunc(&mut s, 160);
                        vh::util::variant_name(&s)
                    })
                    .collect(),
            };
            json!({"errors": errs, "events": events, "audit": audit, "threads": rayon::current_num_threads()})
        }
    })
}

fn op_build(job: &J) -> Result<J, String> {
    let root = PathBuf::from(job["root"].as_str().ok_or("root")?);
    let tracing = tracing_of(job["tracing"].as_str().unwrap_or("silent-all"));
    let out = root.join(job["out"].as_str().unwrap_or("plutus.json"));
    let mut project = Project::new(root.clone(), Collector::default()).map_err(|e| format!("project: {e:?}"))?;
    let export = if job["all_types"].as_bool().unwrap_or(false) { BlueprintExport::AllTypes } else { BlueprintExport::OnlyBinaryInterface };
    let r = guarded(|| project.build(job["uplc"].as_bool().unwrap_or(false), tracing, out.clone(), export, None));
    Ok(match r {
        Err(p) => json!({"panic": p}),
        Ok(Err(es)) => json!({"errors": es.iter().map(|e| { let mut s = format!("{e:?}"); trunc(&mut s, 300); s }).collect::<Vec<_>>()}),
        Ok(Ok(())) => {
            let text = std::fs::read_to_string(&out).map_err(|e| e.to_string())?;
            let parsed: J = serde_json::from_str(&text).map_err(|e| e.to_string())?;
            json!({"blueprint_text": text, "blueprint": parsed})
        }
    })
}

fn main() {
    vh::util::quiet_panics();
    let h = std::thread::Builder::new()
        .stack_size(512 << 20)
        .spawn(|| {
            let stdin = std::io::stdin();
            let stdout = std::io::stdout();
            for line in stdin.lock().lines() {
                let Ok(line) = line else { break };
                if line.trim().is_empty() {
                    continue;
                }
                let job: J = match vh::util::parse_job(&line) {
                    Ok(j) => j,
                    Err(e) => {
                        let mut o = stdout.lock();
                        let _ = writeln!(o, "{}", json!({"harness_error": format!("bad job json: {e}")}));
                        continue;
                    }
                };
                let id = job["id"].clone();
                let r = guarded(|| match job["op"].as_str().unwrap_or("check") {
                    "check" => op_check(&job),
                    "build" => op_build(&job),
                    o => Err(format!("unknown op {o}")),
                });
                let mut res = match r {
                    Ok(Ok(v)) => v,
                    Ok(Err(e)) => json!({"harness_error": e}),
                    Err(p) => json!({"panic": p}),
                };
                res["id"] = id;
                let mut o = stdout.lock();
                let _ = writeln!(o, "{}", res);
                let _ = o.flush();
            }
        })
        .unwrap();
    h.join().unwrap();
}
