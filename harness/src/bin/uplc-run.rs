//! Generic UPLC job runner: JSONL jobs on stdin -> JSONL results on stdout.
//! Thin by design: all judgement happens in the Python oracles.
use serde_json::{Value as J, json};
use std::io::{BufRead, Write};
use uplc::ast::{DeBruijn, FakeNamedDeBruijn, Name, NamedDeBruijn, Program};
use uplc::machine::Machine;
use uplc::machine::cost_model::{CostModel, ExBudget, initialize_cost_model_with_protocol};
use uplc::machine::value::Value;
use vh::tj::{self, BuiltinName};
use vh::util::{guarded, lang_of, variant_name};

fn value_to_json(v: &Value) -> J {
    match v {
        Value::Con(c) => tj::constant_to_json(c),
        Value::Delay(..) => json!({"k": "delay"}),
        Value::Lambda { .. } => json!({"k": "lam"}),
        Value::Builtin { .. } => json!({"k": "builtin"}),
        Value::Constr { .. } => json!({"k": "constr"}),
    }
}

fn op_eval(job: &J) -> Result<J, String> {
    let program: Program<NamedDeBruijn> = tj::program_from_json(&job["term"], job.get("version"))?;
    let lang = lang_of(job["lang"].as_str().unwrap_or("v3"))?;
    let pv = job["pv"].as_u64().unwrap_or(11) as u16;
    let costs: CostModel = match job.get("costs") {
        Some(J::Array(v)) => {
            let v: Vec<i64> = v.iter().map(|x| x.as_i64().unwrap_or(0)).collect();
            initialize_cost_model_with_protocol(&lang, pv, &v)
        }
        _ => CostModel::default_for_language_and_protocol(&lang, pv),
    };
    let budget = match job.get("budget") {
        Some(J::Array(b)) if b.len() == 2 => ExBudget {
            cpu: b[0].as_i64().ok_or("budget cpu")?,
            mem: b[1].as_i64().ok_or("budget mem")?,
        },
        _ => ExBudget::max(),
    };
    let slippage = job["slippage"].as_u64().unwrap_or(200) as u32;
    let want_events = job["events"].as_bool().unwrap_or(false);
    let debug = job["debug"].as_bool().unwrap_or(false);
    let mut machine = if debug {
        Machine::new_debug_with_protocol(lang.clone(), pv, costs, budget, slippage)
    } else {
        Machine::new_with_protocol(lang.clone(), pv, costs, budget, slippage)
    };
    if want_events {
        uplc::verif::arm_builtins();
    }
    let res = machine.run(program.term);
    let events = uplc::verif::take_builtins();
    let remaining = machine.ex_budget;
    let mut out = json!({
        "cost": [budget.cpu.saturating_sub(remaining.cpu), budget.mem.saturating_sub(remaining.mem)],
        "remaining": [remaining.cpu, remaining.mem],
        "logs": machine.traces.iter().map(|t| t.to_string()).collect::<Vec<_>>(),
    });
    // what `EvalResult::cost()` (Program::eval*, tx simulation, `aiken uplc eval`) reports for this run:
    // the repository's own `initial_budget - remaining_budget`
    match vh::util::guarded(|| budget - remaining) {
        Ok(c) => out["cost_api"] = json!([c.cpu, c.mem]),
        Err(p) => out["cost_api_panic"] = json!(p),
    }
    match res {
        Ok(t) => {
            out["ok"] = tj::term_to_json(&t);
        }
        Err(e) => {
            out["err"] = json!(variant_name(&format!("{e:?}")));
            let mut m = e.to_string();
            vh::util::trunc(&mut m, 300);
            out["err_msg"] = json!(m);
        }
    }
    if let Some(evs) = events {
        if want_events {
            out["builtins"] = J::Array(
                evs.iter()
                    .map(|e| {
                        json!({
                            "f": e.fun.aiken_name_compat(),
                            "a": e.args.iter().map(value_to_json).collect::<Vec<_>>(),
                            "c": [e.cost.cpu, e.cost.mem],
                        })
                    })
                    .collect(),
            );
        }
    }
    if let Some(sc) = machine.spend_counter {
        out["spend"] = json!(sc.to_vec());
    }
    Ok(out)
}

/// C08/C15: encodings round trips of a program given as JSON tree.
fn op_codec(job: &J) -> Result<J, String> {
    let p: Program<DeBruijn> = tj::program_from_json(&job["term"], job.get("version"))?;
    let mut out = json!({});
    // --- flat / cbor / hex over the three binder forms
    let flat = p.to_flat().map_err(|e| format!("to_flat: {e}"));
    match &flat {
        Err(e) => {
            out["flat_err"] = json!(e);
        }
        Ok(bytes) => {
            out["flat"] = json!(hex::encode(bytes));
            let back = Program::<DeBruijn>::from_flat(bytes);
            match back {
                Ok(q) => {
                    out["flat_rt_eq"] = json!(q == p);
                    out["flat_rt_tree_eq"] = json!(tj::term_to_json(&q.term) == tj::term_to_json(&p.term) && q.version == p.version);
                    let again = q.to_flat().map_err(|e| e.to_string())?;
                    out["flat_idem"] = json!(&again == bytes);
                }
                Err(e) => {
                    out["flat_decode_err"] = json!(e.to_string());
                }
            }
            // named de bruijn and fake-named forms must produce / accept the same bytes
            let nd: Program<NamedDeBruijn> = p.clone().into();
            let nd_bytes = nd.to_flat().map_err(|e| e.to_string())?;
            out["flat_nd_len"] = json!(nd_bytes.len());
            match Program::<NamedDeBruijn>::from_flat(&nd_bytes) {
                Ok(q) => {
                    let qd: Program<DeBruijn> = q.into();
                    out["flat_nd_rt_eq"] = json!(tj::term_to_json(&qd.term) == tj::term_to_json(&p.term));
                }
                Err(e) => {
                    out["flat_nd_decode_err"] = json!(e.to_string());
                }
            }
            match Program::<FakeNamedDeBruijn>::from_flat(bytes) {
                Ok(q) => {
                    let again = q.to_flat().map_err(|e| e.to_string())?;
                    out["flat_fake_idem"] = json!(&again == bytes);
                    let qn: Program<NamedDeBruijn> = q.into();
                    let qd: Program<DeBruijn> = qn.into();
                    out["flat_fake_rt_eq"] = json!(tj::term_to_json(&qd.term) == tj::term_to_json(&p.term));
                }
                Err(e) => {
                    out["flat_fake_decode_err"] = json!(e.to_string());
                }
            }
            // Name form: DeBruijn -> Name -> flat -> Name -> DeBruijn
            let named: Result<Program<Name>, _> = p.clone().try_into();
            match named {
                Ok(n) => {
                    let nb = n.to_flat().map_err(|e| e.to_string())?;
                    match Program::<Name>::from_flat(&nb) {
                        Ok(n2) => {
                            let d2: Result<Program<DeBruijn>, _> = n2.try_into();
                            match d2 {
                                Ok(d2) => {
                                    out["flat_name_rt_eq"] = json!(tj::term_to_json(&d2.term) == tj::term_to_json(&p.term));
                                }
                                Err(e) => {
                                    out["flat_name_conv_err"] = json!(format!("{e:?}"));
                                }
                            }
                        }
                        Err(e) => {
                            out["flat_name_decode_err"] = json!(e.to_string());
                        }
                    }
                }
                Err(e) => {
                    out["name_conv_err"] = json!(format!("{e:?}"));
                }
            }
            // cbor / hex
            let cbor = p.to_cbor().map_err(|e| e.to_string())?;
            out["cbor"] = json!(hex::encode(&cbor));
            let mut buf = Vec::new();
            match Program::<DeBruijn>::from_cbor(&cbor, &mut buf) {
                Ok(q) => {
                    out["cbor_rt_eq"] = json!(tj::term_to_json(&q.term) == tj::term_to_json(&p.term) && q.version == p.version);
                    out["cbor_idem"] = json!(q.to_cbor().map_err(|e| e.to_string())? == cbor);
                }
                Err(e) => {
                    out["cbor_decode_err"] = json!(e.to_string());
                }
            }
            let hx = p.to_hex().map_err(|e| e.to_string())?;
            out["hex_is_cbor"] = json!(hx == hex::encode(&cbor));
            let mut b1 = Vec::new();
            let mut b2 = Vec::new();
            match Program::<DeBruijn>::from_hex(&hx, &mut b1, &mut b2) {
                Ok(q) => {
                    out["hex_rt_eq"] = json!(tj::term_to_json(&q.term) == tj::term_to_json(&p.term));
                }
                Err(e) => {
                    out["hex_decode_err"] = json!(e.to_string());
                }
            }
        }
    }
    Ok(out)
}

/// C15: pretty-print and re-parse.
fn op_pretty(job: &J) -> Result<J, String> {
    let p: Program<DeBruijn> = tj::program_from_json(&job["term"], job.get("version"))?;
    let mut out = json!({});
    let want = tj::term_to_json(&p.term);
    // path 1: DeBruijn printed directly
    // path 2: NamedDeBruijn printed
    // path 3: converted to Name then printed (what `uplc fmt/decode` print)
    let nd: Program<NamedDeBruijn> = p.clone().into();
    let named: Result<Program<Name>, _> = p.clone().try_into();
    let mut texts: Vec<(&str, String)> = vec![("debruijn", p.to_pretty()), ("named_debruijn", nd.to_pretty())];
    match named {
        Ok(n) => texts.push(("name", n.to_pretty())),
        Err(e) => {
            out["name_conv_err"] = json!(format!("{e:?}"));
        }
    }
    let mut paths = vec![];
    for (label, text) in texts {
        let mut r = json!({"path": label});
        if job["keep_text"].as_bool().unwrap_or(true) {
            let mut t = text.clone();
            if t.len() > 4000 {
                vh::util::trunc(&mut t, 4000);
            }
            r["text"] = json!(t);
        }
        if label == "name" {
            let parsed = match guarded(|| uplc::parser::program(&text)) {
                Ok(x) => x,
                Err(p) => {
                    r["parse_panic"] = json!(p);
                    paths.push(r);
                    continue;
                }
            };
            match parsed {
                Ok(q) => {
                    r["version_eq"] = json!(q.version == p.version);
                    let again = q.to_pretty();
                    r["reprint_eq"] = json!(again == text);
                    let qd: Result<Program<DeBruijn>, _> = q.try_into();
                    match qd {
                        Ok(qd) => {
                            let got = tj::term_to_json(&qd.term);
                            r["tree_eq"] = json!(got == want);
                            if got != want {
                                r["got"] = got;
                            }
                        }
                        Err(e) => {
                            r["conv_err"] = json!(format!("{e:?}"));
                        }
                    }
                }
                Err(e) => {
                    let mut m = format!("{e:?}");
                    vh::util::trunc(&mut m, 300);
                    r["parse_err"] = json!(m);
                }
            }
        }
        paths.push(r);
    }
    out["paths"] = J::Array(paths);
    Ok(out)
}

/// C20/C10: decode untrusted bytes through every binder form and evaluate what decodes.
fn op_decode(job: &J) -> Result<J, String> {
    let bytes = hex::decode(job["bytes"].as_str().ok_or("bytes")?).map_err(|e| e.to_string())?;
    let kind = job["kind"].as_str().unwrap_or("flat");
    let mut out = json!({});
    macro_rules! try_form {
        ($t:ty, $label:expr) => {{
            let r = match kind {
                "flat" => Program::<$t>::from_flat(&bytes).map_err(|e| e.to_string()),
                "cbor" => {
                    let mut buf = Vec::new();
                    Program::<$t>::from_cbor(&bytes, &mut buf).map_err(|e| e.to_string())
                }
                "hex" => {
                    let s = String::from_utf8_lossy(&bytes).to_string();
                    let mut b1 = Vec::new();
                    let mut b2 = Vec::new();
                    Program::<$t>::from_hex(&s, &mut b1, &mut b2).map_err(|e| e.to_string())
                }
                _ => Err("bad kind".to_string()),
            };
            match r {
                Ok(p) => {
                    out[$label] = json!("ok");
                    Some(p)
                }
                Err(e) => {
                    let mut e = e;
                    vh::util::trunc(&mut e, 120);
                    out[$label] = json!(format!("err: {e}"));
                    None
                }
            }
        }};
    }
    let _ = try_form!(Name, "name");
    let nd = try_form!(NamedDeBruijn, "named_debruijn");
    let d = try_form!(DeBruijn, "debruijn");
    let _ = try_form!(FakeNamedDeBruijn, "fake");
    if let Some(p) = d {
        // whatever decodes must print, re-encode and evaluate without crashing
        let _ = p.to_pretty();
        let _ = p.to_flat();
        let named: Result<Program<Name>, _> = p.clone().try_into();
        out["to_name"] = json!(named.is_ok());
    }
    if let Some(p) = nd {
        if job["eval"].as_bool().unwrap_or(true) {
            let mut machine = Machine::new_with_protocol(
                lang_of("v3")?,
                11,
                CostModel::default(),
                ExBudget { cpu: 2_000_000_000, mem: 20_000_000 },
                200,
            );
            let r = machine.run(p.term);
            out["eval"] = json!(match r {
                Ok(_) => "ok".to_string(),
                Err(e) => variant_name(&format!("{e:?}")),
            });
        }
    }
    Ok(out)
}

/// C20/C15: parse untrusted UPLC text.
fn op_parse(job: &J) -> Result<J, String> {
    let text = job["text"].as_str().ok_or("text")?;
    let mut out = json!({});
    match uplc::parser::program(text) {
        Ok(p) => {
            out["program"] = json!("ok");
            let _ = p.to_pretty();
            let d: Result<Program<DeBruijn>, _> = p.try_into();
            match d {
                Ok(d) => {
                    if job["tree"].as_bool().unwrap_or(true) {
                        out["tree"] = tj::term_to_json(&d.term);
                    }
                    out["version"] = json!([d.version.0, d.version.1, d.version.2]);
                }
                Err(e) => {
                    out["conv_err"] = json!(format!("{e:?}"));
                }
            }
        }
        Err(e) => {
            let mut m = format!("{e:?}");
            vh::util::trunc(&mut m, 200);
            out["program"] = json!(format!("err: {m}"));
        }
    }
    if job["also_term"].as_bool().unwrap_or(false) {
        out["term"] = json!(match uplc::parser::term(text) {
            Ok(_) => "ok".to_string(),
            Err(_) => "err".to_string(),
        });
    }
    Ok(out)
}

fn op_data(job: &J) -> Result<J, String> {
    let bytes = hex::decode(job["bytes"].as_str().ok_or("bytes")?).map_err(|e| e.to_string())?;
    Ok(match uplc::plutus_data(&bytes) {
        Ok(d) => {
            let re = uplc::plutus_data_to_bytes(&d);
            if job["tree"].as_bool().unwrap_or(true) {
                json!({"data": tj::data_to_json(&d), "reencoded": hex::encode(re)})
            } else {
                json!({"data": "ok", "reencoded": hex::encode(re)})
            }
        }
        Err(e) => json!({"err": e.to_string()}),
    })
}


fn serde_facts(p: &Program<DeBruijn>) -> J {
    use pallas_addresses::{Network, ShelleyDelegationPart};
    use uplc::ast::SerializableProgram as SP;
    let mut out = json!({});
    let cbor = match p.to_cbor() {
        Ok(c) => c,
        Err(e) => return json!({"to_cbor_err": e.to_string()}),
    };
    out["cbor"] = json!(hex::encode(&cbor));
    let fake_key = pallas_crypto::hash::Hash::<28>::from([0x11u8; 28]);
    let fake_script = pallas_crypto::hash::Hash::<28>::from([0x22u8; 28]);
    for (label, sp, language) in [
        ("v1", SP::PlutusV1Program(p.clone()), lang_of("v1").unwrap()),
        ("v2", SP::PlutusV2Program(p.clone()), lang_of("v2").unwrap()),
        ("v3", SP::PlutusV3Program(p.clone()), lang_of("v3").unwrap()),
    ] {
        let mut o = json!({});
        let v = serde_json::to_value(&sp).map_err(|e| e.to_string());
        match v {
            Err(e) => {
                o["serialize_err"] = json!(e);
            }
            Ok(v) => {
                o["json"] = v.clone();
                match serde_json::from_value::<SP>(v.clone()) {
                    Ok(back) => {
                        let which = match &back {
                            SP::PlutusV1Program(_) => "v1",
                            SP::PlutusV2Program(_) => "v2",
                            SP::PlutusV3Program(_) => "v3",
                        };
                        o["recovered"] = json!(which);
                        o["program_eq"] = json!(back.inner() == p);
                        o["resave_eq"] = json!(serde_json::to_value(&back).ok() == Some(v));
                    }
                    Err(e) => {
                        o["deserialize_err"] = json!(e.to_string());
                    }
                }
            }
        }
        let mut addrs = json!({});
        for (nl, network) in [("testnet", Network::Testnet), ("mainnet", Network::Mainnet)] {
            for (dl, deleg) in [
                ("none", ShelleyDelegationPart::Null),
                ("key", ShelleyDelegationPart::Key(fake_key)),
                ("script", ShelleyDelegationPart::Script(fake_script)),
            ] {
                let a = p.address(network, deleg, &language);
                addrs[format!("{nl}-{dl}")] = json!({"bytes": hex::encode(a.to_vec()), "bech32": a.to_bech32().ok()});
            }
        }
        o["addresses"] = addrs;
        out[label] = o;
    }
    out
}

/// C08: published hash / address / serde facts of a program given as JSON tree.
fn op_hash(job: &J) -> Result<J, String> {
    let p: Program<DeBruijn> = tj::program_from_json(&job["term"], job.get("version"))?;
    Ok(serde_facts(&p))
}

/// C08: bytes the toolchain produced must re-encode bit for bit through every binder form.
fn op_recode(job: &J) -> Result<J, String> {
    let hx = job["hex"].as_str().ok_or("hex")?;
    let mut out = json!({});
    macro_rules! form {
        ($t:ty, $label:expr) => {{
            let mut b1 = Vec::new();
            let mut b2 = Vec::new();
            match Program::<$t>::from_hex(hx, &mut b1, &mut b2) {
                Ok(p) => {
                    out[$label] = json!(match p.to_hex() {
                        Ok(h2) => if h2 == hx.to_lowercase() { "same".to_string() } else { format!("differs:{h2}") },
                        Err(e) => format!("encode_err:{e}"),
                    });
                }
                Err(e) => {
                    out[$label] = json!(format!("decode_err:{e}"));
                }
            }
        }};
    }
    form!(DeBruijn, "debruijn");
    form!(NamedDeBruijn, "named_debruijn");
    form!(FakeNamedDeBruijn, "fake");
    let mut b1 = Vec::new();
    let mut b2 = Vec::new();
    if let Ok(p) = Program::<DeBruijn>::from_hex(hx, &mut b1, &mut b2) {
        out["tree"] = tj::term_to_json(&p.term);
        out["version"] = json!([p.version.0, p.version.1, p.version.2]);
        out["serde"] = serde_facts(&p);
        // through names and back (what `uplc decode | uplc encode` does)
        let named: Result<Program<Name>, _> = p.clone().try_into();
        if let Ok(n) = named {
            let text = n.to_pretty();
            match uplc::parser::program(&text) {
                Ok(q) => {
                    let d: Result<Program<DeBruijn>, _> = q.try_into();
                    out["via_text"] = json!(match d {
                        Ok(d) => match d.to_hex() {
                            Ok(h2) => if h2 == hx.to_lowercase() { "same".to_string() } else { "differs".to_string() },
                            Err(e) => format!("encode_err:{e}"),
                        },
                        Err(e) => format!("conv_err:{e:?}"),
                    });
                }
                Err(_) => {
                    out["via_text"] = json!("parse_err");
                }
            }
        }
    }
    Ok(out)
}

fn dispatch(job: &J) -> Result<J, String> {
    match job["op"].as_str().unwrap_or("eval") {
        "eval" => op_eval(job),
        "codec" => op_codec(job),
        "pretty" => tj::with_plain(|| op_pretty(job)),
        "decode" => op_decode(job),
        "parse" => op_parse(job),
        "data" => op_data(job),
        "hash" => op_hash(job),
        "recode" => op_recode(job),
        "convert" => vh::conv::op_convert(job),
        o => Err(format!("unknown op {o}")),
    }
}

fn main() {
    let args: Vec<String> = std::env::args().collect();
    if args.iter().any(|a| a == "--list-builtins") {
        use strum::IntoEnumIterator;
        for f in uplc::builtins::DefaultFunction::iter() {
            println!(
                "{}",
                json!({"name": f.aiken_name_compat(), "display": f.to_string(), "arity": f.arity(), "forces": f.force_count(), "tag": f as u8})
            );
        }
        return;
    }
    vh::util::quiet_panics();
    let stack_mb: usize = std::env::var("VH_STACK_MB").ok().and_then(|s| s.parse().ok()).unwrap_or(1024);
    let h = std::thread::Builder::new()
        .stack_size(stack_mb << 20)
        .spawn(|| {
            let stdin = std::io::stdin();
            let stdout = std::io::stdout();
            for line in stdin.lock().lines() {
                let Ok(line) = line else { break };
                if line.trim().is_empty() {
                    continue;
                }
                let job: J = match vh::util::parse_job(&line) {
                    Ok(j) => j,
                    Err(e) => {
                        let mut o = stdout.lock();
                        let _ = writeln!(o, "{}", json!({"harness_error": format!("bad job json: {e}")}));
                        continue;
                    }
                };
                let id = job["id"].clone();
                let mut res = match guarded(|| dispatch(&job)) {
                    Ok(Ok(v)) => v,
                    Ok(Err(e)) => json!({"harness_error": e}),
                    Err(p) => json!({"panic": p}),
                };
                res["id"] = id;
                let mut o = stdout.lock();
                let _ = writeln!(o, "{}", res);
                let _ = o.flush();
            }
        })
        .unwrap();
    h.join().unwrap();
}
