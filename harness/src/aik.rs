//! In-memory Aiken project built only from public APIs (mirrors what
//! `aiken_project::Project` does for type-checking and code generation, without I/O).
use aiken_lang::{
    IdGenerator,
    ast::{
        DataTypeKey, Definition, FunctionAccessKey, ModuleKind, TraceLevel, Tracing, TypedDataType,
        TypedFunction, TypedModule,
    },
    builtins,
    expr::TypedExpr,
    gen_uplc::CodeGenerator,
    line_numbers::LineNumbers,
    parser,
    plutus_version::PlutusVersion,
    tipo::TypeInfo,
    utils,
};
use indexmap::IndexMap;
use std::collections::HashMap;

pub fn tracing_of(s: &str) -> Result<Tracing, String> {
    let (level, scope) = s.split_once('-').ok_or("tracing = level-scope")?;
    let level = match level {
        "silent" => TraceLevel::Silent,
        "compact" => TraceLevel::Compact,
        "verbose" => TraceLevel::Verbose,
        o => return Err(format!("bad trace level {o}")),
    };
    Ok(match scope {
        "user" => Tracing::UserDefined(level),
        "compiler" => Tracing::CompilerGenerated(level),
        "all" => Tracing::All(level),
        o => return Err(format!("bad trace scope {o}")),
    })
}

pub const ALL_TRACINGS: [&str; 9] = [
    "silent-all",
    "compact-all",
    "verbose-all",
    "silent-user",
    "compact-user",
    "verbose-user",
    "silent-compiler",
    "compact-compiler",
    "verbose-compiler",
];

pub fn plutus_of(s: &str) -> Result<PlutusVersion, String> {
    match s {
        "v1" => Ok(PlutusVersion::V1),
        "v2" => Ok(PlutusVersion::V2),
        "v3" => Ok(PlutusVersion::V3),
        o => Err(format!("bad plutus version {o}")),
    }
}

pub struct MemProject {
    pub package: String,
    pub id_gen: IdGenerator,
    pub functions: IndexMap<FunctionAccessKey, TypedFunction>,
    pub constants: IndexMap<FunctionAccessKey, TypedExpr>,
    pub data_types: IndexMap<DataTypeKey, TypedDataType>,
    pub module_types: HashMap<String, TypeInfo>,
    pub module_sources: HashMap<String, (String, LineNumbers)>,
    pub modules: Vec<(String, TypedModule)>,
    /// (name, kind, source, extra) for every module added, in order
    pub parsed: Vec<(String, ModuleKind, String, aiken_lang::parser::extra::ModuleExtra)>,
    pub warnings: usize,
}

pub enum AddError {
    Parse(String),
    Type(String, String),
}

impl MemProject {
    pub fn new() -> Self {
        let id_gen = IdGenerator::new();
        let mut module_types = HashMap::new();
        module_types.insert("aiken".to_string(), builtins::prelude(&id_gen));
        module_types.insert("aiken/builtin".to_string(), builtins::plutus(&id_gen));
        let functions = builtins::prelude_functions(&id_gen, &module_types);
        let data_types = builtins::prelude_data_types(&id_gen);
        MemProject {
            package: "test/project".to_string(),
            id_gen,
            functions,
            constants: IndexMap::new(),
            data_types,
            module_types,
            module_sources: HashMap::new(),
            modules: vec![],
            parsed: vec![],
            warnings: 0,
        }
    }

    /// Parse + type-check + register one module. Returns the error variant name and
    /// rendered message on rejection.
    pub fn add(&mut self, name: &str, kind: ModuleKind, src: &str, tracing: Tracing) -> Result<(), AddError> {
        let (mut ast, extra) = parser::module(src, kind).map_err(|errs| {
            AddError::Parse(
                errs.iter()
                    .map(|e| format!("{e:?}"))
                    .collect::<Vec<_>>()
                    .join("; "),
            )
        })?;
        ast.name = name.to_string();
        let mut warnings = vec![];
        let typed = ast
            .infer(
                &self.id_gen,
                kind,
                &self.package,
                &self.module_types,
                tracing,
                &mut warnings,
                None,
            )
            .map_err(|e| {
                let dbg = format!("{e:?}");
                AddError::Type(crate::util::variant_name(&dbg), dbg)
            })?;
        self.warnings += warnings.len();
        typed.register_definitions(&mut self.functions, &mut self.constants, &mut self.data_types);
        self.module_sources
            .insert(name.to_string(), (src.to_string(), LineNumbers::new(src)));
        self.module_types
            .insert(name.to_string(), typed.type_info.clone());
        self.modules.push((name.to_string(), typed));
        self.parsed.push((name.to_string(), kind, src.to_string(), extra));
        Ok(())
    }

    pub fn generator(&self, plutus: PlutusVersion, tracing: Tracing) -> CodeGenerator<'_> {
        CodeGenerator::new(
            plutus,
            utils::indexmap::as_ref_values(&self.functions),
            utils::indexmap::as_ref_values(&self.constants),
            utils::indexmap::as_ref_values(&self.data_types),
            utils::indexmap::as_str_ref_values(&self.module_types),
            utils::indexmap::as_str_ref_values(&self.module_sources),
            tracing,
        )
    }

    pub fn module(&self, name: &str) -> Option<&TypedModule> {
        self.modules.iter().find(|(n, _)| n == name).map(|(_, m)| m)
    }

    pub fn find_fn(&self, module: &str, name: &str) -> Option<&TypedFunction> {
        self.module(module)?.definitions().find_map(|d| match d {
            Definition::Fn(f) if f.name == name => Some(f),
            _ => None,
        })
    }
}

impl Default for MemProject {
    fn default() -> Self {
        Self::new()
    }
}
