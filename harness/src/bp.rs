//! Blueprint-level driver ops (C08, C12, C18, C20): build a blueprint from in-memory
//! modules, apply parameters step by step with JSON save/load in between, and feed
//! untrusted JSON/TOML to the loaders.
use crate::aik::{self, AddError, MemProject};
use crate::schema::checked_modules;
use crate::tj;
use crate::util::{guarded, variant_name};
use aiken_lang::ast::ModuleKind;
use aiken_project::blueprint::Blueprint;
use aiken_project::config::ProjectConfig;
use aiken_project::module::CheckedModules;
use aiken_project::package_name::PackageName;
use serde_json::{Value as J, json};

pub fn build_project(job: &J, tracing: &str) -> Result<MemProject, J> {
    let mut project = MemProject::new();
    for m in job["modules"].as_array().cloned().unwrap_or_default() {
        let name = m["name"].as_str().unwrap_or("m").to_string();
        let kind = match m["kind"].as_str() {
            Some("lib") => ModuleKind::Lib,
            _ => ModuleKind::Validator,
        };
        let t = aik::tracing_of(tracing).map_err(|e| json!({"harness_error": e}))?;
        match guarded(|| project.add(&name, kind, m["src"].as_str().unwrap_or(""), t)) {
            Ok(Ok(())) => {}
            Ok(Err(AddError::Parse(e))) => {
                let mut e = e;
                crate::util::trunc(&mut e, 600);
                return Err(json!({"rejected": "parse", "module": name, "detail": e}));
            }
            Ok(Err(AddError::Type(v, d))) => {
                let mut d = d;
                crate::util::trunc(&mut d, 800);
                return Err(json!({"rejected": "type", "module": name, "variant": v, "detail": d}));
            }
            Err(p) => return Err(json!({"rejected": "panic", "module": name, "panic": p})),
        }
    }
    Ok(project)
}

pub fn op_blueprint(job: &J) -> Result<J, String> {
    let tracing = job["tracing"].as_str().unwrap_or("silent-all");
    let project = match build_project(job, tracing) {
        Ok(p) => p,
        Err(rej) => return Ok(rej),
    };
    let plutus = aik::plutus_of(job["plutus"].as_str().unwrap_or("v3"))?;
    let mut config = ProjectConfig::default(&PackageName {
        owner: "test".to_string(),
        repo: "project".to_string(),
    });
    config.plutus = plutus;
    let modules: CheckedModules = checked_modules(&project).into();
    let mut generator = project.generator(plutus, aik::tracing_of(tracing)?);
    let r = guarded(|| Blueprint::new(&config, &modules, &mut generator, job["export_all_types"].as_bool().unwrap_or(false)));
    Ok(match r {
        Err(p) => json!({"blueprint_panic": p}),
        Ok(Err(e)) => {
            let mut d = format!("{e:?}");
            crate::util::trunc(&mut d, 600);
            json!({"blueprint_error": variant_name(&d), "detail": d})
        }
        Ok(Ok(bp)) => {
            let v = serde_json::to_value(&bp).map_err(|e| e.to_string())?;
            // load -> save fixpoint
            let back: Result<Blueprint, _> = serde_json::from_value(v.clone());
            let fix = match back {
                Ok(b2) => json!({"eq": b2 == bp, "resave_eq": serde_json::to_value(&b2).ok() == Some(v.clone())}),
                Err(e) => json!({"load_err": e.to_string()}),
            };
            json!({"blueprint": v, "fixpoint": fix, "gen_state": generator.verif_state().to_vec()})
        }
    })
}

pub fn op_apply(job: &J) -> Result<J, String> {
    let loaded = guarded(|| serde_json::from_value::<Blueprint>(job["blueprint"].clone()));
    let mut bp: Blueprint = match loaded {
        Err(p) => return Ok(json!({"steps": [{"panic": p}]})),
        // a blueprint the loader refuses: a proper rejection (C20), reported as such
        Ok(Err(e)) => return Ok(json!({"steps": [{"err": "BlueprintRejectedByLoader", "detail": e.to_string(), "unchanged": true}]})),
        Ok(Ok(bp)) => bp,
    };
    let save_load = job["save_load"].as_bool().unwrap_or(true);
    let mut steps_out = vec![];
    for step in job["steps"].as_array().cloned().unwrap_or_default() {
        let module = step["module"].as_str();
        let validator = step["validator"].as_str();
        let data = match tj::data_from_json(&step["param"]) {
            Ok(d) => d,
            Err(e) => {
                steps_out.push(json!({"harness_error": e}));
                continue;
            }
        };
        let before = serde_json::to_value(&bp).map_err(|e| e.to_string())?;
        let mut work = bp.clone();
        let r = guarded(|| work.apply_parameter(module, validator, &data));
        match r {
            Err(p) => {
                steps_out.push(json!({"panic": p}));
            }
            Ok(Err(e)) => {
                let after = serde_json::to_value(&bp).map_err(|e| e.to_string())?;
                let mut d = format!("{e:?}");
                crate::util::trunc(&mut d, 300);
                steps_out.push(json!({"err": variant_name(&d), "detail": d, "unchanged": after == before}));
            }
            Ok(Ok(())) => {
                bp = work;
                let v = serde_json::to_value(&bp).map_err(|e| e.to_string())?;
                if save_load {
                    let text = serde_json::to_string_pretty(&bp).map_err(|e| e.to_string())?;
                    match serde_json::from_str::<Blueprint>(&text) {
                        Ok(b2) => {
                            let same = b2 == bp;
                            bp = b2;
                            steps_out.push(json!({"ok": v, "reload_eq": same}));
                        }
                        Err(e) => {
                            steps_out.push(json!({"ok": v, "reload_err": e.to_string()}));
                        }
                    }
                } else {
                    steps_out.push(json!({"ok": v}));
                }
            }
        }
    }
    Ok(json!({"steps": steps_out}))
}

/// uplc::tx::apply_params_to_script on raw bytes (params = Data list, CBOR-encoded)
pub fn op_apply_raw(job: &J) -> Result<J, String> {
    use pallas_codec::minicbor;
    use pallas_primitives::alonzo::PlutusData;
    use pallas_primitives::MaybeIndefArray;
    let script = hex::decode(job["script"].as_str().ok_or("script")?).map_err(|e| e.to_string())?;
    let params = job["params"]
        .as_array()
        .ok_or("params")?
        .iter()
        .map(tj::data_from_json)
        .collect::<Result<Vec<_>, _>>()?;
    let list = PlutusData::Array(MaybeIndefArray::Def(params));
    let mut bytes = Vec::new();
    minicbor::encode(&list, &mut bytes).map_err(|e| e.to_string())?;
    let r = guarded(|| uplc::tx::apply_params_to_script(&bytes, &script));
    Ok(match r {
        Err(p) => json!({"panic": p}),
        Ok(Err(e)) => json!({"err": variant_name(&format!("{e:?}"))}),
        Ok(Ok(b)) => json!({"ok": hex::encode(b)}),
    })
}

/// Evaluate a compiled program (hex of CBOR-wrapped flat) applied to Data arguments.
pub fn op_eval_hex(job: &J) -> Result<J, String> {
    use uplc::ast::{DeBruijn, NamedDeBruijn, Program, Term};
    use uplc::machine::cost_model::ExBudget;
    let hx = job["hex"].as_str().ok_or("hex")?;
    let mut b1 = Vec::new();
    let mut b2 = Vec::new();
    let program = Program::<DeBruijn>::from_hex(hx, &mut b1, &mut b2).map_err(|e| format!("from_hex: {e}"))?;
    let language = crate::util::lang_of(job["lang"].as_str().unwrap_or("v3"))?;
    let mut out = vec![];
    for argset in job["argsets"].as_array().cloned().unwrap_or_default() {
        let mut p = program.clone();
        for a in argset.as_array().cloned().unwrap_or_default() {
            p = p.apply_data(tj::data_from_json(&a)?);
        }
        let nd: Program<NamedDeBruijn> = p.into();
        let r = guarded(|| nd.eval_version(ExBudget::max(), &language));
        out.push(match r {
            Err(pn) => json!({"panic": pn}),
            Ok(res) => {
                let failed = res.failed(true, &language);
                match &res.result {
                    Ok(Term::Constant(c)) => json!({"ok": tj::constant_to_json(c), "failed": failed}),
                    Ok(t) => json!({"ok": {"k": variant_name(&format!("{t:?}"))}, "failed": failed}),
                    Err(e) => json!({"err": variant_name(&format!("{e:?}")), "failed": failed}),
                }
            }
        });
    }
    Ok(json!({"results": out, "tree": if job["tree"].as_bool().unwrap_or(false) { tj::term_to_json(&program.term) } else { J::Null }}))
}

/// C20: untrusted JSON / TOML into the blueprint and config loaders.
pub fn op_json_load(job: &J) -> Result<J, String> {
    let text = job["text"].as_str().ok_or("text")?;
    let kind = job["kind"].as_str().unwrap_or("blueprint");
    use aiken_project::blueprint::{
        parameter::Parameter,
        schema::{Annotated, Schema},
        validator::Validator,
    };
    use uplc::ast::SerializableProgram;
    let resaved: std::cell::RefCell<Option<J>> = std::cell::RefCell::new(None);
    let r: Result<Result<(), String>, String> = guarded(|| match kind {
        "blueprint" => {
            let b = serde_json::from_str::<Blueprint>(text).map_err(|e| e.to_string())?;
            // whatever loads must save again
            let _ = serde_json::to_string(&b).map_err(|e| e.to_string())?;
            Ok(())
        }
        "validator" => serde_json::from_str::<Validator<SerializableProgram>>(text)
            .map(|_| ())
            .map_err(|e| e.to_string()),
        "schema" => serde_json::from_str::<Annotated<Schema>>(text)
            .map(|_| ())
            .map_err(|e| e.to_string()),
        "parameter" => serde_json::from_str::<Parameter>(text)
            .map(|_| ())
            .map_err(|e| e.to_string()),
        "program" => serde_json::from_str::<SerializableProgram>(text)
            .map(|p| {
                // what the toolchain writes back for an entry it accepted (C08: bytes and hash read
                // from a blueprint must be reproduced, or the entry refused)
                if let Ok(v) = serde_json::to_value(&p) {
                    resaved.replace(Some(v));
                }
            })
            .map_err(|e| e.to_string()),
        "config" => toml::from_str::<ProjectConfig>(text)
            .map(|_| ())
            .map_err(|e| {
                let mut m = e.to_string();
                crate::util::trunc(&mut m, 120);
                m
            }),
        o => Err(format!("bad kind {o}")),
    });
    Ok(match r {
        Err(p) => json!({"panic": p}),
        Ok(Ok(())) => match resaved.into_inner() {
            Some(v) => json!({"loaded": true, "resaved": v}),
            None => json!({"loaded": true}),
        },
        Ok(Err(e)) => {
            let mut e = e;
            crate::util::trunc(&mut e, 160);
            json!({"loaded": false, "err": e})
        }
    })
}
