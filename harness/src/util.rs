use pallas_primitives::conway::Language;
use std::cell::RefCell;
use std::panic::{AssertUnwindSafe, catch_unwind};

thread_local! {
    static LAST_PANIC: RefCell<Option<String>> = const { RefCell::new(None) };
}

/// Install a panic hook that records "message @ file:line" for the monitors
/// instead of printing a backtrace for every caught panic.
pub fn quiet_panics() {
    std::panic::set_hook(Box::new(|info| {
        let loc = info
            .location()
            .map(|l| format!("{}:{}", l.file(), l.line()))
            .unwrap_or_default();
        let msg = if let Some(s) = info.payload().downcast_ref::<&str>() {
            s.to_string()
        } else if let Some(s) = info.payload().downcast_ref::<String>() {
            s.clone()
        } else {
            "<non-string panic>".to_string()
        };
        let mut m = format!("{msg} @ {loc}");
        if m.len() > 600 {
            let mut cut = 600;
            while !m.is_char_boundary(cut) {
                cut -= 1;
            }
            m.truncate(cut);
        }
        LAST_PANIC.with(|p| *p.borrow_mut() = Some(m));
    }));
}

/// Run `f`, converting a panic into Err("message @ location").
pub fn guarded<T>(f: impl FnOnce() -> T) -> Result<T, String> {
    LAST_PANIC.with(|p| *p.borrow_mut() = None);
    match catch_unwind(AssertUnwindSafe(f)) {
        Ok(v) => Ok(v),
        Err(_) => Err(LAST_PANIC
            .with(|p| p.borrow_mut().take())
            .unwrap_or_else(|| "<panic>".to_string())),
    }
}

pub fn lang_of(s: &str) -> Result<Language, String> {
    match s {
        "v1" => Ok(Language::PlutusV1),
        "v2" => Ok(Language::PlutusV2),
        "v3" => Ok(Language::PlutusV3),
        o => Err(format!("bad language {o}")),
    }
}

/// `Foo(..)`/`Foo { .. }`/`Foo` -> `Foo`
pub fn variant_name(debug: &str) -> String {
    debug
        .split(|c: char| c == '(' || c == ' ' || c == '{')
        .next()
        .unwrap_or("")
        .to_string()
}

/// Truncate on a char boundary (String::truncate panics inside a multi-byte character).
pub fn trunc(s: &mut String, max: usize) {
    if s.len() > max {
        let mut cut = max;
        while !s.is_char_boundary(cut) {
            cut -= 1;
        }
        s.truncate(cut);
    }
}

/// Parse one job line without serde_json's default nesting limit (terms nested a few
/// thousand levels deep are legitimate workloads; drivers run on a large stack).
pub fn parse_job(line: &str) -> Result<serde_json::Value, String> {
    use serde::Deserialize;
    let mut de = serde_json::Deserializer::from_str(line);
    de.disable_recursion_limit();
    serde_json::Value::deserialize(&mut de).map_err(|e| e.to_string())
}
