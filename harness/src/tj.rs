//! JSON tree (de)serialisation of UPLC terms, constants and PlutusData.
//!
//! Format (shared with the Python oracles in /verif/oracles/uplc_ref):
//!   term  := ["var", idx] | ["lam", term] | ["app", term, term] | ["delay", term]
//!          | ["force", term] | ["con", type, value] | ["builtin", name] | ["error"]
//!          | ["constr", tag, [term..]] | ["case", term, [term..]]
//!   type  := "integer" | "bytestring" | "string" | "unit" | "bool" | "data"
//!          | "g1" | "g2" | "ml" | ["list", type] | ["pair", type, type]
//!   value := integer: decimal string; bytestring: hex; string: JSON string;
//!            unit: null; bool: true/false; list: [value..]; pair: [value, value];
//!            data: data; g1/g2: hex of the compressed point; ml: opaque hex
//!   data  := {"c": "<constructor index>", "f": [data..]} | {"m": [[data, data]..]}
//!          | {"l": [data..]} | {"i": "<decimal>"} | {"b": hex}
//!     optional encoding details (ignored by value-level oracles, honoured on input):
//!       "indef": bool on c/l/m, "enc": "int" | "big" on i.
use num_bigint::{BigInt, Sign};
use pallas_primitives::alonzo::{self as pa, Constr, PlutusData};
use pallas_primitives::{BoundedBytes, KeyValuePairs, MaybeIndefArray};
use serde_json::{Value as J, json};
use std::rc::Rc;
use std::str::FromStr;
use uplc::ast::{Constant, DeBruijn, Name, NamedDeBruijn, Program, Term, Type};
use uplc::builtins::DefaultFunction;
use uplc::machine::runtime::Compressable;

pub type R<T> = Result<T, String>;

fn err<T>(m: impl Into<String>) -> R<T> {
    Err(m.into())
}

// ---------------------------------------------------------------- output

pub fn type_to_json(t: &Type) -> J {
    match t {
        Type::Bool => json!("bool"),
        Type::Integer => json!("integer"),
        Type::String => json!("string"),
        Type::ByteString => json!("bytestring"),
        Type::Unit => json!("unit"),
        Type::Data => json!("data"),
        Type::Bls12_381G1Element => json!("g1"),
        Type::Bls12_381G2Element => json!("g2"),
        Type::Bls12_381MlResult => json!("ml"),
        Type::List(t) => json!(["list", type_to_json(t)]),
        Type::Pair(a, b) => json!(["pair", type_to_json(a), type_to_json(b)]),
    }
}

pub fn constant_type(c: &Constant) -> Type {
    Type::from(c)
}

pub fn bigint_of_pallas(i: &pa::BigInt) -> BigInt {
    match i {
        pa::BigInt::Int(i) => BigInt::from(i128::from(*i)),
        pa::BigInt::BigUInt(bs) => BigInt::from_bytes_be(Sign::Plus, bs.as_slice()),
        pa::BigInt::BigNInt(bs) => {
            let m: BigInt = BigInt::from_bytes_be(Sign::Plus, bs.as_slice());
            -(m + BigInt::from(1))
        }
    }
}

thread_local! {
    static PLAIN: std::cell::Cell<bool> = const { std::cell::Cell::new(false) };
}

/// Render Data by value only (no "indef"/"enc"/"raw" encoding details) inside `f`.
pub fn with_plain<T>(f: impl FnOnce() -> T) -> T {
    let old = PLAIN.with(|p| p.replace(true));
    let r = f();
    PLAIN.with(|p| p.set(old));
    r
}

pub fn data_to_json(d: &PlutusData) -> J {
    let j = data_to_json_full(d);
    if PLAIN.with(|p| p.get()) { strip_encoding(j) } else { j }
}

fn strip_encoding(j: J) -> J {
    match j {
        J::Object(mut o) => {
            o.remove("indef");
            o.remove("enc");
            o.remove("raw");
            J::Object(o.into_iter().map(|(k, v)| (k, strip_encoding(v))).collect())
        }
        J::Array(a) => J::Array(a.into_iter().map(strip_encoding).collect()),
        o => o,
    }
}

fn data_to_json_full(d: &PlutusData) -> J {
    match d {
        PlutusData::Constr(c) => {
            let ix: Option<u64> = match c.tag {
                121..=127 => Some(c.tag - 121),
                1280..=1400 => Some(c.tag - 1280 + 7),
                102 => c.any_constructor,
                _ => None,
            };
            let (indef, fields) = match &c.fields {
                MaybeIndefArray::Def(v) => (false, v),
                MaybeIndefArray::Indef(v) => (true, v),
            };
            json!({
                "c": ix.map(|i| i.to_string()),
                "f": fields.iter().map(data_to_json).collect::<Vec<_>>(),
                "indef": indef,
                "raw": [c.tag, c.any_constructor],
            })
        }
        PlutusData::Map(kvs) => {
            let (indef, v): (bool, &Vec<(PlutusData, PlutusData)>) = match kvs {
                KeyValuePairs::Def(v) => (false, v),
                KeyValuePairs::Indef(v) => (true, v),
            };
            json!({
                "m": v.iter().map(|(k, v)| json!([data_to_json(k), data_to_json(v)])).collect::<Vec<_>>(),
                "indef": indef,
            })
        }
        PlutusData::Array(a) => {
            let (indef, v) = match a {
                MaybeIndefArray::Def(v) => (false, v),
                MaybeIndefArray::Indef(v) => (true, v),
            };
            json!({"l": v.iter().map(data_to_json).collect::<Vec<_>>(), "indef": indef})
        }
        PlutusData::BigInt(i) => {
            let enc = match i {
                pa::BigInt::Int(_) => "int",
                pa::BigInt::BigUInt(_) => "big",
                pa::BigInt::BigNInt(_) => "big",
            };
            json!({"i": bigint_of_pallas(i).to_string(), "enc": enc})
        }
        PlutusData::BoundedBytes(b) => json!({"b": hex::encode(b.as_slice())}),
    }
}

pub fn constant_value_to_json(c: &Constant) -> J {
    match c {
        Constant::Integer(i) => json!(i.to_string()),
        Constant::ByteString(b) => json!(hex::encode(b)),
        Constant::String(s) => json!(s),
        Constant::Unit => J::Null,
        Constant::Bool(b) => json!(b),
        Constant::ProtoList(_, xs) => J::Array(xs.iter().map(constant_value_to_json).collect()),
        Constant::ProtoPair(_, _, a, b) => {
            json!([constant_value_to_json(a), constant_value_to_json(b)])
        }
        Constant::Data(d) => data_to_json(d),
        Constant::Bls12_381G1Element(p) => json!(hex::encode(p.compress())),
        Constant::Bls12_381G2Element(p) => json!(hex::encode(p.compress())),
        Constant::Bls12_381MlResult(r) => json!(format!("{:?}", r)),
    }
}

pub fn constant_to_json(c: &Constant) -> J {
    json!(["con", type_to_json(&constant_type(c)), constant_value_to_json(c)])
}

pub trait Ix {
    fn ix(&self) -> u64;
}
impl Ix for DeBruijn {
    fn ix(&self) -> u64 {
        self.inner() as u64
    }
}
impl Ix for NamedDeBruijn {
    fn ix(&self) -> u64 {
        self.index.inner() as u64
    }
}

pub fn term_to_json<T: Ix>(t: &Term<T>) -> J {
    // iterative would be safer for deep terms; recursion depth is bounded by the
    // generators (<= a few thousand) and drivers run on a big stack.
    match t {
        Term::Var(n) => json!(["var", n.ix()]),
        Term::Delay(b) => json!(["delay", term_to_json(b)]),
        Term::Lambda { body, .. } => json!(["lam", term_to_json(body)]),
        Term::Apply { function, argument } => {
            json!(["app", term_to_json(function), term_to_json(argument)])
        }
        Term::Constant(c) => constant_to_json(c),
        Term::Force(b) => json!(["force", term_to_json(b)]),
        Term::Error => json!(["error"]),
        Term::Builtin(f) => json!(["builtin", f.aiken_name_compat()]),
        Term::Constr { tag, fields } => {
            json!(["constr", *tag as u64, fields.iter().map(term_to_json).collect::<Vec<_>>()])
        }
        Term::Case { constr, branches } => {
            json!(["case", term_to_json(constr), branches.iter().map(term_to_json).collect::<Vec<_>>()])
        }
    }
}

/// Stable, harness-owned builtin naming: the Rust variant name with a lower-case
/// first letter (e.g. `VerifyEd25519Signature` -> `verifyEd25519Signature`).
/// Deliberately independent of the repository's Display/FromStr tables (C15).
pub trait BuiltinName {
    fn aiken_name_compat(&self) -> String;
}
impl BuiltinName for DefaultFunction {
    fn aiken_name_compat(&self) -> String {
        let s = format!("{:?}", self);
        let mut cs = s.chars();
        match cs.next() {
            Some(f) => f.to_lowercase().collect::<String>() + cs.as_str(),
            None => s,
        }
    }
}

pub fn builtin_from_name(name: &str) -> Option<DefaultFunction> {
    use strum::IntoEnumIterator;
    // tolerant of the specification's spelling (`bls12_381_G1_add` vs `bls12_381_G1_Add`)
    let norm = |s: &str| s.chars().filter(|c| *c != '_').flat_map(|c| c.to_lowercase()).collect::<String>();
    let want = norm(name);
    DefaultFunction::iter()
        .find(|f| f.aiken_name_compat() == name)
        .or_else(|| DefaultFunction::iter().find(|f| norm(&f.aiken_name_compat()) == want))
}

// ---------------------------------------------------------------- input

pub fn type_from_json(j: &J) -> R<Type> {
    match j {
        J::String(s) => Ok(match s.as_str() {
            "bool" => Type::Bool,
            "integer" => Type::Integer,
            "string" => Type::String,
            "bytestring" => Type::ByteString,
            "unit" => Type::Unit,
            "data" => Type::Data,
            "g1" => Type::Bls12_381G1Element,
            "g2" => Type::Bls12_381G2Element,
            "ml" => Type::Bls12_381MlResult,
            o => return err(format!("bad type {o}")),
        }),
        J::Array(a) if a.len() == 2 && a[0] == "list" => {
            Ok(Type::List(Rc::new(type_from_json(&a[1])?)))
        }
        J::Array(a) if a.len() == 3 && a[0] == "pair" => Ok(Type::Pair(
            Rc::new(type_from_json(&a[1])?),
            Rc::new(type_from_json(&a[2])?),
        )),
        o => err(format!("bad type {o}")),
    }
}

pub fn pallas_bigint(n: &BigInt, force_big: bool) -> pa::BigInt {
    if !force_big {
        if let Ok(i) = i64::try_from(n.clone()) {
            return pa::BigInt::Int(pallas_codec::utils::Int::from(i));
        }
        // range of CBOR int: [-2^64, 2^64-1]
        if let Ok(i) = i128::try_from(n.clone()) {
            if let Ok(x) = pallas_codec::minicbor::data::Int::try_from(i) {
                return pa::BigInt::Int(pallas_codec::utils::Int(x));
            }
        }
    }
    if n.sign() == Sign::Minus {
        let m: BigInt = -n.clone() - 1;
        pa::BigInt::BigNInt(BoundedBytes::from(m.to_bytes_be().1))
    } else {
        pa::BigInt::BigUInt(BoundedBytes::from(n.to_bytes_be().1))
    }
}

fn parse_int(j: &J) -> R<BigInt> {
    match j {
        J::String(s) => BigInt::from_str(s).map_err(|e| format!("bad int {s}: {e}")),
        J::Number(n) => BigInt::from_str(&n.to_string()).map_err(|e| format!("bad int {n}: {e}")),
        o => err(format!("bad int {o}")),
    }
}

pub fn data_from_json(j: &J) -> R<PlutusData> {
    let o = j.as_object().ok_or_else(|| format!("bad data {j}"))?;
    let indef = o.get("indef").and_then(|b| b.as_bool());
    if let Some(fs) = o.get("f") {
        let fields = fs
            .as_array()
            .ok_or("bad fields")?
            .iter()
            .map(data_from_json)
            .collect::<R<Vec<_>>>()?;
        let fields = match indef {
            Some(false) => MaybeIndefArray::Def(fields),
            Some(true) => MaybeIndefArray::Indef(fields),
            None => {
                if fields.is_empty() {
                    MaybeIndefArray::Def(fields)
                } else {
                    MaybeIndefArray::Indef(fields)
                }
            }
        };
        if let Some(raw) = o.get("raw").and_then(|r| r.as_array()) {
            if o.get("useraw").and_then(|b| b.as_bool()) == Some(true) {
                return Ok(PlutusData::Constr(Constr {
                    tag: raw[0].as_u64().ok_or("raw tag")?,
                    any_constructor: raw[1].as_u64(),
                    fields,
                }));
            }
        }
        let ix = parse_int(o.get("c").ok_or("no c")?)?;
        let ix = u64::try_from(ix).map_err(|_| "constructor index out of u64")?;
        let (tag, any) = if ix < 7 {
            (121 + ix, None)
        } else if ix < 128 {
            (1280 + ix - 7, None)
        } else {
            (102, Some(ix))
        };
        return Ok(PlutusData::Constr(Constr {
            tag,
            any_constructor: any,
            fields,
        }));
    }
    if let Some(m) = o.get("m") {
        let kvs = m
            .as_array()
            .ok_or("bad map")?
            .iter()
            .map(|kv| {
                let kv = kv.as_array().ok_or("bad kv")?;
                Ok((data_from_json(&kv[0])?, data_from_json(&kv[1])?))
            })
            .collect::<R<Vec<_>>>()?;
        return Ok(PlutusData::Map(match indef {
            Some(true) => KeyValuePairs::Indef(kvs),
            _ => KeyValuePairs::Def(kvs),
        }));
    }
    if let Some(l) = o.get("l") {
        let xs = l
            .as_array()
            .ok_or("bad list")?
            .iter()
            .map(data_from_json)
            .collect::<R<Vec<_>>>()?;
        return Ok(PlutusData::Array(match indef {
            Some(false) => MaybeIndefArray::Def(xs),
            Some(true) => MaybeIndefArray::Indef(xs),
            None => {
                if xs.is_empty() {
                    MaybeIndefArray::Def(xs)
                } else {
                    MaybeIndefArray::Indef(xs)
                }
            }
        }));
    }
    if let Some(i) = o.get("i") {
        let n = parse_int(i)?;
        let big = o.get("enc").and_then(|e| e.as_str()) == Some("big");
        return Ok(PlutusData::BigInt(pallas_bigint(&n, big)));
    }
    if let Some(b) = o.get("b") {
        let bs = hex::decode(b.as_str().ok_or("bad bytes")?).map_err(|e| e.to_string())?;
        return Ok(PlutusData::BoundedBytes(BoundedBytes::from(bs)));
    }
    err(format!("bad data {j}"))
}

pub fn constant_from_json(t: &Type, v: &J) -> R<Constant> {
    Ok(match t {
        Type::Integer => Constant::Integer(parse_int(v)?),
        Type::ByteString => Constant::ByteString(
            hex::decode(v.as_str().ok_or("bad bytestring")?).map_err(|e| e.to_string())?,
        ),
        Type::String => Constant::String(v.as_str().ok_or("bad string")?.to_string()),
        Type::Unit => Constant::Unit,
        Type::Bool => Constant::Bool(v.as_bool().ok_or("bad bool")?),
        Type::Data => Constant::Data(data_from_json(v)?),
        Type::List(et) => Constant::ProtoList(
            et.as_ref().clone(),
            v.as_array()
                .ok_or("bad list")?
                .iter()
                .map(|x| constant_from_json(et, x))
                .collect::<R<Vec<_>>>()?,
        ),
        Type::Pair(a, b) => {
            let xs = v.as_array().ok_or("bad pair")?;
            Constant::ProtoPair(
                a.as_ref().clone(),
                b.as_ref().clone(),
                Rc::new(constant_from_json(a, &xs[0])?),
                Rc::new(constant_from_json(b, &xs[1])?),
            )
        }
        Type::Bls12_381G1Element => {
            let bs = hex::decode(v.as_str().ok_or("bad g1")?).map_err(|e| e.to_string())?;
            Constant::Bls12_381G1Element(Box::new(
                blst::blst_p1::uncompress(&bs).map_err(|e| format!("g1: {e:?}"))?,
            ))
        }
        Type::Bls12_381G2Element => {
            let bs = hex::decode(v.as_str().ok_or("bad g2")?).map_err(|e| e.to_string())?;
            Constant::Bls12_381G2Element(Box::new(
                blst::blst_p2::uncompress(&bs).map_err(|e| format!("g2: {e:?}"))?,
            ))
        }
        Type::Bls12_381MlResult => return err("ml result constants cannot be built"),
    })
}

pub trait MkBinder: Sized {
    fn mk_var(ix: u64) -> Self;
    fn mk_binder() -> Self;
}
impl MkBinder for DeBruijn {
    fn mk_var(ix: u64) -> Self {
        DeBruijn::new(ix as usize)
    }
    fn mk_binder() -> Self {
        DeBruijn::new(0)
    }
}
impl MkBinder for NamedDeBruijn {
    fn mk_var(ix: u64) -> Self {
        NamedDeBruijn {
            text: "i".to_string(),
            index: DeBruijn::new(ix as usize),
        }
    }
    fn mk_binder() -> Self {
        NamedDeBruijn {
            text: "i".to_string(),
            index: DeBruijn::new(0),
        }
    }
}

pub fn term_from_json<T: MkBinder>(j: &J) -> R<Term<T>> {
    let a = j.as_array().ok_or_else(|| format!("bad term {j}"))?;
    let tag = a.first().and_then(|t| t.as_str()).ok_or("bad term tag")?;
    Ok(match tag {
        "var" => Term::Var(Rc::new(T::mk_var(a[1].as_u64().ok_or("bad var")?))),
        "lam" => Term::Lambda {
            parameter_name: Rc::new(T::mk_binder()),
            body: Rc::new(term_from_json(&a[1])?),
        },
        "app" => Term::Apply {
            function: Rc::new(term_from_json(&a[1])?),
            argument: Rc::new(term_from_json(&a[2])?),
        },
        "delay" => Term::Delay(Rc::new(term_from_json(&a[1])?)),
        "force" => Term::Force(Rc::new(term_from_json(&a[1])?)),
        "con" => {
            let t = type_from_json(&a[1])?;
            Term::Constant(Rc::new(constant_from_json(&t, &a[2])?))
        }
        "builtin" => Term::Builtin(
            builtin_from_name(a[1].as_str().ok_or("bad builtin")?)
                .ok_or_else(|| format!("unknown builtin {}", a[1]))?,
        ),
        "error" => Term::Error,
        "constr" => Term::Constr {
            tag: a[1].as_u64().ok_or("bad constr tag")? as usize,
            fields: a[2]
                .as_array()
                .ok_or("bad fields")?
                .iter()
                .map(term_from_json)
                .collect::<R<Vec<_>>>()?,
        },
        "case" => Term::Case {
            constr: Rc::new(term_from_json(&a[1])?),
            branches: a[2]
                .as_array()
                .ok_or("bad branches")?
                .iter()
                .map(term_from_json)
                .collect::<R<Vec<_>>>()?,
        },
        o => return err(format!("bad term tag {o}")),
    })
}

pub fn version_from_json(j: Option<&J>) -> (usize, usize, usize) {
    match j.and_then(|v| v.as_array()) {
        Some(a) if a.len() == 3 => (
            a[0].as_u64().unwrap_or(1) as usize,
            a[1].as_u64().unwrap_or(1) as usize,
            a[2].as_u64().unwrap_or(0) as usize,
        ),
        _ => (1, 1, 0),
    }
}

pub fn program_from_json<T: MkBinder>(term: &J, version: Option<&J>) -> R<Program<T>> {
    Ok(Program {
        version: version_from_json(version),
        term: term_from_json(term)?,
    })
}

/// Named program -> JSON via the repository's own conversion (used only where
/// the conversion itself is not the thing under test).
pub fn named_program_to_json(p: &Program<Name>) -> R<J> {
    let d: Program<DeBruijn> = p.clone().try_into().map_err(|e| format!("{e:?}"))?;
    Ok(term_to_json(&d.term))
}
