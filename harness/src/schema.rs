//! C12 driver op: blueprint schema of a type + Parameter::validate on Data values.
use crate::aik::{self, AddError, MemProject};
use crate::tj;
use crate::util::{guarded, variant_name};
use aiken_lang::ast::{Definition, ModuleKind};
use aiken_project::blueprint::{
    definitions::Definitions,
    parameter::Parameter,
    schema::{Annotated, Schema},
};
use aiken_project::module::CheckedModule;
use serde_json::{Value as J, json};
use std::collections::HashMap;
use uplc::ast::Constant;

pub fn checked_modules(project: &MemProject) -> HashMap<String, CheckedModule> {
    let mut out = HashMap::new();
    for ((name, typed), (_, kind, src, extra)) in project.modules.iter().zip(project.parsed.iter()) {
        out.insert(
            name.clone(),
            CheckedModule {
                name: name.clone(),
                code: src.clone(),
                input_path: std::path::PathBuf::new(),
                kind: *kind,
                package: project.package.clone(),
                ast: typed.clone(),
                extra: extra.clone(),
            },
        );
    }
    out
}

pub fn op_schema(job: &J) -> Result<J, String> {
    let mut project = MemProject::new();
    for m in job["modules"].as_array().cloned().unwrap_or_default() {
        let name = m["name"].as_str().unwrap_or("m").to_string();
        let kind = match m["kind"].as_str() {
            Some("lib") => ModuleKind::Lib,
            _ => ModuleKind::Validator,
        };
        match project.add(&name, kind, m["src"].as_str().unwrap_or(""), aik::tracing_of("verbose-all")?) {
            Ok(()) => {}
            Err(AddError::Parse(e)) => return Ok(json!({"rejected": "parse", "detail": e})),
            Err(AddError::Type(v, d)) => {
                let mut d = d;
                crate::util::trunc(&mut d, 800);
                return Ok(json!({"rejected": "type", "variant": v, "detail": d}));
            }
        }
    }
    let modules = checked_modules(&project);
    let mut probes_out = vec![];
    for probe in job["probes"].as_array().cloned().unwrap_or_default() {
        let module = probe["module"].as_str().unwrap_or("m");
        let fname = probe["fn"].as_str().unwrap_or("");
        let Some(f) = project.module(module).and_then(|m| {
            m.definitions().find_map(|d| match d {
                Definition::Fn(f) if f.name == fname => Some(f),
                _ => None,
            })
        }) else {
            probes_out.push(json!({"fn": fname, "harness_error": "no such fn"}));
            continue;
        };
        let Some(arg) = f.arguments.first() else {
            probes_out.push(json!({"fn": fname, "harness_error": "no argument"}));
            continue;
        };
        let mut defs: Definitions<Annotated<Schema>> = Definitions::new();
        let r = guarded(|| Annotated::from_type(&modules, &arg.tipo, &mut defs));
        let reference = match r {
            Err(p) => {
                probes_out.push(json!({"fn": fname, "schema_panic": p}));
                continue;
            }
            Ok(Err(e)) => {
                let mut d = format!("{e:?}");
                crate::util::trunc(&mut d, 300);
                probes_out.push(json!({"fn": fname, "schema_error": d}));
                continue;
            }
            Ok(Ok(r)) => r,
        };
        let param = Parameter::from(reference.clone());
        let mut verdicts = vec![];
        for v in probe["values"].as_array().cloned().unwrap_or_default() {
            let d = match tj::data_from_json(&v) {
                Ok(d) => d,
                Err(e) => {
                    verdicts.push(json!({"harness_error": e}));
                    continue;
                }
            };
            let c = Constant::Data(d);
            let r = guarded(|| param.validate(&defs, &c));
            verdicts.push(match r {
                Ok(Ok(())) => json!("ok"),
                Ok(Err(e)) => json!({"err": variant_name(&format!("{e:?}"))}),
                Err(p) => json!({"panic": p}),
            });
        }
        probes_out.push(json!({
            "fn": fname,
            "reference": serde_json::to_value(&reference).unwrap_or(J::Null),
            "definitions": serde_json::to_value(&defs).unwrap_or(J::Null),
            "verdicts": verdicts,
        }));
    }
    Ok(json!({"probes": probes_out}))
}
