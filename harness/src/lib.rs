pub mod aik;
pub mod bp;
pub mod conv;
pub mod rng;
pub mod schema;
pub mod surface;
pub mod tj;
pub mod util;
