//! C13/C20 driver op: format an Aiken module and report everything the
//! round-trip oracle needs (no judgement here).
use aiken_lang::ast::{ModuleKind, UntypedDefinition, UntypedModule};
use aiken_lang::parser::extra::ModuleExtra;
use serde_json::{Value as J, json};
use std::collections::BTreeMap;

/// Position-free rendering of a module: the `{:#?}` tree with every span
/// (`a..b`), byte offset (`end_position:`) and layout flag (`one_liner:`)
/// erased, and import definitions replaced by a normalised multiset (the
/// formatter merges and sorts imports, which is semantics-neutral).
pub fn erase(module: &UntypedModule) -> (Vec<String>, Vec<String>) {
    let mut imports: BTreeMap<String, Vec<String>> = BTreeMap::new();
    let mut rest = vec![];
    for def in &module.definitions {
        match def {
            UntypedDefinition::Use(u) => {
                let key = format!("{}|{:?}", u.module.join("/"), u.as_name);
                let e = imports.entry(key).or_default();
                for q in &u.unqualified.1 {
                    e.push(format!("{} as {:?}", q.name, q.as_name));
                }
            }
            other => {
                let dbg = format!("{other:#?}");
                for line in dbg.lines() {
                    let t = line.trim_start();
                    if t.starts_with("end_position:") || t.starts_with("one_liner:") {
                        continue;
                    }
                    rest.push(erase_spans(line));
                }
            }
        }
    }
    let mut imps = vec![];
    for (k, mut v) in imports {
        v.sort();
        v.dedup();
        imps.push(format!("{k} {{{}}}", v.join(", ")));
    }
    (imps, rest)
}

/// Replace every `<digits>..<digits>` token by `_`.
fn erase_spans(line: &str) -> String {
    let b = line.as_bytes();
    let mut out = String::with_capacity(line.len());
    let mut i = 0;
    while i < b.len() {
        if b[i].is_ascii_digit() && (i == 0 || !(b[i - 1].is_ascii_alphanumeric() || b[i - 1] == b'_' || b[i - 1] == b'.' || b[i-1] == b'"')) {
            let mut j = i;
            while j < b.len() && b[j].is_ascii_digit() {
                j += 1;
            }
            if j + 2 < b.len() + 0 && j + 1 < b.len() && b[j] == b'.' && b[j + 1] == b'.' {
                let mut k = j + 2;
                let s = k;
                while k < b.len() && b[k].is_ascii_digit() {
                    k += 1;
                }
                if k > s {
                    out.push('_');
                    i = k;
                    continue;
                }
            }
            out.push_str(&line[i..j]);
            i = j;
            continue;
        }
        // copy one UTF-8 char
        let ch = line[i..].chars().next().unwrap();
        out.push(ch);
        i += ch.len_utf8();
    }
    out
}

fn comments(extra: &ModuleExtra, src: &str) -> Vec<String> {
    let mut all: Vec<(usize, String)> = vec![];
    for (kind, spans) in [("//", &extra.comments), ("///", &extra.doc_comments), ("////", &extra.module_comments)] {
        for s in spans.iter() {
            let text = src.get(s.start..s.end).unwrap_or("<bad span>");
            all.push((s.start, format!("{kind}{}", text.trim_end())));
        }
    }
    all.sort();
    all.into_iter().map(|(_, t)| t).collect()
}

pub fn op_fmt(job: &J) -> Result<J, String> {
    let src = job["src"].as_str().ok_or("src")?;
    let kind = ModuleKind::Lib;
    let (m1, e1) = match aiken_lang::parser::module(src, kind) {
        Ok(x) => x,
        Err(errs) => {
            return Ok(json!({"parse1": "err", "nerrs": errs.len()}));
        }
    };
    let (imps1, tree1) = erase(&m1);
    let c1 = comments(&e1, src);
    let mut out1 = String::new();
    aiken_lang::format::pretty(&mut out1, m1, e1, src);
    let mut out = json!({"parse1": "ok", "comments": c1.len(), "defs_lines": tree1.len()});
    if job["keep_text"].as_bool().unwrap_or(false) {
        out["fmt"] = json!(out1);
    }
    match aiken_lang::parser::module(&out1, kind) {
        Err(errs) => {
            let mut d = format!("{:?}", errs.first());
            crate::util::trunc(&mut d, 300);
            out["parse2"] = json!("err");
            out["parse2_detail"] = json!(d);
            out["fmt"] = json!(out1);
        }
        Ok((m2, e2)) => {
            out["parse2"] = json!("ok");
            let (imps2, tree2) = erase(&m2);
            let c2 = comments(&e2, &out1);
            if job["trees"].as_bool().unwrap_or(false) {
                out["tree1"] = json!(tree1);
                out["tree2"] = json!(tree2);
            }
            out["imports_eq"] = json!(imps1 == imps2);
            if imps1 != imps2 {
                out["imports"] = json!([imps1, imps2]);
            }
            let eq = tree1 == tree2;
            out["ast_eq"] = json!(eq);
            if !eq {
                let i = tree1.iter().zip(tree2.iter()).position(|(a, b)| a != b).unwrap_or(tree1.len().min(tree2.len()));
                let lo = i.saturating_sub(3);
                out["ast_diff"] = json!({
                    "at": i,
                    "before": tree1[lo..(i + 3).min(tree1.len())].to_vec(),
                    "after": tree2[lo..(i + 3).min(tree2.len())].to_vec(),
                });
                out["fmt"] = json!(out1);
            }
            out["comments_eq"] = json!(c1 == c2);
            if c1 != c2 {
                out["comments_diff"] = json!([c1, c2]);
                out["fmt"] = json!(out1);
            }
            let mut out2 = String::new();
            aiken_lang::format::pretty(&mut out2, m2, e2, &out1);
            out["idempotent"] = json!(out2 == out1);
            if out2 != out1 {
                out["fmt"] = json!(out1);
                out["fmt2"] = json!(out2);
            }
        }
    }
    Ok(out)
}
