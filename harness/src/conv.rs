//! C11 driver op: run every name/index conversion on a term and report results.
use crate::tj::{self, R};
use serde_json::{Value as J, json};
use std::rc::Rc;
use uplc::ast::{DeBruijn, FakeNamedDeBruijn, Name, NamedDeBruijn, Program, Term, Unique};
use uplc::machine::cost_model::ExBudget;
use uplc::optimize::interner::CodeGenInterner;

fn name_from_json(j: &J) -> R<Name> {
    let a = j.as_array().ok_or("bad name")?;
    Ok(Name {
        text: a[0].as_str().ok_or("name text")?.to_string(),
        unique: Unique::new(a[1].as_i64().ok_or("name unique")? as isize),
    })
}

fn name_to_json(n: &Name) -> J {
    let u: isize = n.unique.into();
    json!([n.text, u as i64])
}

pub fn named_term_from_json(j: &J) -> R<Term<Name>> {
    let a = j.as_array().ok_or_else(|| format!("bad term {j}"))?;
    let tag = a.first().and_then(|t| t.as_str()).ok_or("bad tag")?;
    Ok(match tag {
        "var" => Term::Var(Rc::new(name_from_json(&a[1])?)),
        "lam" => Term::Lambda {
            parameter_name: Rc::new(name_from_json(&a[1])?),
            body: Rc::new(named_term_from_json(&a[2])?),
        },
        "app" => Term::Apply {
            function: Rc::new(named_term_from_json(&a[1])?),
            argument: Rc::new(named_term_from_json(&a[2])?),
        },
        "delay" => Term::Delay(Rc::new(named_term_from_json(&a[1])?)),
        "force" => Term::Force(Rc::new(named_term_from_json(&a[1])?)),
        "con" => {
            let t = tj::type_from_json(&a[1])?;
            Term::Constant(Rc::new(tj::constant_from_json(&t, &a[2])?))
        }
        "builtin" => Term::Builtin(
            tj::builtin_from_name(a[1].as_str().ok_or("builtin")?).ok_or("unknown builtin")?,
        ),
        "error" => Term::Error,
        "constr" => Term::Constr {
            tag: a[1].as_u64().ok_or("tag")? as usize,
            fields: a[2]
                .as_array()
                .ok_or("fields")?
                .iter()
                .map(named_term_from_json)
                .collect::<R<Vec<_>>>()?,
        },
        "case" => Term::Case {
            constr: Rc::new(named_term_from_json(&a[1])?),
            branches: a[2]
                .as_array()
                .ok_or("branches")?
                .iter()
                .map(named_term_from_json)
                .collect::<R<Vec<_>>>()?,
        },
        o => return Err(format!("bad tag {o}")),
    })
}

pub fn named_term_to_json(t: &Term<Name>) -> J {
    use tj::BuiltinName;
    match t {
        Term::Var(n) => json!(["var", name_to_json(n)]),
        Term::Delay(b) => json!(["delay", named_term_to_json(b)]),
        Term::Lambda {
            parameter_name,
            body,
        } => json!(["lam", name_to_json(parameter_name), named_term_to_json(body)]),
        Term::Apply { function, argument } => {
            json!(["app", named_term_to_json(function), named_term_to_json(argument)])
        }
        Term::Constant(c) => tj::constant_to_json(c),
        Term::Force(b) => json!(["force", named_term_to_json(b)]),
        Term::Error => json!(["error"]),
        Term::Builtin(f) => json!(["builtin", f.aiken_name_compat()]),
        Term::Constr { tag, fields } => {
            json!(["constr", *tag as u64, fields.iter().map(named_term_to_json).collect::<Vec<_>>()])
        }
        Term::Case { constr, branches } => {
            json!(["case", named_term_to_json(constr), branches.iter().map(named_term_to_json).collect::<Vec<_>>()])
        }
    }
}

fn eval_json(p: Program<NamedDeBruijn>) -> J {
    let r = p.eval(ExBudget { cpu: 1_000_000_000, mem: 10_000_000 });
    match r.result {
        Ok(t) => json!({"ok": tj::term_to_json(&t)}),
        Err(e) => json!({"err": crate::util::variant_name(&format!("{e:?}"))}),
    }
}

pub fn op_convert(job: &J) -> R<J> {
    let version = tj::version_from_json(job.get("version"));
    let do_eval = job["eval"].as_bool().unwrap_or(false);
    let mut out = json!({});
    if let Some(named) = job.get("named") {
        let p = Program::<Name> {
            version,
            term: named_term_from_json(named)?,
        };
        let nd: Result<Program<NamedDeBruijn>, _> = p.clone().try_into();
        match &nd {
            Ok(nd) => {
                out["to_nd"] = tj::term_to_json(&nd.term);
                let back: Result<Program<Name>, _> = nd.clone().try_into();
                match back {
                    Ok(b) => {
                        out["nd_to_name"] = named_term_to_json(&b.term);
                        let again: Result<Program<NamedDeBruijn>, _> = b.try_into();
                        match again {
                            Ok(a) => {
                                out["nd_to_name_to_nd"] = tj::term_to_json(&a.term);
                                if do_eval {
                                    out["eval_roundtrip"] = eval_json(a);
                                }
                            }
                            Err(e) => out["nd_to_name_to_nd_err"] = json!(format!("{e:?}")),
                        }
                    }
                    Err(e) => out["nd_to_name_err"] = json!(format!("{e:?}")),
                }
                if do_eval {
                    out["eval"] = eval_json(nd.clone());
                }
            }
            Err(e) => out["to_nd_err"] = json!(crate::util::variant_name(&format!("{e:?}"))),
        }
        let d: Result<Program<DeBruijn>, _> = p.clone().try_into();
        match &d {
            Ok(d) => {
                out["to_d"] = tj::term_to_json(&d.term);
                let back: Result<Program<Name>, _> = d.clone().try_into();
                match back {
                    Ok(b) => out["d_to_name"] = named_term_to_json(&b.term),
                    Err(e) => out["d_to_name_err"] = json!(format!("{e:?}")),
                }
            }
            Err(e) => out["to_d_err"] = json!(crate::util::variant_name(&format!("{e:?}"))),
        }
        // CodeGenInterner renumbering
        let mut q = p.clone();
        let r = crate::util::guarded(|| {
            CodeGenInterner::new().program(&mut q);
        });
        match r {
            Ok(()) => {
                out["interned"] = named_term_to_json(&q.term);
                // what the code generator does next: convert the re-interned program
                let conv: Result<Program<NamedDeBruijn>, _> = q.clone().try_into();
                match conv {
                    Ok(nd) => out["interned_to_nd"] = tj::term_to_json(&nd.term),
                    Err(e) => out["interned_to_nd_err"] = json!(crate::util::variant_name(&format!("{e:?}"))),
                }
            }
            Err(pn) => out["interned_panic"] = json!(pn),
        }
    }
    if let Some(db) = job.get("debruijn") {
        let p: Program<DeBruijn> = Program {
            version,
            term: tj::term_from_json(db)?,
        };
        let n: Result<Program<Name>, _> = p.clone().try_into();
        match n {
            Ok(n) => {
                out["d_to_name"] = named_term_to_json(&n.term);
                let back: Result<Program<DeBruijn>, _> = n.try_into();
                match back {
                    Ok(b) => out["d_to_name_to_d"] = tj::term_to_json(&b.term),
                    Err(e) => out["d_to_name_to_d_err"] = json!(format!("{e:?}")),
                }
            }
            Err(e) => out["d_to_name_err"] = json!(crate::util::variant_name(&format!("{e:?}"))),
        }
        let nd: Program<NamedDeBruijn> = p.clone().into();
        let n2: Result<Program<Name>, _> = nd.clone().try_into();
        match n2 {
            Ok(n) => out["nd_to_name"] = named_term_to_json(&n.term),
            Err(e) => out["nd_to_name_err"] = json!(crate::util::variant_name(&format!("{e:?}"))),
        }
        let fk: Program<FakeNamedDeBruijn> = nd.clone().into();
        let nd2: Program<NamedDeBruijn> = fk.into();
        out["fake_rt"] = tj::term_to_json(&nd2.term);
        if do_eval {
            out["eval"] = eval_json(nd);
        }
    }
    Ok(out)
}
