#!/usr/bin/env python3
"""C07 - pattern matching: exhaustive when accepted, first-match when run.

Generates `when` / `let` / `expect` pattern sets, decides them with the brute-force
matcher (brute.py) over enumerated values and compares with the real compiler driven
through /verif/target/release/aiken-run (`infer[_many]` for the checker verdicts,
`compile_eval` for the run-time clause selection and bindings).

    python3 run_c07.py --tier quick|thorough --seed S [--only exh,rand,let] [--jobs N] [--json]
    run(tier, seed) -> dict(evaluations, distinct, samples, violations, inconclusive, counters, exhaustive, ...)

Slices
  exh   ALL clause lists (<= 3, for small universes <= 4 clauses) over the complete var-free pattern
        universe (depth <= 2; tuples/pairs <= 3) of 9 small types, plus ALL lists [p, q, _] over the
        80 list patterns (<= 3 elements, with/without `..`) of List<Option<Bool>>.  Patterns are then
        "decorated" (variables, `as`, labelled / spread constructor syntax) by a seeded rng: that
        changes the bindings observed at run time, not the matched sets.
  rand  deeper random types (library + random ADT declarations, nesting <= 3), <= 6 clauses,
        split-based partitions mutated towards almost-exhaustive / almost-redundant lists,
        alternatives, and a list-focused strategy.
  let   `let` / `expect` destructuring (value or abort).
Checks: see check_infer (accept <=> exhaustive and no dead clause; reported patterns) and
check_runtime (first matching clause + bindings on every enumerated value, both tracings).
Violation keys: C07:<check>:<kind>:<class>, where <class> for run-time disagreements is the syntactic
feature class of the clause list (see `feature`).  Environment: C07_STRICT_COVER=1 also demands that
the reported unmatched patterns cover every unmatched value (FINDINGS.md N1); C07_DEBUG=1 prints
inconclusive cases to stderr.  Triage tool: minimise.py.
"""
import os
import sys

_HERE = os.path.dirname(os.path.abspath(__file__))
# `types.py` in this directory must never shadow the standard library module: drop the
# script directory from sys.path and import everything through the `patterns` package.
sys.path[:] = [p for p in sys.path if os.path.abspath(p or os.getcwd()) != _HERE]
if os.path.dirname(_HERE) not in sys.path:
    sys.path.insert(0, os.path.dirname(_HERE))

import hashlib  # noqa: E402
import itertools  # noqa: E402
import json  # noqa: E402
import time  # noqa: E402

import common  # noqa: E402
from patterns import brute as B  # noqa: E402
from patterns import pats as P  # noqa: E402
from patterns import types as T  # noqa: E402

TRACINGS = ["silent-all", "verbose-all"]
ALLOWED_ABORT = {"EvaluationFailure", "EmptyList", "DeserialisationError"}

TIERS = {
    "quick": dict(univ_cap=26, max_len=3, len4_univ=8, list_max=2, extra_types=False, n_random=10000, n_let=2500, rt_batch=20, infer_batch=150, val_cap=1500, rt_value_cap=400),
    "thorough": dict(univ_cap=40, max_len=3, len4_univ=17, list_max=3, extra_types=True, n_random=150000, n_let=30000, rt_batch=20, infer_batch=150, val_cap=4000, rt_value_cap=1500),
    "smoke": dict(univ_cap=8, max_len=2, len4_univ=0, list_max=2, extra_types=False, pairs_slice=False, n_random=300, n_let=150, rt_batch=20, infer_batch=100, val_cap=800, rt_value_cap=200),
}

# ----------------------------------------------------------------- the exhaustive slice

EXH_TYPES = [
    ("Bool", T.BOOL, 2),
    ("Option<Bool>", T.Option(T.BOOL), 2),
    ("(Bool, Bool)", T.Tuple(T.BOOL, T.BOOL), 3),
    ("Option<Option<Bool>>", T.Option(T.Option(T.BOOL)), 3),
    ("Color", T.Adt(T.LIB["Color"]), 2),
    ("Sw", T.Adt(T.LIB["Sw"]), 2),
    ("List<Bool>", T.List(T.BOOL), 2),
    ("(Bool, Option<Bool>)", T.Tuple(T.BOOL, T.Option(T.BOOL)), 3),
    ("Pair<Bool, Bool>", T.Pair(T.BOOL, T.BOOL), 3),
]
# thorough tier only
EXH_EXTRA = [
    ("Tree<Bool>", T.Adt(T.LIB["Tree"], T.BOOL), 2),
    ("Either<Bool, Color>", T.Adt(T.LIB["Either"], T.BOOL, T.Adt(T.LIB["Color"])), 2),
    ("Chain", T.Adt(T.LIB["Chain"]), 2),
    ("Option<(Bool, Bool)>", T.Option(T.Tuple(T.BOOL, T.BOOL)), 3),
    ("List<Option<Bool>>", T.List(T.Option(T.BOOL)), 2),
    ("Rec", T.Adt(T.LIB["Rec"]), 2),
    ("Int", T.INT, 1),
    ("(Int, Bool)", T.Tuple(T.INT, T.BOOL), 2),
]


# "pairs + catch-all" sub-slice: ALL clause lists [p, q, _] over the complete depth-2 universe of
# list patterns with up to 3 elements (with / without `..`): clauses of different lengths that
# inspect different element positions (this is where the decision-tree generator keeps one
# matrix per list length)
EXH_PAIRS = [
    ("List<Option<Bool>> [p, q, _]", T.List(T.Option(T.BOOL)), 2, dict(list_max=3, cap=10**6, lens=(2,), suffix_wild=True, bind=(3, 4), spread=0, values="directed")),
]


def exh_types(cfg):
    return EXH_TYPES + (EXH_PAIRS if cfg.get("pairs_slice", True) else []) + (EXH_EXTRA if cfg.get("extra_types") else [])


def exh_entry(cfg, entry):
    """-> (name, type, depth, options) with the tier defaults filled in."""
    name, t, depth = entry[:3]
    opt = dict(list_max=cfg["list_max"], cap=cfg["univ_cap"], lens=None, suffix_wild=False, bind=(1, 2), spread=1, values="uniform")
    if len(entry) > 3:
        opt.update(entry[3])
    return name, t, depth, opt


def exh_universe(t, depth, cap, seed, list_max=2):
    """Clause universe of one small type: every var-free pattern of depth <= `depth`
    (capped by a seeded sample that always keeps the depth <= 1 patterns), plus a few
    alternative clauses `p | q`."""
    full = P.structural_universe(t, depth, list_max)
    uni = full
    reserve = 3
    if len(full) > cap - reserve:
        shallow = [p for p in full if P.depth(p) <= 1]
        deep = [p for p in full if P.depth(p) > 1]
        rng = common.Rng(seed, stream=0xE0 + len(full))
        deep = rng.shuffle(deep)[: max(0, cap - reserve - len(shallow))]
        keep = set(shallow) | set(deep)
        uni = [p for p in full if p in keep]
    clauses = [[p] for p in uni]
    # alternative clauses: pairs of distinct depth-1 patterns (deterministic choice)
    heads = [p for p in uni if P.depth(p) == 1]
    alts = []
    for a, b in itertools.combinations(heads, 2):
        alts.append([a, b])
    rng = common.Rng(seed, stream=0xA17)
    alts = rng.shuffle(alts)[:reserve]
    return clauses + alts, len(full)


def exh_specs(cfg, seed):
    specs = []
    meta = {}
    for ti, entry in enumerate(exh_types(cfg)):
        name, t, depth, opt = exh_entry(cfg, entry)
        uni, full = exh_universe(t, depth, opt["cap"], seed, opt["list_max"])
        n = len(uni)
        if opt["lens"]:
            lens = list(opt["lens"])
        else:
            lens = list(range(1, cfg["max_len"] + (1 if n <= cfg["len4_univ"] else 0) + 1))
        count = 0
        for ln in lens:
            for combo in itertools.product(range(n), repeat=ln):
                specs.append(("exh", ti, combo))
                count += 1
        meta[name] = dict(universe=n, structural_universe_uncapped=full, depth=depth, clauses=lens, suffix_wild=opt["suffix_wild"], clause_lists=count, complete=(len([c for c in uni if len(c) == 1]) == full))
    return specs, meta


# ----------------------------------------------------------------- random types / clause lists

LEAF_TYPES = [T.BOOL, T.BOOL, T.INT, T.BYTES, T.ORDERING, T.Adt(T.LIB["Color"]), T.Adt(T.LIB["Unit2"])]
PLAIN_ADTS = ["Sw", "Foo", "Rec", "Wrap", "Nat", "Chain", "Big", "Color"]
GENERIC_ADTS = ["Box", "Either", "These", "Tree"]

_rand_decl_cache = {}


def rand_decl(seed, k):
    key = (seed, k)
    if key not in _rand_decl_cache:
        _rand_decl_cache[key] = T.random_decl(common.Rng(seed, stream=0xD0000 + k), f"Rnd{k}")
    return _rand_decl_cache[key]


MULTI_COLUMN_ELEMS = None


def multi_column_list_type(rng):
    """A scrutinee with several columns one of which is a list: tuples / pairs of a list and
    small refutable types. The decision tree keeps one matrix per list length per column and
    seeds new matrices with the wildcard rows met so far: the clauses with `_` in the list
    column and a refutable pattern elsewhere are the ones a wrong seeding loses."""
    el = rng.pick([T.BOOL, T.INT, T.BOOL, T.Option(T.BOOL)])
    other = rng.pick([T.BOOL, T.BOOL, T.Option(T.BOOL), T.Adt(T.LIB["Color"]), T.INT, T.List(T.BOOL)])
    k = rng.below(6)
    if k == 0:
        return T.Tuple(other, T.List(el))
    if k == 1:
        return T.Pair(T.List(el), other)
    if k == 2:
        return T.Tuple(T.List(el), other, T.BOOL)
    return T.Tuple(T.List(el), other)


def multi_column_clauses(rng, t):
    cols = list(t.args)
    cl = []
    for _ in range(rng.range(2, 5)):
        subs = []
        for ct in cols:
            if ct.kind == "List":
                if rng.chance(1, 3):
                    subs.append(P.WILD)
                else:
                    n = rng.pick([0, 1, 1, 2, 2, 3])
                    elems = tuple(P.rand_pat(rng, ct.args[0], 1, leaf=(0, 1)) if rng.chance(1, 3) else P.WILD for _ in range(n))
                    subs.append(("l", elems, P.WILD if (n > 0 and rng.chance(1, 2)) else None))
            else:
                subs.append(P.WILD if rng.chance(1, 2) else P.rand_pat(rng, ct, 1, leaf=(0, 1)))
        cl.append([("p" if t.kind == "Pair" else "t", tuple(subs))])
    if rng.chance(4, 5):
        cl.append([P.WILD])
    return cl


def rand_type(rng, d, seed, top=False):
    if top and rng.chance(1, 5):
        return multi_column_list_type(rng)
    if top and d >= 2 and rng.chance(1, 4):
        # focus: lists of structured elements (several inspected positions inside one list
        # pattern stress the decision tree's per-length matrices and column bookkeeping)
        inner = T.List(rng.pick([T.BOOL, T.INT, T.BOOL]))
        el = rng.pick([inner, T.Option(T.BOOL), T.Option(T.INT), T.Adt(T.LIB["Sw"]), T.Adt(T.LIB["Color"]), T.Tuple(T.BOOL, T.BOOL), T.Option(inner), T.Adt(T.LIB["Either"], T.BOOL, T.BOOL), T.BOOL])
        return T.List(el)
    if d <= 1 or rng.chance(1, 5):
        return rng.pick(LEAF_TYPES)
    r = rng.below(20)
    if r < 3:
        return T.Option(rand_type(rng, d - 1, seed))
    if r < 5:
        return T.Tuple(rand_type(rng, d - 1, seed), rand_type(rng, d - 1, seed))
    if r < 6:
        return T.Tuple(rand_type(rng, d - 1, seed), rand_type(rng, d - 1, seed), rand_type(rng, d - 1, seed))
    if r < 8:
        return T.Pair(rand_type(rng, d - 1, seed), rand_type(rng, d - 1, seed))
    if r < 11:
        return T.List(rand_type(rng, d - 1, seed))
    if r < 14:
        return T.Adt(T.LIB[rng.pick(PLAIN_ADTS)])
    if r < 17:
        decl = T.LIB[rng.pick(GENERIC_ADTS)]
        return T.Adt(decl, *[rand_type(rng, d - 1, seed) for _ in range(decl.nparams)])
    decl = rand_decl(seed, rng.below(48))
    return T.Adt(decl, *[rand_type(rng, d - 1, seed) for _ in range(decl.nparams)])


def split_partition(rng, t, target):
    """A clause list that is exhaustive and irredundant BY CONSTRUCTION of the generator
    (never trusted: the brute-forcer decides) obtained by repeatedly splitting a wildcard."""
    clauses = [P.WILD]
    for _ in range(12):
        if len(clauses) >= target:
            break
        i = rng.below(len(clauses))
        ws = [(path, wt) for path, wt in P.wild_positions(clauses[i], t) if len(path) <= 3]
        if not ws:
            continue
        path, wt = rng.pick(ws)
        hp = P.head_patterns(wt, rng)
        if len(clauses) - 1 + len(hp) > max(target, 6):
            continue
        clauses[i : i + 1] = [P.replace_at(clauses[i], path, h) for h in hp]
    return clauses


def list_focus_clauses(rng, t):
    """Clause lists over a List<..> scrutinee in which several element positions of one list
    pattern are inspected and the clauses have different lengths (stresses the per-length
    matrices and the column bookkeeping of the decision-tree generator)."""
    el = t.args[0]
    cl = []
    for _ in range(rng.range(2, 4)):
        n = rng.range(1, 3)
        elems = tuple(P.rand_pat(rng, el, rng.range(1, 2), leaf=(0, 1)) if rng.chance(1, 2) else P.WILD for _ in range(n))
        cl.append([("l", elems, P.WILD if rng.chance(3, 5) else None)])
    if rng.chance(1, 4):
        cl.insert(rng.below(len(cl) + 1), [("l", (), None)])
    if rng.chance(3, 4):
        cl.append([P.WILD])
    return cl


def gen_random_clauses(rng, t):
    """-> [[alt patterns]] (var-free structural patterns; decorated later)."""
    if t.kind == "List" and rng.chance(2, 3):
        return list_focus_clauses(rng, t)
    if t.kind in ("Tuple", "Pair") and any(a.kind == "List" for a in t.args) and rng.chance(3, 4):
        return multi_column_clauses(rng, t)
    strat = rng.below(10)
    if strat < 3:
        n = rng.range(1, 6)
        cl = [[P.rand_pat(rng, t, rng.range(1, 3))] for _ in range(n)]
        if rng.chance(1, 2):
            cl.append([P.WILD])
        return cl[:6]
    cl = [[p] for p in split_partition(rng, t, rng.range(1, 6))]
    for _ in range(rng.pick([0, 1, 1, 1, 2, 2, 3])):
        op = rng.pick([0, 0, 0, 1, 1, 2, 3, 3, 3, 4, 5, 6, 7])
        i = rng.below(len(cl))
        if op == 0 and len(cl) > 1:  # almost exhaustive
            del cl[i]
        elif op == 1 and len(cl) < 6:  # almost redundant: a specialisation / copy placed later
            src = cl[i][0]
            new = P.specialise(rng, src, t) if rng.chance(2, 3) else src
            cl.insert(rng.range(i + 1, len(cl)), [new])
        elif op == 2:  # a generalisation placed earlier shadows later clauses
            cl[i] = [P.generalise(rng, cl[i][0], t)]
        elif op == 3:
            cl[i] = [P.specialise(rng, cl[i][0], t)]
        elif op == 4 and len(cl) > 1:
            j = rng.below(len(cl))
            cl[i], cl[j] = cl[j], cl[i]
        elif op == 5 and len(cl) > 1:  # merge into an alternative clause
            j = (i + 1) % len(cl)
            a, b = min(i, j), max(i, j)
            merged = cl[a] + cl[b]
            if len(merged) <= 3:
                cl[a] = merged
                del cl[b]
        elif op == 6 and len(cl) < 6:
            cl.append([P.WILD])
        elif op == 7 and len(cl) < 6:
            cl.insert(rng.below(len(cl) + 1), [P.rand_pat(rng, t, rng.range(1, 3), leaf=(0, 1))])
    return cl[:6]


def decorate_clause(rng, alts, t, bind=(1, 2), spread=1):
    if len(alts) == 1:
        return [P.decorate(alts[0], t, rng, bind=bind, spread=spread)]
    # alternatives must bind the same variables: var-free, or one shared variable
    names = P.Names()
    out = [P.restyle(a, t, rng, None) for a in alts]
    if len(out) == 2 and rng.chance(1, 2):
        a, b = P.share_var(rng, out[0], out[1], t, "shared")
        out = [a, b]
    return out


# ----------------------------------------------------------------- cases


class Case:
    __slots__ = ("cid", "slice", "kind", "t", "clauses", "src", "spans", "values", "an", "complete", "uniform_checked")


def build_source(case, fn_name="pick", with_decls=True):
    """Aiken source of the case; records the byte span of every alternative pattern."""
    t = case.t
    head = ""
    if with_decls:
        for d in T.user_decls(t).values():
            head += T.decl_src(d)
    out = [head, f"pub fn {fn_name}(x: {T.ty_src(t)}) -> Data {{\n"]
    spans = {}

    def pos():
        return sum(len(s) for s in out)

    def body(ci, vars_):
        names = sorted(vars_)
        lines = "".join(f"        let d_{n}: Data = {n}\n" for n in names)
        return "{\n" + lines + f"        ({ci}, [" + ", ".join(f"d_{n}" for n in names) + "])\n      }"

    if case.kind == "when":
        out.append("  let r: Data =\n    when x is {\n")
        for ci, alts in enumerate(case.clauses):
            out.append("      ")
            for ai, p in enumerate(alts):
                if ai:
                    out.append(" | ")
                s = P.show(p, t)
                st = pos()
                out.append(s)
                spans[(ci, ai)] = (st, st + len(s))
            out.append(" -> " + body(ci, P.pat_vars(alts[0], t)) + "\n")
        out.append("    }\n  r\n}\n")
    else:
        p = case.clauses[0][0]
        out.append(f"  {case.kind} ")
        s = P.show(p, t)
        st = pos()
        out.append(s)
        spans[(0, 0)] = (st, st + len(s))
        out.append(" = x\n")
        names = sorted(P.pat_vars(p, t))
        for n in names:
            out.append(f"  let d_{n}: Data = {n}\n")
        out.append("  let r: Data = (0, [" + ", ".join(f"d_{n}" for n in names) + "])\n  r\n}\n")
    src = "".join(out)
    return src, spans, len(head)


def make_case(spec, cfg, seed, universes):
    c = Case()
    c.cid = spec
    c.slice = spec[0]
    c.uniform_checked = False
    if spec[0] == "exh":
        _, ti, combo = spec
        name, t, depth, opt = exh_entry(cfg, exh_types(cfg)[ti])
        uni = universes[ti]
        rng = common.Rng(seed, stream=hash_int(("exh", ti, combo)))
        c.kind = "when"
        c.t = t
        structural = [uni[i] for i in combo]
        if opt["suffix_wild"]:
            structural.append([P.WILD])
        c.clauses = [decorate_clause(rng, alts, t, bind=opt["bind"], spread=opt["spread"]) for alts in structural]
        uv = B.uniform_values(t, c.clauses)
        dv = None
        try:
            dv = B.directed_values(t, c.clauses, cap=cfg["val_cap"])
        except T.TooBig:
            pass
        vals = dv if (opt["values"] == "directed" and dv is not None) else uv
        c.values = vals
        c.complete = True
        c.an = B.analyse(t, c.clauses, vals)
        # oracle self-check: the two enumerations must give the same verdicts
        if dv is not None:
            a2 = B.analyse(t, c.clauses, uv if vals is dv else dv)
            c.uniform_checked = True if B.verdict(a2) == B.verdict(c.an) else None
    elif spec[0] == "rand":
        rng = common.Rng(seed, stream=hash_int(spec))
        for attempt in range(20):
            t = rand_type(rng, rng.pick([1, 2, 2, 3, 3]), seed, top=True)
            structural = gen_random_clauses(rng, t)
            clauses = [decorate_clause(rng, alts, t) for alts in structural]
            vals = None
            for reps in (2, 1):
                try:
                    vals = B.directed_values(t, clauses, cap=cfg["val_cap"], reps=reps)
                    break
                except T.TooBig:
                    continue
            if vals is not None:
                break
        else:
            return None
        c.kind = "when"
        c.t = t
        c.clauses = clauses
        c.values = vals
        c.complete = True
        c.an = B.analyse(t, clauses, vals)
        # cross-check against the uniform enumeration when that is affordable
        try:
            uv = B.uniform_values(t, clauses, cap=600)
            a2 = B.analyse(t, clauses, uv)
            c.uniform_checked = True if B.verdict(a2) == B.verdict(c.an) else None
        except T.TooBig:
            pass
    else:  # let / expect
        rng = common.Rng(seed, stream=hash_int(spec))
        kind = "let" if spec[1] % 2 == 0 else "expect"
        for attempt in range(20):
            r = rng.below(10)
            if r < 3:
                t = EXH_TYPES[rng.below(len(EXH_TYPES))][1]
            elif r < 6:
                t = rng.pick([T.Adt(T.LIB["Rec"]), T.Adt(T.LIB["Wrap"]), T.Adt(T.LIB["Box"], T.BOOL), T.Adt(T.LIB["Box"], T.Option(T.BOOL)), T.Tuple(T.BOOL, T.INT), T.Tuple(T.Adt(T.LIB["Rec"]), T.BOOL, T.Option(T.INT)), T.Pair(T.INT, T.Adt(T.LIB["Box"], T.BOOL)), T.Adt(T.LIB["Foo"]), T.Adt(T.LIB["Unit2"]), T.List(T.INT)])
            else:
                t = rand_type(rng, rng.pick([1, 2, 2, 3]), seed)
            # irrefutable-looking patterns for `let` half of the time
            if rng.chance(1, 2):
                p = P.WILD
                for _ in range(rng.range(0, 3)):
                    ws = [(path, wt) for path, wt in P.wild_positions(p, t) if len(path) <= 2]
                    if not ws:
                        break
                    path, wt = rng.pick(ws)
                    hp = P.head_patterns(wt, rng)
                    p = P.replace_at(p, path, rng.pick(hp))
            else:
                p = P.rand_pat(rng, t, rng.range(1, 3), leaf=(1, 6))
            p = P.decorate(p, t, rng, bind=(3, 4))
            try:
                vals = B.directed_values(t, [[p]], cap=cfg["val_cap"])
                break
            except T.TooBig:
                continue
        else:
            return None
        c.kind = kind
        c.t = t
        c.clauses = [[p]]
        c.values = vals
        c.complete = True
        c.an = B.analyse(t, c.clauses, vals)
    c.src, c.spans, _ = build_source(c)
    return c


def hash_int(obj):
    return int.from_bytes(hashlib.sha256(repr(obj).encode()).digest()[:8], "little")


def case_hash(c):
    return hashlib.sha256((c.kind + "\0" + c.src).encode()).hexdigest()[:20]


# ----------------------------------------------------------------- result bookkeeping


class Acc:
    def __init__(self):
        self.evaluations = 0
        self.distinct = set()
        self.samples = []
        self.violations = []
        self.vcount = {}
        self.inconclusive = {}
        self.counters = {}

    def count(self, k, n=1):
        self.counters[k] = self.counters.get(k, 0) + n

    def inconc(self, k, n=1):
        self.inconclusive[k] = self.inconclusive.get(k, 0) + n

    def violation(self, key, witness):
        self.vcount[key] = self.vcount.get(key, 0) + 1
        if self.vcount[key] <= 5 and len(self.violations) < 200:
            self.violations.append((key, witness))

    def merge(self, o):
        self.evaluations += o.evaluations
        self.distinct |= o.distinct
        for s in o.samples:
            same = sum(1 for x in self.samples if x["slice"] == s["slice"] and (x["verdict"] == "accepted") == (s["verdict"] == "accepted"))
            if len(self.samples) < 9 and same < (2 if s["verdict"] == "accepted" else 1):
                self.samples.append(s)
        for k, w in o.violations:
            have = sum(1 for k2, _ in self.violations if k2 == k)
            if have < 5 and len(self.violations) < 200:
                self.violations.append((k, w))
        for k, n in o.vcount.items():
            self.vcount[k] = self.vcount.get(k, 0) + n
        for k, n in o.inconclusive.items():
            self.inconclusive[k] = self.inconclusive.get(k, 0) + n
        for k, n in o.counters.items():
            self.counters[k] = self.counters.get(k, 0) + n


_lit_cache = {}


def has_literal_type(t, _stack=()):
    """Does a value of type `t` contain an Int / ByteArray anywhere?"""
    if not _stack and t in _lit_cache:
        return _lit_cache[t]
    if t.kind in ("Int", "ByteArray"):
        r = True
    elif t.kind == "Adt":
        r = False
        if t not in _stack:
            r = any(has_literal_type(ft, _stack + (t,)) for _, fts in T.ctors(t) for ft in fts)
    else:
        r = any(has_literal_type(x, _stack) for x in t.args)
    if not _stack:
        _lit_cache[t] = r
    return r


def outer_kind(t):
    return t.decl.name if t.kind == "Adt" else t.kind


def list_shapes(p, path, out):
    """{position path: [(number of element patterns, has `..` tail)] in clause order}."""
    k = p[0]
    if k == "as":
        list_shapes(p[1], path, out)
    elif k in ("t", "p"):
        for i, s in enumerate(p[1]):
            list_shapes(s, path + (i,), out)
    elif k == "c":
        for i, s in enumerate(p[2]):
            list_shapes(s, path + (p[1], i), out)
    elif k == "l":
        out.setdefault(path, []).append((len(p[1]), p[2] is not None))
        for i, s in enumerate(p[1]):
            list_shapes(s, path + (i,), out)


def feature(c):
    """Coarse syntactic class of a clause list; part of the violation key so that distinct
    root causes get distinct keys (precedence in this order):
      tail_desc   some list position has a pattern with a `..` tail and k element patterns BEFORE
                  a pattern with a `..` tail and j < k element patterns
      tail_multi  some list position has `..`-tail patterns of two lengths i < j and a longer list
                  pattern (exact length >= j, or `..` tail and length > j)
      list        list patterns occur, but in neither arrangement
      plain       no list pattern"""
    shapes = {}
    for alts in c.clauses:
        for p in alts:
            list_shapes(p, (), shapes)
    if not shapes:
        return "plain"
    multi = False
    for seq in shapes.values():
        longest = -1
        for n, tail in seq:
            if tail:
                if n < longest:
                    return "tail_desc"
                longest = max(longest, n)
        tails = sorted({n for n, tail in seq if tail})
        if len(tails) >= 2:
            j = tails[1]
            if any((tail and n > j) or (not tail and n >= j) for n, tail in seq):
                multi = True
    return "tail_multi" if multi else "list"


def witness(c, **kw):
    a = c.an
    w = dict(
        spec=list(c.cid) if isinstance(c.cid, tuple) else c.cid,
        slice=c.slice,
        kind=c.kind,
        type=T.ty_src(c.t),
        clauses=[" | ".join(P.show(p, c.t) for p in alts) for alts in c.clauses],
        source=c.src,
        oracle=dict(
            values_enumerated=len(a.values),
            exhaustive=a.exhaustive,
            unmatched_values=[T.show_value(c.t, v) for v in a.unmatched[:12]],
            unreachable=[list(x) for x in a.unreachable],
            reach={f"{ci}.{ai}": n for (ci, ai), n in a.reach.items()},
        ),
    )
    w.update(kw)
    return w


# ----------------------------------------------------------------- check 1 + 2: the checker's verdict


def check_infer(c, res, acc):
    """Compare one `infer` result with the brute-forcer. Returns True when the module was accepted."""
    a = c.an
    k = outer_kind(c.t)
    acc.evaluations += 1
    if "accepted" in res:
        acc.count(f"{c.slice}_accepted")
        if c.kind == "expect":
            return True
        if not a.exhaustive:
            acc.violation(f"C07:accepted_nonexhaustive:{c.kind}:{k}", witness(c, compiler=res_brief(res)))
        elif a.unreachable and c.kind == "when":
            acc.violation(f"C07:accepted_with_unreachable_clause:{k}", witness(c, compiler=res_brief(res)))
        else:
            acc.count("agree_accept")
        return True
    if res.get("rejected") != "type":
        acc.inconc("rejected_" + str(res.get("rejected") or list(res)[0]))
        if os.environ.get("C07_DEBUG"):
            print("INCONCLUSIVE", json.dumps(res)[:400], "\n", c.src, file=sys.stderr)
        return False
    errs = res.get("errors") or []
    e = errs[0] if errs else {"variant": "?"}
    var = e.get("variant")
    if var == "NotExhaustivePatternMatch":
        acc.count(f"{c.slice}_rejected_nonexhaustive")
        if c.kind == "expect":
            acc.violation(f"C07:expect_rejected_nonexhaustive:{k}", witness(c, compiler=e))
            return False
        if bool(e.get("is_let")) != (c.kind == "let"):
            acc.violation(f"C07:is_let_flag_wrong:{c.kind}", witness(c, compiler=e))
        if a.exhaustive:
            acc.violation(f"C07:false_nonexhaustive:{c.kind}:{k}", witness(c, compiler=e))
            return False
        if a.unreachable and c.kind == "when":
            # the checker tests usefulness clause by clause BEFORE completeness: an unreachable
            # clause that survives to the completeness check was missed
            acc.violation(f"C07:unreachable_clause_not_flagged:{k}", witness(c, compiler=e))
        # check 2: reported patterns
        reported = []
        bad = None
        for s in e.get("unmatched") or []:
            try:
                reported.append((s, P.resolve_report(P.parse_report(s), c.t)))
            except P.ParseError as ex:
                bad = (s, str(ex))
        if bad or not reported:
            acc.violation(f"C07:unmatched_report_malformed:{k}", witness(c, compiler=e, parse_error=bad))
            return False
        if any(s.endswith(", []]") for s, _ in reported):
            acc.count("report_quirk_trailing_nil")
        covered = [False] * len(a.unmatched)
        for s, rp in reported:
            hits = 0
            for i, v in enumerate(a.unmatched):
                if B.match(rp, c.t, v, {}) is not None:
                    covered[i] = True
                    hits += 1
            if hits == 0:
                acc.violation(f"C07:reported_missing_pattern_is_matched:{k}", witness(c, compiler=e, reported=s))
            elif not has_literal_type(c.t):
                # strong form (types without Int/ByteArray, where the printer never abbreviates a
                # literal to `_`): EVERY value the reported pattern denotes must be unmatched
                wrong = [v for v, hit in zip(a.values, a.first) if hit is not None and B.match(rp, c.t, v, {}) is not None]
                if wrong:
                    acc.violation(f"C07:reported_missing_pattern_partly_matched:{k}", witness(c, compiler=e, reported=s, matched_values=[T.show_value(c.t, v) for v in wrong[:6]]))
                else:
                    acc.count("report_strongly_sound")
        acc.count("agree_nonexhaustive")
        if not all(covered):
            # The checker's report is a list of witnesses, not a complete cover: when a column misses
            # constructors it reports only those (Elm-style `isExhaustive`), e.g. `Some(False)` alone
            # reports just `None`.  The property only demands that reported patterns be unmatched
            # (soundness), so an incomplete report is counted, and only a violation under C07_STRICT_COVER=1.
            acc.count("report_incomplete")
            if os.environ.get("C07_STRICT_COVER"):
                miss = [T.show_value(c.t, v) for v, ok in zip(a.unmatched, covered) if not ok][:8]
                acc.violation(f"C07:unmatched_value_not_reported:{k}", witness(c, compiler=e, not_covered=miss))
        else:
            acc.count("report_complete")
        return False
    if var == "RedundantMatchClause":
        acc.count(f"{c.slice}_rejected_redundant")
        if c.kind != "when":
            acc.violation(f"C07:redundant_on_{c.kind}:{k}", witness(c, compiler=e))
            return False
        sp = e.get("redundant") or [None, None]
        named = [ca for ca, (s0, s1) in c.spans.items() if sp[0] is not None and s0 <= sp[0] < s1]
        if not named:
            acc.inconc("redundant_span_unmapped")
            return False
        if named[0] not in a.unreachable:
            acc.violation(f"C07:false_redundant:{k}", witness(c, compiler=e, named_clause=list(named[0])))
        else:
            acc.count("agree_redundant")
            if a.unreachable[0] != named[0]:
                acc.count("redundant_named_not_first")
        return False
    acc.inconc("type_error_" + str(var))
    if os.environ.get("C07_DEBUG"):
        print("INCONCLUSIVE", json.dumps(e)[:400], "\n", c.src, file=sys.stderr)
    return False


def res_brief(res):
    return {k: v for k, v in res.items() if k in ("accepted", "rejected", "errors")}


# ----------------------------------------------------------------- check 3 + 4: run time


def expected_result(c, i):
    """Expected Data (or 'abort') of the case function on value number i."""
    hit = c.an.first[i]
    if hit is None:
        return "abort"
    ci, ai, b = hit
    names = sorted(b)
    return {"l": [{"i": str(ci)}, {"l": [T.to_data(b[n][0], b[n][1]) for n in names]}]}


def norm_out(r):
    if "ok" in r:
        ok = r["ok"]
        if isinstance(ok, list) and len(ok) == 3 and ok[0] == "con" and ok[1] == "data":
            return ("ok", T.strip_data(ok[2]))
        return ("ok?", ok)
    if "err" in r:
        return ("err", r["err"])
    return ("?", r)


def data_eq(a, b):
    """Data equality modulo the empty list/map ambiguity of List<Pair<..>>."""
    if a == b:
        return True
    if isinstance(a, dict) and isinstance(b, dict):
        if ("l" in a and a["l"] == [] and "m" in b and b["m"] == []) or ("m" in a and a["m"] == [] and "l" in b and b["l"] == []):
            return True
        if set(a) != set(b):
            return False
        return all(data_eq(a[k], b[k]) for k in a)
    if isinstance(a, list) and isinstance(b, list):
        return len(a) == len(b) and all(data_eq(x, y) for x, y in zip(a, b))
    return False


def runtime_jobs(cases, cfg, jid0):
    """Batch accepted cases: one module with many `pick_i` functions per compile_eval job."""
    jobs = []
    # group by nothing in particular; declarations are shared per batch
    bs = cfg["rt_batch"]
    for b0 in range(0, len(cases), bs):
        batch = cases[b0 : b0 + bs]
        decls = {}
        for c in batch:
            T.user_decls(c.t, decls)
        src = "".join(T.decl_src(d) for d in decls.values())
        entries = []
        meta = []
        for j, c in enumerate(batch):
            fsrc, _, hl = build_source(c, fn_name=f"pick_{j}", with_decls=False)
            src += fsrc
            idx = list(range(len(c.values)))
            if len(idx) > cfg["rt_value_cap"]:
                # keep it bounded: a strided sample that always contains one value per reached clause
                step = len(idx) / cfg["rt_value_cap"]
                keep = {int(i * step) for i in range(cfg["rt_value_cap"])}
                seen = set()
                for i, hit in enumerate(c.an.first):
                    tag = None if hit is None else (hit[0], hit[1])
                    if tag not in seen:
                        seen.add(tag)
                        keep.add(i)
                idx = sorted(keep)
            entries.append({"kind": "fn", "module": "m", "name": f"pick_{j}", "args": [[T.to_data(c.t, c.values[i])] for i in idx]})
            meta.append((c, idx))
        jobs.append(
            (
                {
                    "id": jid0 + len(jobs),
                    "op": "compile_eval",
                    "plutus": "v3",
                    "modules": [{"name": "m", "kind": "lib", "src": src}],
                    "tracings": TRACINGS,
                    "infer_tracing": "same",
                    "snapshots": False,
                    "reuse_generator": False,
                    "detailed": False,
                    "emit_hex": False,
                    "entries": entries,
                },
                meta,
                src,
            )
        )
    return jobs


def check_runtime(job, meta, src, res, acc):
    if "runs" not in res:
        acc.inconc("runtime_job_" + "_".join(sorted(k for k in res if k != "id")))
        return
    for run in res["runs"]:
        tr = run.get("tracing")
        if "rejected" in run:
            acc.inconc("runtime_batch_rejected_" + str(run["rejected"].get("rejected")))
            if os.environ.get("C07_DEBUG"):
                print("BATCH REJECTED", json.dumps(run["rejected"])[:600], "\n", src, file=sys.stderr)
            continue
        ents = run.get("entries") or []
        for (c, idx), ent in zip(meta, ents):
            k = outer_kind(c.t)
            if ent.get("compile_panic"):
                acc.violation(f"C07:codegen_panic:{c.kind}:{feature(c)}:{panic_sig(ent['compile_panic'])}", witness(c, tracing=tr, panic=ent["compile_panic"]))
                continue
            results = ent.get("results") or []
            if len(results) != len(idx):
                acc.inconc("runtime_result_count")
                continue
            for i, r in zip(idx, results):
                acc.evaluations += 1
                acc.count("runtime_values_evaluated")
                exp = expected_result(c, i)
                got = norm_out(r)
                v = c.values[i]
                if exp == "abort":
                    if got[0] == "err" and got[1] in ALLOWED_ABORT:
                        acc.count("runtime_abort_agreed")
                        continue
                    key = f"C07:{c.kind}_should_abort:{k}" if got[0] != "err" else f"C07:abort_error_class:{got[1]}"
                    acc.violation(key, witness(c, tracing=tr, value=T.show_value(c.t, v), value_data=T.to_data(c.t, v), expected="abort", got=got))
                    continue
                if got[0] == "ok" and data_eq(got[1], exp):
                    continue
                if got[0] == "ok" and isinstance(got[1], dict) and "l" in got[1] and len(got[1]["l"]) == 2 and got[1]["l"][0] != exp["l"][0]:
                    key = f"C07:runtime_wrong_clause:{c.kind}:{feature(c)}"
                elif got[0] == "ok":
                    key = f"C07:runtime_wrong_binding:{c.kind}:{feature(c)}"
                else:
                    key = f"C07:runtime_unexpected_error:{c.kind}:{feature(c)}:{got[1] if got[0] == 'err' else 'shape'}"
                acc.violation(key, witness(c, tracing=tr, value=T.show_value(c.t, v), value_data=T.to_data(c.t, v), expected=exp, got=got))


def panic_sig(msg):
    import re

    m = re.search(r"@ (\S+):(\d+)", msg)
    return m.group(0)[2:] if m else msg[:60]


# ----------------------------------------------------------------- driver plumbing


_HAVE_MANY = None


def have_infer_many():
    global _HAVE_MANY
    if _HAVE_MANY is None:
        r = common.run_jobs("aiken-run", [{"id": 0, "op": "infer_many", "tracing": "verbose-all", "items": [{"name": "m", "kind": "lib", "src": "pub fn f() { 1 }\n"}]}], shards=1)
        _HAVE_MANY = isinstance(r.get(0, {}).get("results"), list)
    return _HAVE_MANY


def infer_all(cases, cfg, shards):
    """-> list of infer results aligned with `cases`."""
    out = [None] * len(cases)
    if have_infer_many():
        bs = cfg["infer_batch"]
        jobs = []
        for j, b0 in enumerate(range(0, len(cases), bs)):
            jobs.append({"id": j, "op": "infer_many", "tracing": "verbose-all", "items": [{"name": "m", "kind": "lib", "src": c.src} for c in cases[b0 : b0 + bs]]})
        res = common.run_jobs("aiken-run", jobs, shards=shards, per_job_timeout=120.0)
        failed = []
        for j, b0 in enumerate(range(0, len(cases), bs)):
            r = res.get(j, {})
            rs = r.get("results")
            n = len(cases[b0 : b0 + bs])
            if isinstance(rs, list) and len(rs) == n:
                out[b0 : b0 + n] = rs
            else:
                failed.extend(range(b0, b0 + n))
        if failed:  # a died/timeout batch: retry those one by one to attribute the failure
            jobs = [{"id": i, "op": "infer", "tracing": "verbose-all", "modules": [{"name": "m", "kind": "lib", "src": cases[i].src}]} for i in failed]
            res = common.run_jobs("aiken-run", jobs, shards=shards)
            for i in failed:
                out[i] = res.get(i, {"missing": True})
    else:
        jobs = [{"id": i, "op": "infer", "tracing": "verbose-all", "modules": [{"name": "m", "kind": "lib", "src": c.src}]} for i, c in enumerate(cases)]
        res = common.run_jobs("aiken-run", jobs, shards=shards)
        for i in range(len(cases)):
            out[i] = res.get(i, {"missing": True})
    return out


def process(specs, cfg, seed, universes, shards):
    """Generate, decide, compare one chunk of case specs. Returns an Acc."""
    acc = Acc()
    cases = []
    for sp in specs:
        c = make_case(sp, cfg, seed, universes)
        if c is None:
            acc.count("generator_gave_up")
            continue
        cases.append(c)
        if c.uniform_checked is True:
            acc.count("oracle_selfcheck_agree")
        elif c.uniform_checked is None:
            acc.inconc("oracle_selfcheck_mismatch")
            if os.environ.get("C07_DEBUG"):
                print("SELFCHECK MISMATCH\n", c.src, file=sys.stderr)
    results = infer_all(cases, cfg, shards)
    accepted = []
    for c, r in zip(cases, results):
        acc.count(f"{c.slice}_cases")
        acc.count(f"kind_{c.kind}")
        acc.count("clauses_total", len(c.clauses))
        acc.count("values_enumerated", len(c.values))
        h = case_hash(c)
        acc.distinct.add(h)
        if r is None or "died" in r or "timeout" in r or "harness_error" in r or "missing" in r:
            acc.inconc("infer_" + ("died" if r and "died" in r else "timeout" if r and "timeout" in r else "harness"))
            continue
        if "panic" in r or r.get("rejected") == "panic":
            acc.violation(f"C07:checker_panic:{panic_sig(str(r.get('panic')))}", witness(c, compiler=r))
            continue
        ok = check_infer(c, r, acc)
        if ok:
            accepted.append(c)
            acc.count("accepted_feature_" + feature(c))
            if sum(1 for x in acc.samples if x["slice"] == c.slice) < 2:
                acc.samples.append(dict(slice=c.slice, type=T.ty_src(c.t), kind=c.kind, clauses=[" | ".join(P.show(p, c.t) for p in alts) for alts in c.clauses], values=len(c.values), verdict="accepted"))
        elif sum(1 for x in acc.samples if x["slice"] == c.slice and x["verdict"] != "accepted") < 1:
            acc.samples.append(dict(slice=c.slice, type=T.ty_src(c.t), kind=c.kind, clauses=[" | ".join(P.show(p, c.t) for p in alts) for alts in c.clauses], values=len(c.values), verdict=(r.get("errors") or [{}])[0].get("variant")))
    jobs = runtime_jobs(accepted, cfg, 0)
    if jobs:
        res = common.run_jobs("aiken-run", [j for j, _, _ in jobs], shards=shards, per_job_timeout=180.0)
        for j, meta, src in jobs:
            r = res.get(j["id"], {"missing": True})
            if "died" in r or "timeout" in r:
                acc.inconc("runtime_job_" + ("died" if "died" in r else "timeout"))
                if os.environ.get("C07_DEBUG"):
                    print("RUNTIME JOB", r, "\n", src, file=sys.stderr)
                continue
            if "panic" in r:
                acc.violation(f"C07:compile_eval_panic:{panic_sig(str(r['panic']))}", dict(source=src, panic=r["panic"]))
                continue
            acc.count("runtime_functions", len(meta))
            check_runtime(j, meta, src, r, acc)
    return acc


def make_universes(cfg, seed):
    out = []
    for entry in exh_types(cfg):
        _, t, d, opt = exh_entry(cfg, entry)
        out.append(exh_universe(t, d, opt["cap"], seed, opt["list_max"])[0])
    return out


def _worker(args):
    specs, cfg, seed, tier = args
    universes = make_universes(cfg, seed)
    return process(specs, cfg, seed, universes, shards=1)


def run(tier="quick", seed=0, only=None, jobs=None):
    t0 = time.time()
    cfg = TIERS[tier]
    only = set(only or ["exh", "rand", "let"])
    ncpu = jobs or common.NCPU
    specs = []
    meta = {}
    if "exh" in only:
        s, meta = exh_specs(cfg, seed)
        specs += s
    if "rand" in only:
        specs += [("rand", i) for i in range(cfg["n_random"])]
    if "let" in only:
        specs += [("let", i) for i in range(cfg["n_let"])]
    have_infer_many()
    # deal the specs round-robin over worker processes; each drives its own aiken-run
    nw = max(1, min(ncpu, len(specs) // 50 or 1))
    chunks = [specs[k::nw] for k in range(nw)]
    # sub-chunk so that memory stays flat and runtime jobs interleave with infer jobs
    work = []
    for ch in chunks:
        for b0 in range(0, len(ch), 600):
            work.append((ch[b0 : b0 + 600], cfg, seed, tier))
    acc = Acc()
    if nw == 1:
        for w in work:
            acc.merge(_worker(w))
    else:
        import multiprocessing as mp

        with mp.get_context("fork").Pool(nw) as pool:
            for part in pool.imap_unordered(_worker, work):
                acc.merge(part)
    total_inc = sum(acc.inconclusive.values())
    cases = sum(acc.counters.get(f"{s}_cases", 0) for s in ("exh", "rand", "let"))
    acc.counters["wall_s"] = round(time.time() - t0, 1)
    acc.counters["infer_many"] = int(bool(_HAVE_MANY))
    acc.counters["violation_counts"] = dict(sorted(acc.vcount.items()))
    exh_complete = "exh" in only and not any(k.startswith("infer_") for k in acc.inconclusive)
    return dict(
        evaluations=acc.evaluations,
        distinct=len(acc.distinct),
        samples=acc.samples,
        violations=acc.violations,
        inconclusive=dict(sorted(acc.inconclusive.items())),
        counters=dict(sorted(acc.counters.items(), key=lambda kv: kv[0])),
        exhaustive=bool(exh_complete),
        exhaustive_slice=meta,
        cases=cases,
        inconclusive_fraction=(total_inc / cases if cases else 0.0),
        tier=tier,
        seed=seed,
    )


def main(argv=None):
    import argparse

    ap = argparse.ArgumentParser()
    ap.add_argument("--tier", default="quick", choices=sorted(TIERS))
    ap.add_argument("--seed", type=int, default=0)
    ap.add_argument("--only", default=None, help="comma list of exh,rand,let")
    ap.add_argument("--jobs", type=int, default=None)
    ap.add_argument("--json", action="store_true")
    a = ap.parse_args(argv)
    r = run(a.tier, a.seed, only=a.only.split(",") if a.only else None, jobs=a.jobs)
    if a.json:
        print(json.dumps(r, indent=1, default=str))
        return 0
    c = r["counters"]
    print(f"C07 tier={a.tier} seed={a.seed} wall={c['wall_s']}s infer_many={c['infer_many']}")
    print(f"  clause lists tried: {r['cases']} (distinct {r['distinct']}): exhaustive slice {c.get('exh_cases', 0)}, random {c.get('rand_cases', 0)}, let/expect {c.get('let_cases', 0)}")
    acc_n = sum(c.get(f"{s}_accepted", 0) for s in ("exh", "rand", "let"))
    print(f"  accepted {acc_n}; rejected non-exhaustive {sum(c.get(f'{s}_rejected_nonexhaustive', 0) for s in ('exh', 'rand', 'let'))}; rejected redundant {sum(c.get(f'{s}_rejected_redundant', 0) for s in ('exh', 'rand', 'let'))}")
    print(f"  values enumerated {c.get('values_enumerated', 0)}; run-time functions {c.get('runtime_functions', 0)}; run-time evaluations {c.get('runtime_values_evaluated', 0)} (aborts agreed {c.get('runtime_abort_agreed', 0)})")
    print(f"  oracle self-check (uniform vs directed enumeration) agreed on {c.get('oracle_selfcheck_agree', 0)} cases")
    print("  exhaustive slice:")
    for name, m in r["exhaustive_slice"].items():
        print(f"    {name:30s} universe {m['universe']:3d} (of {m['structural_universe_uncapped']} structural, depth<={m['depth']}), clause counts {m['clauses']}{' + `_`' if m['suffix_wild'] else ''}: {m['clause_lists']} lists")
    print(f"  inconclusive: {r['inconclusive']}  ({100 * r['inconclusive_fraction']:.2f}% of cases)")
    print(f"  counters: { {k: v for k, v in c.items() if k.startswith(('agree', 'redundant', 'report', 'generator'))} }")
    vc = c["violation_counts"]
    print(f"  disagreements: {sum(vc.values())} in {len(vc)} classes")
    for k, n in vc.items():
        print(f"    {n:6d}  {k}")
    for k, w in r["violations"][:6]:
        print("  VIOLATION", k)
        print("    type:", w.get("type"), " clauses:", w.get("clauses"))
        for f in ("compiler", "value", "expected", "got", "tracing", "reported", "not_covered", "named_clause", "panic"):
            if f in w:
                print(f"    {f}: {json.dumps(w[f], default=str)[:300]}")
        if "oracle" in w:
            print("    oracle:", json.dumps(w["oracle"])[:300])
    return 1 if r["violations"] else 0


if __name__ == "__main__":
    sys.exit(main())
