#!/usr/bin/env python3
"""Delta-minimiser for C07 disagreements.

    python3 minimise.py --tier quick --seed 1 --spec '["rand", 1234]' [--key C07:...]
    python3 minimise.py --replay /verif/replay/C07/<hash>.json

Regenerates the case from its spec (generation is a pure function of tier, seed and spec),
then greedily deletes clauses / alternatives, replaces sub-patterns by `_` and strips
bindings while the same violation key is still reproduced by the real compiler.
"""
import os
import sys

_HERE = os.path.dirname(os.path.abspath(__file__))
sys.path[:] = [p for p in sys.path if os.path.abspath(p or os.getcwd()) != _HERE]
if os.path.dirname(_HERE) not in sys.path:
    sys.path.insert(0, os.path.dirname(_HERE))

import json  # noqa: E402

import common  # noqa: E402
from patterns import brute as B  # noqa: E402
from patterns import pats as P  # noqa: E402
from patterns import run_c07 as R  # noqa: E402
from patterns import types as T  # noqa: E402


def to_spec(x):
    return tuple(to_spec(y) if isinstance(y, list) else y for y in x)


def evaluate(case, cfg):
    """Run all checks on one case; -> {violation key: witness}."""
    case.values = B.directed_values(case.t, case.clauses, cap=cfg["val_cap"])
    case.an = B.analyse(case.t, case.clauses, case.values)
    case.src, case.spans, _ = R.build_source(case)
    acc = R.Acc()
    res = R.infer_all([case], cfg, 1)[0]
    if "panic" in res or res.get("rejected") == "panic":
        return {f"C07:checker_panic:{R.panic_sig(str(res.get('panic')))}": res}
    if R.check_infer(case, res, acc):
        for j, meta, src in R.runtime_jobs([case], cfg, 0):
            r = common.run_jobs("aiken-run", [j], shards=1)[j["id"]]
            if "runs" in r:
                R.check_runtime(j, meta, src, r, acc)
    if acc.inconclusive:
        return {}
    return dict(acc.violations)


def sub_paths(p, path=()):
    out = []
    k = p[0]
    if k in ("_",):
        return out
    out.append(path)
    if k == "as":
        return out
    subs = p[1] if k in ("t", "p", "l") else p[2] if k == "c" else ()
    for i, s in enumerate(subs):
        out += sub_paths(s, path + (i,))
    return out


def candidates(clauses):
    n = len(clauses)
    for i in range(n):
        if n > 1:
            yield clauses[:i] + clauses[i + 1 :]
    for i, alts in enumerate(clauses):
        if len(alts) > 1:
            for j in range(len(alts)):
                yield clauses[:i] + [alts[:j] + alts[j + 1 :]] + clauses[i + 1 :]
    for i, alts in enumerate(clauses):
        for j, p in enumerate(alts):
            sv = P.strip_vars(p)
            if sv != p and len(alts) == 1:
                yield clauses[:i] + [alts[:j] + [sv] + alts[j + 1 :]] + clauses[i + 1 :]
            if p[0] == "as":
                continue
            for path in sub_paths(p):
                if not path:
                    continue
                try:
                    q = P.replace_at(p, path, P.WILD)
                except ValueError:
                    continue
                if q != p and len(alts) == 1:
                    yield clauses[:i] + [alts[:j] + [q] + alts[j + 1 :]] + clauses[i + 1 :]
            # shorten list patterns
            if p[0] == "l" and len(p[1]) > 1:
                yield clauses[:i] + [alts[:j] + [("l", p[1][:-1], p[2])] + alts[j + 1 :]] + clauses[i + 1 :]


def minimise(case, cfg, key=None):
    found = evaluate(case, cfg)
    if not found:
        print("no violation reproduced for this case")
        return None
    key = key or sorted(found)[0]
    print("minimising for", key)
    best = case.clauses
    progress = True
    while progress:
        progress = False
        for cand in candidates(best):
            c2 = R.Case()
            c2.cid, c2.slice, c2.kind, c2.t = case.cid, case.slice, case.kind, case.t
            c2.uniform_checked = False
            c2.complete = True
            c2.clauses = cand
            try:
                f2 = evaluate(c2, cfg)
            except T.TooBig:
                continue
            if key in f2:
                best = cand
                progress = True
                break
    case.clauses = best
    found = evaluate(case, cfg)
    return key, found[key]


def main():
    import argparse

    ap = argparse.ArgumentParser()
    ap.add_argument("--tier", default="quick")
    ap.add_argument("--seed", type=int, default=0)
    ap.add_argument("--spec")
    ap.add_argument("--key")
    ap.add_argument("--replay")
    a = ap.parse_args()
    if a.replay:
        d = json.load(open(a.replay))
        a.tier, a.seed, a.key = d.get("tier", a.tier), d.get("seed", a.seed), a.key or d.get("key")
        spec = to_spec(d["witness"]["spec"])
    else:
        spec = to_spec(json.loads(a.spec))
    cfg = R.TIERS[a.tier]
    universes = R.make_universes(cfg, a.seed)
    R.have_infer_many()
    case = R.make_case(spec, cfg, a.seed, universes)
    r = minimise(case, cfg, a.key)
    if r:
        key, w = r
        print("KEY", key)
        print(w["source"])
        for f in ("compiler", "value", "expected", "got", "tracing", "panic"):
            if f in w:
                print(f"{f}: {json.dumps(w[f], default=str)[:400]}")


if __name__ == "__main__":
    main()
