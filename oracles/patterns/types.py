"""C07 oracle, part 1: Aiken types, value enumeration and the type -> Data encoding.

Types
-----
    Ty(kind, args, decl)   kind in Int | ByteArray | Tuple | Pair | List | Adt | Var
Bool, Option and Ordering are ordinary ADTs whose declarations are `builtin`
(not emitted into the module source).  User ADTs carry a `Decl` with positional
and/or record constructors, type parameters (`Var` i) and possibly recursive
fields.

Values (plain Python tuples, hashable)
--------------------------------------
    ('c', ctor_index, (fields..))   ADT incl. Bool (False = 0, True = 1)
    ('i', n)  ('b', bytes)  ('t', (..))  ('p', (a, b))  ('l', (..))

Data encoding (checked empirically against `compile_eval`, see FINDINGS.md):
    Int {"i":"n"}; ByteArray {"b":hex}; constructor i {"c":"i","f":[..]};
    List -> {"l":[..]}; tuple -> {"l":[..]}; Pair<a,b> -> {"l":[a,b]};
    List<Pair<a,b>> -> {"m":[[a,b]..]}   (a list of 2-lists is a DeserialisationError).
"""
import itertools


class TooBig(Exception):
    pass


class Ctor:
    def __init__(self, name, fields):
        self.name = name
        self.fields = list(fields)  # [(label | None, tyexpr)]

    @property
    def is_record(self):
        return bool(self.fields) and all(l is not None for l, _ in self.fields)

    @property
    def labels(self):
        return [l for l, _ in self.fields]


class Decl:
    def __init__(self, name, nparams, ctors=None, builtin=False):
        self.name = name
        self.nparams = nparams
        self.ctors = ctors or []
        self.builtin = builtin


class Ty:
    __slots__ = ("kind", "args", "decl", "idx", "_key")

    def __init__(self, kind, args=(), decl=None, idx=None):
        self.kind = kind
        self.args = tuple(args)
        self.decl = decl
        self.idx = idx
        self._key = (kind, decl.name if decl else None, idx, tuple(a._key for a in self.args))

    def __eq__(self, o):
        return isinstance(o, Ty) and self._key == o._key

    def __hash__(self):
        return hash(self._key)

    def __repr__(self):
        return ty_src(self)


INT = Ty("Int")
BYTES = Ty("ByteArray")


def Var(i):
    return Ty("Var", idx=i)


def Adt(decl, *args):
    assert len(args) == decl.nparams, (decl.name, args)
    return Ty("Adt", args, decl=decl)


def Tuple(*args):
    return Ty("Tuple", args)


def Pair(a, b):
    return Ty("Pair", (a, b))


def List(a):
    return Ty("List", (a,))


BOOL_DECL = Decl("Bool", 0, [Ctor("False", []), Ctor("True", [])], builtin=True)
BOOL = Adt(BOOL_DECL)
OPTION_DECL = Decl("Option", 1, [Ctor("Some", [(None, Var(0))]), Ctor("None", [])], builtin=True)
ORDERING_DECL = Decl("Ordering", 0, [Ctor("Less", []), Ctor("Equal", []), Ctor("Greater", [])], builtin=True)
ORDERING = Adt(ORDERING_DECL)


def Option(a):
    return Adt(OPTION_DECL, a)


FALSE = ("c", 0, ())
TRUE = ("c", 1, ())


# ----------------------------------------------------------------- user ADT library


def _lib():
    d = {}
    # enum of 3
    d["Color"] = Decl("Color", 0, [Ctor("Red", []), Ctor("Green", []), Ctor("Blue", [])])
    # 2-constructor ADT with a Bool field (record constructor)
    d["Sw"] = Decl("Sw", 0, [Ctor("On", [("flag", BOOL)]), Ctor("Off", [])])
    # positional multi-field + record + nullary
    d["Foo"] = Decl(
        "Foo",
        0,
        [
            Ctor("FA", [("fa", BOOL), ("fb", INT)]),
            Ctor("FB", []),
            Ctor("FC", [(None, Option(BOOL)), (None, BOOL), (None, INT)]),
        ],
    )
    # single-constructor record
    d["Rec"] = Decl("Rec", 0, [Ctor("Rec", [("rx", BOOL), ("ry", INT), ("rz", Option(BOOL))])])
    # single-constructor positional
    d["Wrap"] = Decl("Wrap", 0, [Ctor("Wrap", [(None, INT)])])
    d["Unit2"] = Decl("Unit2", 0, [Ctor("Unit2", [])])
    # generic
    d["Box"] = Decl("Box", 1, [Ctor("Box", [("inner", Var(0))])])
    d["Either"] = Decl("Either", 2, [Ctor("Lft", [(None, Var(0))]), Ctor("Rgt", [(None, Var(1))])])
    d["These"] = Decl(
        "These",
        2,
        [Ctor("This", [(None, Var(0))]), Ctor("That", [(None, Var(1))]), Ctor("Both", [("this", Var(0)), ("that", Var(1))])],
    )
    # recursive
    tree = Decl("Tree", 1)
    tree.ctors = [Ctor("Leaf", [(None, Var(0))]), Ctor("Node", [(None, Adt(tree, Var(0))), (None, Adt(tree, Var(0)))])]
    d["Tree"] = tree
    nat = Decl("Nat", 0)
    nat.ctors = [Ctor("Zero", []), Ctor("Succ", [(None, Adt(nat))])]
    d["Nat"] = nat
    chain = Decl("Chain", 0)
    chain.ctors = [Ctor("Stop", []), Ctor("Link", [("hd", BOOL), ("next", Adt(chain))])]
    d["Chain"] = chain
    # many constructors (tags >= 7 use the general CBOR tag form)
    d["Big"] = Decl(
        "Big",
        0,
        [Ctor("B0", []), Ctor("B1", []), Ctor("B2", [(None, BOOL)]), Ctor("B3", []), Ctor("B4", []), Ctor("B5", []), Ctor("B6", []), Ctor("B7", [(None, BOOL)]), Ctor("B8", [])],
    )
    return d


LIB = _lib()


def random_decl(rng, name):
    """A random (possibly generic, possibly recursive) ADT declaration `name`."""
    nparams = rng.pick([0, 0, 1, 1, 2])
    nctors = rng.pick([1, 2, 2, 3, 3, 4])
    d = Decl(name, nparams)
    self_ty = Adt(d, *[Var(i) for i in range(nparams)]) if True else None
    ctors = []
    have_base = False
    for ci in range(nctors):
        nf = rng.pick([0, 1, 1, 2, 2, 3])
        record = nf > 0 and rng.chance(1, 2)
        fields = []
        recursive = False
        for fi in range(nf):
            k = rng.below(10)
            if k < 3:
                t = BOOL
            elif k < 4:
                t = INT
            elif k < 5:
                t = BYTES
            elif k < 6:
                t = Option(BOOL)
            elif k < 8 and nparams:
                t = Var(rng.below(nparams))
            elif k < 9 and (have_base or ci < nctors - 1) and nctors > 1:
                t = self_ty
                recursive = True
            else:
                t = ORDERING
            fields.append(((f"{name[0].lower()}{name[1:]}{chr(97 + ci)}{fi}" if record else None), t))
        if not recursive:
            have_base = True
        ctors.append(Ctor(f"{name}{chr(65 + ci)}", fields))
    if not have_base:
        ctors[-1] = Ctor(ctors[-1].name, [])
    # put one non-recursive constructor anywhere (order is part of the encoding)
    d.ctors = ctors
    return d


# ----------------------------------------------------------------- printing


def ty_src(t):
    k = t.kind
    if k in ("Int", "ByteArray"):
        return k
    if k == "Var":
        return "abcdefgh"[t.idx]
    if k == "Tuple":
        return "(" + ", ".join(ty_src(a) for a in t.args) + ")"
    if k == "Pair":
        return "Pair<" + ", ".join(ty_src(a) for a in t.args) + ">"
    if k == "List":
        return "List<" + ty_src(t.args[0]) + ">"
    if k == "Adt":
        if t.args:
            return t.decl.name + "<" + ", ".join(ty_src(a) for a in t.args) + ">"
        return t.decl.name
    raise ValueError(k)


def decl_src(d):
    params = "<" + ", ".join("abcdefgh"[i] for i in range(d.nparams)) + ">" if d.nparams else ""
    out = [f"pub type {d.name}{params} {{"]
    for c in d.ctors:
        if not c.fields:
            out.append(f"  {c.name}")
        elif c.is_record:
            out.append(f"  {c.name} {{ " + ", ".join(f"{l}: {ty_src(t)}" for l, t in c.fields) + " }")
        else:
            out.append(f"  {c.name}(" + ", ".join(ty_src(t) for _, t in c.fields) + ")")
    out.append("}")
    return "\n".join(out) + "\n"


def subst(t, args):
    if t.kind == "Var":
        return args[t.idx]
    if not t.args:
        return t
    return Ty(t.kind, [subst(a, args) for a in t.args], decl=t.decl, idx=t.idx)


_ctor_cache = {}


def ctors(t):
    """[(Ctor, [instantiated field types])] of an ADT type."""
    r = _ctor_cache.get(t)
    if r is None:
        assert t.kind == "Adt", t
        r = [(c, [subst(ft, t.args) for _, ft in c.fields]) for c in t.decl.ctors]
        _ctor_cache[t] = r
    return r


def user_decls(t, acc=None):
    """User declarations reachable from `t`, in dependency-friendly (discovery) order."""
    if acc is None:
        acc = {}
    seen = set()

    def go(t):
        if t in seen:
            return
        seen.add(t)
        if t.kind == "Adt":
            if not t.decl.builtin and t.decl.name not in acc:
                acc[t.decl.name] = t.decl
            for _, fts in ctors(t):
                for ft in fts:
                    go(ft)
        for a in t.args:
            go(a)

    go(t)
    return acc


def type_depth(t, _stack=()):
    if t.kind in ("Int", "ByteArray"):
        return 1
    if t.kind == "Adt":
        if t in _stack:
            return 0
        m = 0
        for _, fts in ctors(t):
            for ft in fts:
                m = max(m, type_depth(ft, _stack + (t,)))
        return 1 + m
    return 1 + max(type_depth(a, _stack) for a in t.args)


# ----------------------------------------------------------------- representative values


_default_cache = {}


def default_value(t, _stack=()):
    if not _stack and t in _default_cache:
        return _default_cache[t]
    k = t.kind
    if k == "Int":
        v = ("i", 7)
    elif k == "ByteArray":
        v = ("b", b"\xab")
    elif k == "Tuple":
        v = ("t", tuple(default_value(a, _stack) for a in t.args))
        if any(x is None for x in v[1]):
            v = None
    elif k == "Pair":
        v = ("p", tuple(default_value(a, _stack) for a in t.args))
        if any(x is None for x in v[1]):
            v = None
    elif k == "List":
        v = ("l", ())
    elif k == "Adt":
        v = None
        if t not in _stack:
            for i, (c, fts) in enumerate(ctors(t)):
                fs = [default_value(ft, _stack + (t,)) for ft in fts]
                if all(f is not None for f in fs):
                    v = ("c", i, tuple(fs))
                    break
    else:
        raise ValueError(k)
    if not _stack:
        _default_cache[t] = v
    return v


def alt_value(t):
    """A second representative, different from default_value(t) when the type has one."""
    k = t.kind
    d = default_value(t)
    if k == "Int":
        return ("i", -3)
    if k == "ByteArray":
        return ("b", b"")
    if k == "Tuple" or k == "Pair":
        return (d[0], tuple(alt_value(a) for a in t.args))
    if k == "List":
        return ("l", (alt_value(t.args[0]),))
    if k == "Adt":
        cs = ctors(t)
        # prefer another constructor, else alter the fields
        for i in range(len(cs) - 1, -1, -1):
            if i != d[1]:
                fs = [default_value(ft) for ft in cs[i][1]]
                if all(f is not None for f in fs):
                    return ("c", i, tuple(fs))
        return ("c", d[1], tuple(alt_value(ft) for ft in cs[d[1]][1]))
    raise ValueError(k)


def fresh_ints(lits, n=2):
    out = []
    c = 0
    while len(out) < 1:
        if c not in lits:
            out.append(c)
        c += 1
    c = -1
    while len(out) < n:
        if c not in lits:
            out.append(c)
        c -= 1
    return out


def fresh_bytes(lits, n=2):
    out = []
    cands = [b"", b"\xab", b"\x00", b"\xab\xcd", b"zz", b"\x01\x02\x03"]
    for c in cands:
        if c not in lits and len(out) < n:
            out.append(c)
    i = 0
    while len(out) < n:
        c = b"fresh%d" % i
        if c not in lits:
            out.append(c)
        i += 1
    return out


# ----------------------------------------------------------------- uniform enumeration


def _product(seqs, cap):
    n = 1
    for s in seqs:
        n *= len(s)
        if n > cap:
            raise TooBig()
    return itertools.product(*seqs)


def enum_uniform(t, depth, int_lits=(), bytes_lits=(), maxlen=2, cap=20000):
    """All values of `t` down to constructor depth `depth`; below that one default
    representative.  Int / ByteArray positions range over the given literals plus two
    fresh values; lists over all lengths 0..maxlen."""
    memo = {}
    ints = [("i", n) for n in sorted(set(int_lits))] + [("i", n) for n in fresh_ints(set(int_lits))]
    bss = [("b", b) for b in sorted(set(bytes_lits))] + [("b", b) for b in fresh_bytes(set(bytes_lits))]

    def go(t, d):
        key = (t, d)
        if key in memo:
            return memo[key]
        k = t.kind
        if d <= 0:
            r = [default_value(t)]
        elif k == "Int":
            r = ints
        elif k == "ByteArray":
            r = bss
        elif k == "Tuple":
            r = [("t", c) for c in _product([go(a, d - 1) for a in t.args], cap)]
        elif k == "Pair":
            r = [("p", c) for c in _product([go(a, d - 1) for a in t.args], cap)]
        elif k == "List":
            el = go(t.args[0], d - 1)
            r = []
            for n in range(maxlen + 1):
                r.extend(("l", c) for c in _product([el] * n, cap))
                if len(r) > cap:
                    raise TooBig()
        elif k == "Adt":
            r = []
            for i, (c, fts) in enumerate(ctors(t)):
                r.extend(("c", i, c2) for c2 in _product([go(ft, d - 1) for ft in fts], cap))
                if len(r) > cap:
                    raise TooBig()
        else:
            raise ValueError(k)
        memo[key] = r
        return r

    return go(t, depth)


# ----------------------------------------------------------------- Data encoding


def to_data(t, v):
    k = t.kind
    if k == "Int":
        return {"i": str(v[1])}
    if k == "ByteArray":
        return {"b": v[1].hex()}
    if k in ("Tuple", "Pair"):
        return {"l": [to_data(a, x) for a, x in zip(t.args, v[1])]}
    if k == "List":
        el = t.args[0]
        if el.kind == "Pair":
            return {"m": [[to_data(el.args[0], x[1][0]), to_data(el.args[1], x[1][1])] for x in v[1]]}
        return {"l": [to_data(el, x) for x in v[1]]}
    if k == "Adt":
        fts = ctors(t)[v[1]][1]
        return {"c": str(v[1]), "f": [to_data(ft, x) for ft, x in zip(fts, v[2])]}
    raise ValueError(k)


def strip_data(d):
    """Drop the driver's output-only annotations (indef / enc / raw)."""
    if isinstance(d, dict):
        return {k: strip_data(x) for k, x in d.items() if k in ("c", "f", "l", "m", "i", "b")}
    if isinstance(d, list):
        return [strip_data(x) for x in d]
    return d


def show_value(t, v):
    k = t.kind
    if k == "Int":
        return str(v[1])
    if k == "ByteArray":
        return '#"' + v[1].hex() + '"'
    if k == "Tuple":
        return "(" + ", ".join(show_value(a, x) for a, x in zip(t.args, v[1])) + ")"
    if k == "Pair":
        return "Pair(" + ", ".join(show_value(a, x) for a, x in zip(t.args, v[1])) + ")"
    if k == "List":
        return "[" + ", ".join(show_value(t.args[0], x) for x in v[1]) + "]"
    if k == "Adt":
        c, fts = ctors(t)[v[1]]
        if not fts:
            return c.name
        return c.name + "(" + ", ".join(show_value(ft, x) for ft, x in zip(fts, v[2])) + ")"
    raise ValueError(k)
