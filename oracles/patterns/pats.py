"""C07 oracle, part 2: pattern AST, pretty-printer to Aiken, generators (pattern
universe for the exhaustive slice, random / split-based generators for the random
slice) and the parser for the compiler's `unmatched` strings.

Pattern AST (plain tuples)
--------------------------
    ('_', name|None)                 `_` / `_name`
    ('v', name)                      variable
    ('as', pat, name)                `pat as name`
    ('int', n, text)                 Int literal (text = spelling, e.g. 0x10, 1_000)
    ('bytes', b, text)               ByteArray literal (#"00ff", "foo", #[1, 2])
    ('c', idx, subs, style)          constructor `idx` of the scrutinee's ADT, `subs` has the
                                     full arity; style drives the printer only:
                                       ('pos',)            Foo(a, b) / Foo
                                       ('pos_spread', k)   Foo(a, ..)   first k args, then `..`
                                       ('rec', order)      Foo { l1: p, l0 }   (order = field indices)
                                       ('rec_spread', order)  Foo { l1: p, .. }
    ('t', subs)                      tuple
    ('p', (a, b))                    Pair(a, b)
    ('l', elems, tail)               tail: None `[a, b]` | ('_', None) `[a, ..]` | ('v', n) `[a, ..n]`

A clause is a list of alternatives (`p | q`), each a pattern.
"""
from . import types as T

WILD = ("_", None)

INT_POOL = [(0, "0"), (1, "1"), (2, "2"), (-1, "-1"), (16, "0x10"), (1000, "1_000"), (42, "42")]
BYTES_POOL = [(b"", '#""'), (b"\x00", '#"00"'), (b"\x00\xff", '#"00ff"'), (b"foo", '"foo"'), (b"\x01\x02", "#[1, 2]")]


# ----------------------------------------------------------------- printing


def show(p, t):
    k = p[0]
    if k == "_":
        return "_" + (p[1] or "")
    if k == "v":
        return p[1]
    if k == "as":
        return f"{show(p[1], t)} as {p[2]}"
    if k == "int" or k == "bytes":
        return p[2]
    if k == "t":
        return "(" + ", ".join(show(s, a) for s, a in zip(p[1], t.args)) + ")"
    if k == "p":
        return "Pair(" + ", ".join(show(s, a) for s, a in zip(p[1], t.args)) + ")"
    if k == "l":
        el = t.args[0]
        items = [show(s, el) for s in p[1]]
        if p[2] is not None:
            items.append(".." + (p[2][1] if p[2][0] == "v" else ""))
        return "[" + ", ".join(items) + "]"
    if k == "c":
        c, fts = T.ctors(t)[p[1]]
        subs, style = p[2], p[3]
        if not fts:
            return c.name
        if style[0] == "pos":
            return c.name + "(" + ", ".join(show(s, ft) for s, ft in zip(subs, fts)) + ")"
        if style[0] == "pos_spread":
            items = [show(s, ft) for s, ft in list(zip(subs, fts))[: style[1]]] + [".."]
            return c.name + "(" + ", ".join(items) + ")"
        items = []
        for i in style[1]:
            s = subs[i]
            lab = c.labels[i]
            if s[0] == "v" and s[1] == lab:
                items.append(lab)
            else:
                items.append(f"{lab}: {show(s, fts[i])}")
        if style[0] == "rec_spread":
            items.append("..")
        return c.name + " { " + ", ".join(items) + " }"
    raise ValueError(p)


def strip_as(p):
    while p[0] == "as":
        p = p[1]
    return p


def pat_vars(p, t, out=None):
    """{name: type} of the variables a pattern binds."""
    if out is None:
        out = {}
    k = p[0]
    if k == "v":
        out[p[1]] = t
    elif k == "as":
        out[p[2]] = t
        pat_vars(p[1], t, out)
    elif k == "t" or k == "p":
        for s, a in zip(p[1], t.args):
            pat_vars(s, a, out)
    elif k == "l":
        for s in p[1]:
            pat_vars(s, t.args[0], out)
        if p[2] is not None and p[2][0] == "v":
            out[p[2][1]] = t
    elif k == "c":
        fts = T.ctors(t)[p[1]][1]
        for s, ft in zip(p[2], fts):
            pat_vars(s, ft, out)
    return out


def depth(p):
    k = p[0]
    if k in ("_", "v"):
        return 0
    if k == "as":
        return depth(p[1])
    if k in ("int", "bytes"):
        return 1
    if k in ("t", "p"):
        return 1 + max(depth(s) for s in p[1])
    if k == "l":
        return 1 + max([depth(s) for s in p[1]] or [0])
    if k == "c":
        return 1 + max([depth(s) for s in p[2]] or [0])
    raise ValueError(p)


def max_list_len(p):
    k = p[0]
    if k == "as":
        return max_list_len(p[1])
    if k in ("t", "p"):
        return max(max_list_len(s) for s in p[1])
    if k == "l":
        return max([len(p[1])] + [max_list_len(s) for s in p[1]])
    if k == "c":
        return max([0] + [max_list_len(s) for s in p[2]])
    return 0


def literals(p, ints, bss):
    k = p[0]
    if k == "int":
        ints.add(p[1])
    elif k == "bytes":
        bss.add(p[1])
    elif k == "as":
        literals(p[1], ints, bss)
    elif k in ("t", "p"):
        for s in p[1]:
            literals(s, ints, bss)
    elif k == "l":
        for s in p[1]:
            literals(s, ints, bss)
    elif k == "c":
        for s in p[2]:
            literals(s, ints, bss)


# ----------------------------------------------------------------- structural helpers


def wild_positions(p, t, path=()):
    """[(path, type)] of the plain `_` leaves of a pattern."""
    k = p[0]
    if k == "_":
        return [(path, t)]
    if k in ("v", "int", "bytes", "as"):
        return []
    out = []
    if k in ("t", "p"):
        for i, (s, a) in enumerate(zip(p[1], t.args)):
            out += wild_positions(s, a, path + (i,))
    elif k == "l":
        for i, s in enumerate(p[1]):
            out += wild_positions(s, t.args[0], path + (i,))
    elif k == "c":
        fts = T.ctors(t)[p[1]][1]
        for i, (s, ft) in enumerate(zip(p[2], fts)):
            out += wild_positions(s, ft, path + (i,))
    return out


def replace_at(p, path, new):
    if not path:
        return new
    i = path[0]
    k = p[0]
    if k in ("t", "p"):
        subs = list(p[1])
        subs[i] = replace_at(subs[i], path[1:], new)
        return (k, tuple(subs))
    if k == "l":
        subs = list(p[1])
        subs[i] = replace_at(subs[i], path[1:], new)
        return ("l", tuple(subs), p[2])
    if k == "c":
        subs = list(p[2])
        subs[i] = replace_at(subs[i], path[1:], new)
        return ("c", p[1], tuple(subs), p[3])
    raise ValueError(p)


def ctor_pat(t, i, subs=None, style=("pos",)):
    fts = T.ctors(t)[i][1]
    return ("c", i, tuple(subs) if subs is not None else tuple(WILD for _ in fts), style)


def head_patterns(t, rng=None):
    """A complete, pairwise-disjoint (in order) set of depth-1 patterns of type `t`:
    used by the split-based generator.  Completeness is NOT relied upon by the
    oracle; the brute-forcer decides."""
    k = t.kind
    if k == "Adt":
        return [ctor_pat(t, i) for i in range(len(T.ctors(t)))]
    if k == "Tuple":
        return [("t", tuple(WILD for _ in t.args))]
    if k == "Pair":
        return [("p", (WILD, WILD))]
    if k == "List":
        c = rng.below(4) if rng else 0
        if c == 0:
            return [("l", (), None), ("l", (WILD,), WILD)]
        if c == 1:
            return [("l", (), None), ("l", (WILD,), None), ("l", (WILD, WILD), WILD)]
        if c == 2:
            return [("l", (WILD,), WILD), ("l", (), None)]
        return [("l", (), None), ("l", (WILD,), None), ("l", (WILD, WILD), None), ("l", (WILD, WILD, WILD), WILD)]
    if k == "Int":
        n, txt = rng.pick(INT_POOL) if rng else INT_POOL[0]
        return [("int", n, txt), WILD]
    if k == "ByteArray":
        b, txt = rng.pick(BYTES_POOL) if rng else BYTES_POOL[0]
        return [("bytes", b, txt), WILD]
    raise ValueError(k)


# ----------------------------------------------------------------- universe (exhaustive slice)


def structural_universe(t, d, list_max=2):
    """Every var-free pattern of type `t` with depth <= d (positional style, `_` leaves);
    lists with 0..list_max elements with and without a `..` tail; one literal pair for Int/ByteArray."""
    if d <= 0:
        return [WILD]
    k = t.kind
    out = [WILD]
    import itertools

    if k == "Adt":
        for i, (c, fts) in enumerate(T.ctors(t)):
            for subs in itertools.product(*[structural_universe(ft, d - 1, list_max) for ft in fts]):
                out.append(("c", i, tuple(subs), ("pos",)))
    elif k == "Tuple":
        for subs in itertools.product(*[structural_universe(a, d - 1, list_max) for a in t.args]):
            out.append(("t", tuple(subs)))
    elif k == "Pair":
        for subs in itertools.product(*[structural_universe(a, d - 1, list_max) for a in t.args]):
            out.append(("p", tuple(subs)))
    elif k == "List":
        el = structural_universe(t.args[0], d - 1, list_max)
        out.append(("l", (), None))
        for n in range(1, list_max + 1):
            for subs in itertools.product(*([el] * n)):
                out.append(("l", tuple(subs), None))
                out.append(("l", tuple(subs), WILD))
    elif k == "Int":
        out += [("int", 0, "0"), ("int", 1, "1")]
    elif k == "ByteArray":
        out += [("bytes", b"", '#""'), ("bytes", b"\x00", '#"00"')]
    return out


def bind_leaves(p, t, names, rng, prob=(1, 2)):
    """Replace some `_` leaves by fresh variables."""
    for path, _ in wild_positions(p, t):
        if rng.chance(*prob):
            p = replace_at(p, path, ("v", names()))
    return p


class Names:
    def __init__(self, prefix="v"):
        self.n = 0
        self.prefix = prefix
        self.used = set()

    def __call__(self):
        while True:
            s = f"{self.prefix}{self.n}"
            self.n += 1
            if s not in self.used:
                self.used.add(s)
                return s


def restyle(p, t, rng, names=None, spread=1):
    """Randomly switch constructor sub-patterns to labelled / spread syntax (printer only;
    the matched set is unchanged) and optionally wrap sub-patterns in `as`."""
    k = p[0]
    if k in ("_", "v", "int", "bytes"):
        return p
    if k == "as":
        return ("as", restyle(p[1], t, rng, names, spread), p[2])
    if k in ("t", "p"):
        return (k, tuple(restyle(s, a, rng, names, spread) for s, a in zip(p[1], t.args)))
    if k == "l":
        return ("l", tuple(restyle(s, t.args[0], rng, names, spread) for s in p[1]), p[2])
    c, fts = T.ctors(t)[p[1]]
    subs = tuple(restyle(s, ft, rng, names, spread) for s, ft in zip(p[2], fts))
    if not fts:
        return ("c", p[1], subs, ("pos",))
    n = len(fts)
    # trailing plain wildcards may be replaced by `..`
    k_keep = n
    while k_keep > 0 and subs[k_keep - 1] == WILD:
        k_keep -= 1
    choices = ["pos", "pos"]
    if k_keep < n:
        choices += ["pos_spread"] * spread
    if c.is_record:
        choices += ["rec", "rec"]
        if any(s == WILD for s in subs):
            choices += ["rec_spread"] * spread
    ch = rng.pick(choices)
    if ch == "pos":
        style = ("pos",)
    elif ch == "pos_spread":
        style = ("pos_spread", k_keep)
    elif ch == "rec":
        style = ("rec", tuple(rng.shuffle(list(range(n)))))
    else:
        keep = [i for i in range(n) if subs[i] != WILD]
        # keep a few of the wildcards explicitly as well, but omit at least one field
        # (`Foo { a, b, .. }` with nothing omitted is the error UnnecessarySpreadOperator)
        wild = [i for i in range(n) if subs[i] == WILD]
        omit = rng.pick(wild)
        keep += [i for i in wild if i != omit and rng.chance(1, 4)]
        style = ("rec_spread", tuple(rng.shuffle(keep)))
    if style[0] in ("rec", "rec_spread") and names is not None:
        # field punning: `Foo { label }` binds a variable called `label`
        subs = list(subs)
        for i in style[1]:
            lab = c.labels[i]
            if subs[i] == WILD and lab not in names.used and rng.chance(1, 3):
                names.used.add(lab)
                subs[i] = ("v", lab)
        subs = tuple(subs)
    return ("c", p[1], subs, style)


def add_as(p, t, rng, names, prob=(1, 8)):
    """Wrap random non-leaf sub-patterns in `as name`."""
    k = p[0]
    if k in ("_", "v", "as"):
        return p
    if k in ("t", "p"):
        p = (k, tuple(add_as(s, a, rng, names, prob) for s, a in zip(p[1], t.args)))
    elif k == "l":
        p = ("l", tuple(add_as(s, t.args[0], rng, names, prob) for s in p[1]), p[2])
    elif k == "c":
        fts = T.ctors(t)[p[1]][1]
        p = ("c", p[1], tuple(add_as(s, ft, rng, names, prob) for s, ft in zip(p[2], fts)), p[3])
    if rng.chance(*prob):
        return ("as", p, names())
    return p


def name_tails(p, t, rng, names, prob=(1, 2)):
    k = p[0]
    if k == "as":
        return ("as", name_tails(p[1], t, rng, names, prob), p[2])
    if k in ("t", "p"):
        return (k, tuple(name_tails(s, a, rng, names, prob) for s, a in zip(p[1], t.args)))
    if k == "l":
        tail = p[2]
        if tail is not None and tail[0] == "_" and rng.chance(*prob):
            tail = ("v", names())
        return ("l", tuple(name_tails(s, t.args[0], rng, names, prob) for s in p[1]), tail)
    if k == "c":
        fts = T.ctors(t)[p[1]][1]
        return ("c", p[1], tuple(name_tails(s, ft, rng, names, prob) for s, ft in zip(p[2], fts)), p[3])
    return p


def decorate(p, t, rng, bind=(1, 2), spread=1):
    """Turn a var-free structural pattern into a 'surface' pattern: labelled/spread
    constructor syntax, variables on leaves, named list tails, `as` bindings, `_name` discards."""
    names = Names()
    p = restyle(p, t, rng, names, spread)
    p = name_tails(p, t, rng, names)
    # leaves: keep `..`-covered wildcards as plain wildcards
    for path, _ in wild_positions(p, t):
        if _covered_by_spread(p, path):
            continue
        r = rng.below(8)
        if r < 8 * bind[0] // bind[1]:
            p = replace_at(p, path, ("v", names()))
        elif r == 7:
            p = replace_at(p, path, ("_", "ign"))
    p = add_as(p, t, rng, names)
    return p


def _covered_by_spread(p, path):
    """True when the leaf at `path` is not printed (hidden behind `..` of a constructor)."""
    while path:
        i = path[0]
        k = p[0]
        if k == "as":
            p = p[1]
            continue
        if k == "c":
            st = p[3]
            if st[0] == "pos_spread" and i >= st[1]:
                return True
            if st[0] == "rec_spread" and i not in st[1]:
                return True
            p = p[2][i]
        elif k in ("t", "p"):
            p = p[1][i]
        elif k == "l":
            p = p[1][i]
        else:
            return False
        path = path[1:]
    return False


def strip_vars(p):
    """Remove every binding (variables -> `_`, `as` dropped, named tails -> `..`)."""
    k = p[0]
    if k == "v":
        return WILD
    if k == "_":
        return WILD
    if k == "as":
        return strip_vars(p[1])
    if k in ("t", "p"):
        return (k, tuple(strip_vars(s) for s in p[1]))
    if k == "l":
        return ("l", tuple(strip_vars(s) for s in p[1]), None if p[2] is None else WILD)
    if k == "c":
        return ("c", p[1], tuple(strip_vars(s) for s in p[2]), p[3])
    return p


# ----------------------------------------------------------------- random patterns


def rand_pat(rng, t, d, leaf=(1, 4)):
    """Random var-free structural pattern of depth <= d."""
    if d <= 0 or rng.chance(*leaf):
        return WILD
    k = t.kind
    if k == "Adt":
        i = rng.below(len(T.ctors(t)))
        fts = T.ctors(t)[i][1]
        return ("c", i, tuple(rand_pat(rng, ft, d - 1) for ft in fts), ("pos",))
    if k == "Tuple":
        return ("t", tuple(rand_pat(rng, a, d - 1) for a in t.args))
    if k == "Pair":
        return ("p", tuple(rand_pat(rng, a, d - 1) for a in t.args))
    if k == "List":
        n = rng.pick([0, 0, 1, 1, 1, 2, 2, 3])
        tail = None if (n == 0 or rng.chance(1, 2)) else WILD
        return ("l", tuple(rand_pat(rng, t.args[0], d - 1) for _ in range(n)), tail)
    if k == "Int":
        n, txt = rng.pick(INT_POOL)
        return ("int", n, txt)
    if k == "ByteArray":
        b, txt = rng.pick(BYTES_POOL)
        return ("bytes", b, txt)
    raise ValueError(k)


def specialise(rng, p, t, d=2):
    """Replace one wildcard leaf by a random non-trivial pattern (a pattern that matches a subset)."""
    ws = wild_positions(p, t)
    if not ws:
        return p
    path, wt = rng.pick(ws)
    return replace_at(p, path, rand_pat(rng, wt, d, leaf=(0, 1)))


def generalise(rng, p, t):
    """Replace one random sub-pattern by `_` (a pattern that matches a superset)."""
    paths = []

    def go(p, path):
        k = p[0]
        if k in ("_", "v"):
            return
        paths.append(path)
        if k == "as":
            return
        subs = p[1] if k in ("t", "p", "l") else p[2] if k == "c" else ()
        for i, s in enumerate(subs):
            go(s, path + (i,))

    go(p, ())
    if not paths:
        return p
    return replace_at(p, rng.pick(paths), WILD)


def share_var(rng, p1, p2, t, name):
    """For alternatives `p1 | p2`: bind the same variable (same type) once in each, if possible."""
    w1 = [(a, ta) for a, ta in wild_positions(p1, t) if not _covered_by_spread(p1, a)]
    w2 = [(b, tb) for b, tb in wild_positions(p2, t) if not _covered_by_spread(p2, b)]
    common = [(a, b) for a, ta in w1 for b, tb in w2 if ta == tb]
    if not common:
        return p1, p2
    a, b = rng.pick(common)
    return replace_at(p1, a, ("v", name)), replace_at(p2, b, ("v", name))


# ----------------------------------------------------------------- parser for `unmatched` strings


class ParseError(Exception):
    pass


def parse_report(s):
    """Parse the printer syntax of `tipo::exhaustive::Pattern::pretty` into a generic tree:
        ('_',) | ('tup', [..]) | ('lst', [..], tail) | ('con', name, args|None, fields|None)
    tail: None (exact length) | 'any'.  The printer writes a 2+ element exact list as
    `[_, _, []]` (a trailing `[]` item), which is accepted here."""
    pos = 0
    n = len(s)

    def ws():
        nonlocal pos
        while pos < n and s[pos] in " \n\t":
            pos += 1

    def eat(ch):
        nonlocal pos
        ws()
        if s.startswith(ch, pos):
            pos += len(ch)
            return True
        return False

    def expect(ch):
        if not eat(ch):
            raise ParseError(f"expected {ch!r} at {pos} in {s!r}")

    def ident():
        nonlocal pos
        ws()
        st = pos
        while pos < n and (s[pos].isalnum() or s[pos] == "_"):
            pos += 1
        if st == pos:
            raise ParseError(f"identifier expected at {pos} in {s!r}")
        return s[st:pos]

    def pat():
        nonlocal pos
        ws()
        if pos >= n:
            raise ParseError(f"unexpected end in {s!r}")
        ch = s[pos]
        if ch == "(":
            pos += 1
            items = [pat()]
            while eat(","):
                items.append(pat())
            expect(")")
            return ("tup", items)
        if ch == "[":
            pos += 1
            items = []
            tail = None
            if eat("]"):
                return ("lst", [], None)
            while True:
                ws()
                if s.startswith("..", pos):
                    pos += 2
                    tail = "any"
                    expect("]")
                    break
                items.append(pat())
                if eat(","):
                    continue
                expect("]")
                break
            if tail is None and items and items[-1] == ("lst", [], None) and len(items) >= 2:
                # printer quirk: `[a, b, []]` is the exact 2-element list
                items = items[:-1]
            return ("lst", items, tail)
        if ch == "_" and (pos + 1 >= n or not (s[pos + 1].isalnum() or s[pos + 1] == "_")):
            pos += 1
            return ("_",)
        name = ident()
        if not name[0].isupper():
            raise ParseError(f"constructor expected, got {name!r} in {s!r}")
        ws()
        if pos < n and s[pos] == "(":
            pos += 1
            args = [pat()]
            while eat(","):
                args.append(pat())
            expect(")")
            return ("con", name, args, None)
        if pos < n and s[pos] == "{":
            pos += 1
            fields = []
            if not eat("}"):
                while True:
                    lab = ident()
                    if eat(":"):
                        fields.append((lab, pat()))
                    else:
                        fields.append((lab, ("_",)))
                    if eat(","):
                        continue
                    expect("}")
                    break
            return ("con", name, None, fields)
        return ("con", name, None, None)

    r = pat()
    ws()
    if pos != n:
        raise ParseError(f"trailing input at {pos} in {s!r}")
    return r


def resolve_report(tree, t):
    """Type-directed conversion of a parsed report into the pattern AST."""
    k = tree[0]
    if k == "_":
        return WILD
    if k == "tup":
        if t.kind not in ("Tuple", "Pair") or len(tree[1]) != len(t.args):
            raise ParseError(f"tuple pattern of arity {len(tree[1])} at type {T.ty_src(t)}")
        subs = tuple(resolve_report(s, a) for s, a in zip(tree[1], t.args))
        return ("t", subs) if t.kind == "Tuple" else ("p", subs)
    if k == "lst":
        if t.kind != "List":
            raise ParseError(f"list pattern at type {T.ty_src(t)}")
        return ("l", tuple(resolve_report(s, t.args[0]) for s in tree[1]), WILD if tree[2] == "any" else None)
    if k == "con":
        if t.kind != "Adt":
            raise ParseError(f"constructor {tree[1]} at type {T.ty_src(t)}")
        for i, (c, fts) in enumerate(T.ctors(t)):
            if c.name == tree[1]:
                break
        else:
            raise ParseError(f"unknown constructor {tree[1]} for {T.ty_src(t)}")
        if tree[2] is not None:
            if len(tree[2]) != len(fts):
                raise ParseError(f"arity of {tree[1]}")
            return ("c", i, tuple(resolve_report(s, ft) for s, ft in zip(tree[2], fts)), ("pos",))
        if tree[3] is not None:
            subs = [WILD] * len(fts)
            for lab, sp in tree[3]:
                if lab not in c.labels:
                    raise ParseError(f"unknown label {lab} of {tree[1]}")
                j = c.labels.index(lab)
                subs[j] = resolve_report(sp, fts[j])
            return ("c", i, tuple(subs), ("pos",))
        if fts:
            raise ParseError(f"constructor {tree[1]} printed without its {len(fts)} arguments")
        return ("c", i, (), ("pos",))
    raise ParseError(str(tree))
