"""C07 oracle, part 3: the brute-force matcher.

Nothing here reasons about pattern matrices: a clause list is analysed by running
every clause on every ENUMERATED VALUE of the scrutinee type.

  match(p, t, v)            -> {var: (type, value)} | None
  values_for(t, clauses)    -> value set that is complete for the clause list:
        * uniform:  all values to depth (max pattern depth + 1), lists to length
                    (max list-pattern length + 1), literals mentioned + 2 fresh;
        * directed: the same idea applied per position - a position of the type that no
                    pattern inspects gets representative values only, a position that is
                    inspected gets every constructor / every literal mentioned + fresh /
                    every list length up to the longest pattern + 1.  (Two values that
                    differ only below positions no pattern looks at cannot be told apart
                    by any clause, so the verdicts are the same; `selfcheck` compares both.)
  analyse(t, clauses, values) -> Analysis(first, unmatched, reach)
"""
from . import types as T
from . import pats as P


def match(p, t, v, out=None):
    """Match value `v` of type `t` against pattern `p`; bindings as {name: (type, value)}."""
    if out is None:
        out = {}
    k = p[0]
    if k == "_":
        return out
    if k == "v":
        out[p[1]] = (t, v)
        return out
    if k == "as":
        if match(p[1], t, v, out) is None:
            return None
        out[p[2]] = (t, v)
        return out
    if k == "int":
        assert v[0] == "i", (p, v)
        return out if v[1] == p[1] else None
    if k == "bytes":
        assert v[0] == "b", (p, v)
        return out if v[1] == p[1] else None
    if k == "t" or k == "p":
        assert v[0] == k and len(v[1]) == len(p[1]), (p, v)
        for s, a, x in zip(p[1], t.args, v[1]):
            if match(s, a, x, out) is None:
                return None
        return out
    if k == "l":
        assert v[0] == "l", (p, v)
        elems, tail = p[1], p[2]
        xs = v[1]
        if tail is None:
            if len(xs) != len(elems):
                return None
        elif len(xs) < len(elems):
            return None
        for s, x in zip(elems, xs):
            if match(s, t.args[0], x, out) is None:
                return None
        if tail is not None and tail[0] == "v":
            out[tail[1]] = (t, ("l", tuple(xs[len(elems):])))
        return out
    if k == "c":
        assert v[0] == "c", (p, v)
        if v[1] != p[1]:
            return None
        fts = T.ctors(t)[p[1]][1]
        for s, ft, x in zip(p[2], fts, v[2]):
            if match(s, ft, x, out) is None:
                return None
        return out
    raise ValueError(p)


class Analysis:
    __slots__ = ("values", "first", "unmatched", "reach", "alts")

    def __init__(self):
        self.values = []
        self.first = []  # per value: (clause, alt, bindings) | None
        self.unmatched = []  # values no clause matches
        self.reach = {}  # (clause, alt) -> number of values for which it is the FIRST match
        self.alts = []  # [(clause, alt)] in source order

    @property
    def exhaustive(self):
        return not self.unmatched

    @property
    def unreachable(self):
        return [ca for ca in self.alts if self.reach[ca] == 0]


def analyse(t, clauses, values):
    """clauses: [[alt patterns]]; first match in source order (alternatives left to right)."""
    a = Analysis()
    a.values = values
    flat = [(ci, ai, p) for ci, alts in enumerate(clauses) for ai, p in enumerate(alts)]
    a.alts = [(ci, ai) for ci, ai, _ in flat]
    a.reach = {ca: 0 for ca in a.alts}
    for v in values:
        hit = None
        for ci, ai, p in flat:
            b = match(p, t, v, {})
            if b is not None:
                hit = (ci, ai, b)
                break
        a.first.append(hit)
        if hit is None:
            a.unmatched.append(v)
        else:
            a.reach[(hit[0], hit[1])] += 1
    return a


# ----------------------------------------------------------------- value sets


def uniform_values(t, clauses, cap=20000):
    ints, bss = set(), set()
    d = 0
    ml = 0
    for alts in clauses:
        for p in alts:
            P.literals(p, ints, bss)
            d = max(d, P.depth(p))
            ml = max(ml, P.max_list_len(p))
    return T.enum_uniform(t, d + 1, ints, bss, maxlen=ml + 1, cap=cap)


def directed_values(t, clauses, cap=4000, reps=2):
    pats = [p for alts in clauses for p in alts]
    vals = _directed(t, pats, cap, reps)
    return vals


def _prod(seqs, cap):
    import itertools

    n = 1
    for s in seqs:
        n *= len(s)
        if n > cap:
            raise T.TooBig()
    return itertools.product(*seqs)


def _directed(t, pats, cap, reps):
    bound = False
    insp = []
    for p in pats:
        while p[0] == "as":
            bound = True
            p = p[1]
        if p[0] == "v":
            bound = True
        elif p[0] != "_":
            insp.append(p)
    k = t.kind
    if not insp:
        d = T.default_value(t)
        if bound and reps > 1:
            a = T.alt_value(t)
            return [d, a] if a != d else [d]
        return [d]
    if k == "Int":
        lits = {p[1] for p in insp}
        return [("i", n) for n in sorted(lits)] + [("i", n) for n in T.fresh_ints(lits)]
    if k == "ByteArray":
        lits = {p[1] for p in insp}
        return [("b", b) for b in sorted(lits)] + [("b", b) for b in T.fresh_bytes(lits)]
    if k == "Tuple" or k == "Pair":
        tag = "t" if k == "Tuple" else "p"
        comps = [_directed(a, [p[1][i] for p in insp], cap, reps) for i, a in enumerate(t.args)]
        return [(tag, c) for c in _prod(comps, cap)]
    if k == "List":
        el = t.args[0]
        maxn = max(len(p[1]) for p in insp)
        tail_bound = any(p[2] is not None and p[2][0] == "v" for p in insp)
        out = []
        for n in range(maxn + 2):
            comps = []
            for j in range(n):
                comps.append(_directed(el, [p[1][j] for p in insp if len(p[1]) > j], cap, reps if (tail_bound or j < maxn) else 1))
            out.extend(("l", c) for c in _prod(comps, cap))
            if len(out) > cap:
                raise T.TooBig()
        return out
    if k == "Adt":
        out = []
        for i, (c, fts) in enumerate(T.ctors(t)):
            mine = [p for p in insp if p[1] == i]
            comps = [_directed(ft, [p[2][j] for p in mine], cap, reps) for j, ft in enumerate(fts)]
            out.extend(("c", i, c2) for c2 in _prod(comps, cap))
            if len(out) > cap:
                raise T.TooBig()
        return out
    raise ValueError(k)


def verdict(a):
    """Comparable summary of an analysis (used to cross-check the two enumerations)."""
    return (a.exhaustive, tuple(a.unreachable))
