#!/usr/bin/env python3
"""C19 — transaction simulation reports what the scripts actually cost and decide (see txsim/)."""
import os
import sys

here = os.path.dirname(os.path.abspath(__file__))
sys.path.insert(0, here)
import wrap
from txsim import run_c19  # noqa: E402

if __name__ == "__main__":
    wrap.run_component(
        "C19", "exploration", run_c19.run,
        rule="recorded transactions harvested at run time from the repository's tx tests (expected ex-units pinned there) and synthetic Conway transactions written as raw CBOR by an independent encoder (1-6 redeemers over spend / mint / withdraw / publish / vote / propose, inline / hashed / absent datums, witness and reference scripts, V1/V2/V3, three redeemer encodings) with probe scripts (echo, constant-cost, failing, non-unit); per redeemer: reported units == EvalResult cost == direct evaluation == script applied to its echoed context == first principles; budget hand-over with and without cost models; missing-piece mutations; permutation of resolved inputs / witness scripts / datums; echoed contexts against independently written ledger ordering rules; protocol versions none/9/10/11 and several cost-model vectors; distinct = as counted by the component",
        floor={"evaluations": 3000},
        bins=("tx-run",),
        # the ledger's ordering of the treasury-withdrawals map was recalled from memory and cannot be
        # confirmed offline; the property text does not pin it either: observation, not a verdict
        demote=lambda key: "treasury-withdrawals-not-sorted" in key,
        assumptions=[
            "txsim/cbor.py, txgen.py and context_rules.py (ledger rules written independently) are the trusted base; ledger rules behind the phase-one and ordering findings were recalled from the specification, not checked against a node (no network)",
            "a phase-one error caused by a malformed generated transaction is inconclusive",
        ],
    )
