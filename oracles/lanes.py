"""Sanitizer lanes (thorough tier): Miri for the pure-Rust paths over `unsafe`
dependencies, valgrind memcheck for the FFI builtins that Miri cannot enter.
A lane that cannot run here (toolchain missing, build failure) is reported as
inconclusive, never as a verdict."""
import json
import os
import shutil
import subprocess
import time

import common


def miri(chk, prop, kind, seeds, n_per_seed, timeout=3600):
    """run harness/src/bin/miri-run.rs under `cargo +nightly miri run`, sharded over seeds"""
    env = dict(os.environ, MIRIFLAGS="-Zmiri-disable-isolation", CARGO_NET_OFFLINE="true")
    base = ["cargo", "+nightly", "miri", "run", "--offline", "--bin", "miri-run", "--"]
    t0 = time.time()
    # first run builds (cold: several minutes); the rest re-use the build
    first = subprocess.run(base + [kind, str(seeds[0]), str(n_per_seed)], cwd=common.HARNESS, env=env, capture_output=True, text=True, timeout=timeout)
    outs = [first]
    if "MIRI-DONE" not in first.stdout and "Undefined Behavior" not in first.stderr:
        chk.inconc(f"miri-lane-unavailable:{kind}")
        chk.extra.setdefault("lanes", {})[f"miri:{kind}"] = {"ran": False, "stderr_tail": first.stderr[-600:]}
        return
    procs = [subprocess.Popen(base + [kind, str(s), str(n_per_seed)], cwd=common.HARNESS, env=env, stdout=subprocess.PIPE, stderr=subprocess.PIPE, text=True) for s in seeds[1:]]
    for p in procs:
        try:
            o, e = p.communicate(timeout=timeout)
        except subprocess.TimeoutExpired:
            p.kill()
            o, e = p.communicate()
            chk.inconc(f"miri-watchdog:{kind}")
        outs.append(subprocess.CompletedProcess(p.args, p.returncode, o, e))
    cases = 0
    for seed, o in zip(seeds, outs):
        if "Undefined Behavior" in o.stderr or "error: Undefined" in o.stderr:
            first_line = next((l for l in o.stderr.splitlines() if "Undefined Behavior" in l), "")
            where = next((l.strip() for l in o.stderr.splitlines() if l.strip().startswith("-->")), "")
            chk.violation(f"{prop}|miri|undefined-behaviour|{kind}|{where.split(':')[0][-60:]}", {"lane": "miri", "workload": kind, "seed": seed, "report": o.stderr[-3000:]})
            continue
        for line in o.stdout.splitlines():
            if line.startswith("MIRI-PANIC"):
                chk.violation(f"{prop}|miri|panic|{kind}|{line.split(' @ ')[-1]}", {"lane": "miri", "workload": kind, "seed": seed, "line": line})
            if line.startswith("MIRI-DONE"):
                kv = dict(x.split("=") for x in line.split()[1:])
                cases += int(kv["cases"])
                chk.count(f"miri_{kind}_cases", int(kv["cases"]))
                chk.count(f"miri_{kind}_ok", int(kv["ok"]))
                for i in range(int(kv["cases"])):
                    chk.distinct.add(f"miri:{kind}:{seed}:{i}")
                chk.evaluations += int(kv["cases"])
    chk.extra.setdefault("lanes", {})[f"miri:{kind}"] = {"ran": True, "cases": cases, "wall_s": round(time.time() - t0, 1)}


def valgrind(chk, prop, label, jobs, binary="uplc-run", timeout=3600):
    """run a job list through the release driver under valgrind memcheck"""
    vg = shutil.which("valgrind")
    if not vg:
        chk.inconc("valgrind-missing")
        return {}
    exe = common.bin_path(binary)
    data = "".join(json.dumps(j) + "\n" for j in jobs)
    t0 = time.time()
    try:
        p = subprocess.run([vg, "--quiet", "--error-exitcode=97", "--leak-check=no", "--track-origins=no", exe], input=data, capture_output=True, text=True, timeout=timeout)
    except subprocess.TimeoutExpired:
        chk.inconc(f"valgrind-watchdog:{label}")
        return {}
    res = {}
    for line in p.stdout.splitlines():
        try:
            r = json.loads(line)
            res[r.get("id")] = r
        except ValueError:
            pass
    errors = [l for l in p.stderr.splitlines() if l.startswith("==") and ("Invalid" in l or "uninitialised" in l or "Mismatched" in l or "overlap" in l)]
    if p.returncode == 97 or errors:
        sig = errors[0].split("== ", 1)[-1][:80] if errors else "memcheck-error"
        chk.violation(f"{prop}|valgrind|{label}|{sig}", {"lane": "valgrind memcheck", "workload": label, "report": p.stderr[-4000:]})
    elif p.returncode not in (0,):
        chk.inconc(f"valgrind-run-failed:{label}:{p.returncode}")
    else:
        chk.count(f"valgrind_{label}_jobs", len(res))
        chk.evaluations += len(res)
        for k in res:
            chk.distinct.add(f"valgrind:{label}:{k}")
    chk.extra.setdefault("lanes", {})[f"valgrind:{label}"] = {"ran": True, "jobs": len(res), "exit": p.returncode, "wall_s": round(time.time() - t0, 1)}
    return res


def ffi_jobs(rng, n):
    """boundary-length inputs for the FFI builtins (blst, secp256k1): keys, signatures, points, DSTs"""
    import gen_uplc as G

    lens = [0, 1, 31, 32, 33, 47, 48, 49, 63, 64, 65, 95, 96, 97, 255, 256]
    jobs = []

    def bs(k):
        return ["con", "bytestring", rng.bytes(k).hex()]

    def app(name, args, forces=0):
        t = ["builtin", name]
        for _ in range(forces):
            t = ["force", t]
        for a in args:
            t = ["app", t, a]
        return t

    fam = [
        ("verifyEcdsaSecp256k1Signature", 3), ("verifySchnorrSecp256k1Signature", 3), ("verifyEd25519Signature", 3),
        ("bls12_381_G1_Uncompress", 1), ("bls12_381_G2_Uncompress", 1), ("bls12_381_G1_HashToGroup", 2), ("bls12_381_G2_HashToGroup", 2),
    ]
    for i in range(n):
        name, ar = fam[i % len(fam)]
        jobs.append({"id": len(jobs), "op": "eval", "term": app(name, [bs(rng.pick(lens)) for _ in range(ar)]), "lang": "v3", "pv": 11})
    # group arithmetic on valid points
    g1, g2 = ["con", "g1", G.G1_GEN], ["con", "g2", G.G2_GEN]
    for k in [0, 1, -1, 2**255, -(2**4095), 2**4095 - 1]:
        jobs.append({"id": len(jobs), "op": "eval", "term": app("bls12_381_G1_ScalarMul", [["con", "integer", str(k)], g1]), "lang": "v3", "pv": 11})
        jobs.append({"id": len(jobs), "op": "eval", "term": app("bls12_381_G2_ScalarMul", [["con", "integer", str(k)], g2]), "lang": "v3", "pv": 11})
    jobs.append({"id": len(jobs), "op": "eval", "term": app("bls12_381_FinalVerify", [app("bls12_381_MillerLoop", [g1, g2]), app("bls12_381_MillerLoop", [g1, g2])]), "lang": "v3", "pv": 11})
    jobs.append({"id": len(jobs), "op": "eval", "term": app("bls12_381_G1_MultiScalarMul", [["con", ["list", "integer"], ["1", "2", str(2**200)]], ["con", ["list", "g1"], [G.G1_GEN, G.G1_ZERO, G.G1_GEN]]]), "lang": "v3", "pv": 11})
    return jobs


TSAN_TARGET = os.path.join(os.path.dirname(common.HARNESS), "target", "tsan")


def tsan(chk, prop, jobs, threads=8, timeout=7200):
    """ThreadSanitizer lane: the project driver rebuilt with `-Zsanitizer=thread -Zbuild-std`
    (std, rayon and every dependency instrumented: no uninstrumented synchronisation) runs real
    `Project::check` jobs with `threads` rayon workers. Each `WARNING: ThreadSanitizer` block in
    the log is a report; reports are de-duplicated by the first frame inside the repository."""
    import re

    t0 = time.time()
    env = dict(os.environ, CARGO_TARGET_DIR=TSAN_TARGET, RUSTFLAGS="-Zsanitizer=thread", CARGO_NET_OFFLINE="true")
    b = subprocess.run(["cargo", "+nightly", "build", "-Zbuild-std", "--target", "x86_64-unknown-linux-gnu", "--release", "--offline", "--bin", "project-run"], cwd=common.HARNESS, env=env, capture_output=True, text=True, timeout=timeout)
    binary = os.path.join(TSAN_TARGET, "x86_64-unknown-linux-gnu", "release", "project-run")
    if b.returncode != 0 or not os.path.exists(binary):
        chk.inconc("tsan-lane-unavailable")
        chk.extra.setdefault("lanes", {})["tsan"] = {"ran": False, "stderr_tail": b.stderr[-600:]}
        return
    logdir = os.path.join(common.OUT, "tsan-logs")
    shutil.rmtree(logdir, ignore_errors=True)
    os.makedirs(logdir, exist_ok=True)
    done = 0
    reports = {}
    for j in jobs:
        # one process per project: its own rayon pool; halt_on_error=0 so that one report does not mask the rest
        renv = dict(os.environ, RAYON_NUM_THREADS=str(threads), TSAN_OPTIONS=f"halt_on_error=0 exitcode=0 second_deadlock_stack=1 log_path={logdir}/p{j['id']}")
        try:
            p = subprocess.run([binary], input=json.dumps(j) + "\n", env=renv, capture_output=True, text=True, timeout=1800)
        except subprocess.TimeoutExpired:
            chk.inconc("tsan-watchdog")
            continue
        line = (p.stdout.strip().splitlines() or ["{}"])[-1]
        try:
            r = json.loads(line)
        except ValueError:
            r = {}
        if p.returncode != 0 or "tests" not in json.dumps(r)[:2000] and "summary" not in r and "modules" not in r:
            if p.returncode != 0:
                chk.inconc(f"tsan-driver-exit-{p.returncode}")
                continue
        done += 1
        chk.evaluations += 1
        chk.distinct.add(f"tsan:{j.get('root')}")
    for fn in sorted(os.listdir(logdir)):
        text = open(os.path.join(logdir, fn), errors="replace").read()
        for block in re.split(r"(?m)^(?===================)", text):
            m = re.search(r"WARNING: ThreadSanitizer: ([^\n(]+)", block)
            if not m:
                continue
            kind = m.group(1).strip()
            frames = re.findall(r"#\d+ (\S+) (\S+?):(\d+)", block)
            inrepo = next((f"{fn_}@{os.path.basename(path)}" for fn_, path, _ in frames if "/crates/" in path), None)
            first = inrepo or (frames[0][0] if frames else "?")
            key = f"{prop}|tsan|{kind}|{first}"
            if key not in reports:
                reports[key] = block[:4000]
    for key, block in reports.items():
        chk.violation(key, {"lane": "tsan", "threads": threads, "report": block})
    chk.count("tsan_projects_checked", done)
    chk.count("tsan_distinct_reports", len(reports))
    chk.extra.setdefault("lanes", {})["tsan"] = {"ran": True, "projects": done, "threads": threads, "distinct_reports": len(reports), "wall_s": round(time.time() - t0, 1)}
