"""Synthetic Conway transactions for C19, serialised with txsim.cbor from the Conway CDDL.

A `TxModel` is built around a list of *script uses* (spend / mint / reward / cert / vote /
propose, Plutus V1 / V2 / V3, witness or reference script, hashed / inline / absent datum).
The scripts are probe scripts (see `probe_term`). The model stays inside what the ledger
accepts: V1/V2 scripts never meet Conway-only body fields, V1 scripts never meet reference
inputs / inline datums / reference scripts.

`TxModel.encode(variant)` serialises the transaction and the resolved inputs; a variant can
permute the order of resolved inputs, witness scripts, datums, redeemers, or drop one
needed piece (datum, script, resolved input, redeemer) or add an unneeded redeemer.
"""
import hashlib

from . import cbor
from .cbor import Indef, Map, Raw, Tag

LANG_TAG = {"v1": 1, "v2": 2, "v3": 3}
WIT_KEY = {"v1": 3, "v2": 6, "v3": 7}
TAGNO = {"spend": 0, "mint": 1, "cert": 2, "reward": 3, "vote": 4, "propose": 5}
PURPOSES_V12 = ["spend", "mint", "reward", "cert"]
PURPOSES_V3 = ["spend", "mint", "reward", "cert", "vote", "propose"]


def b224(b):
    return hashlib.blake2b(b, digest_size=28).digest()


def b256(b):
    return hashlib.blake2b(b, digest_size=32).digest()


# ------------------------------------------------------------------ probe scripts


def V(i):
    return ["var", i]


def LAM(b):
    return ["lam", b]


def APP(f, *xs):
    for x in xs:
        f = ["app", f, x]
    return f


def INT(n):
    return ["con", "integer", str(n)]


UNIT = ["con", "unit", None]


def BI(n):
    return ["builtin", n]


def FORCE(t):
    return ["force", t]


def BOOL(b):
    return ["con", "bool", b]


KINDS_V3 = ["trace", "unit", "pvsens", "fail", "echo", "nonunit_int", "nonunit_true", "nonunit_false", "nonunit_lam"]
KINDS_V12 = ["echo", "echo3", "unit", "pvsens", "fail"]


def probe_term(kind, arity, salt, n=0):
    """lam^arity [(lam s BODY) (con integer salt)]; inside BODY: s = 1, ctx = 2, redeemer = 3, datum = 4.

    echo     returns the script context
    echo3    returns listData [datum?, redeemer, ctx]                       (V1/V2)
    trace    logs serialiseData ctx as two strings (low 7 bits of every byte, then the top
             bit of every byte) and returns unit                             (V3)
    unit     returns unit after n identity applications (builtin free, constant cost)
    pvsens   returns unit after an appendString whose cost depends on the protocol version
    fail     (error)
    nonunit_* returns something that is not unit                             (V3)
    """
    if kind == "echo":
        body = V(2)
    elif kind == "echo3":
        items = [V(2)]
        if arity >= 2:
            items = [V(3)] + items
        if arity >= 3:
            items = [V(4)] + items
        lst = ["con", ["list", "data"], []]
        for it in reversed(items):
            lst = APP(FORCE(BI("mkCons")), it, lst)
        body = APP(BI("listData"), lst)
    elif kind == "unit":
        body = UNIT
        for _ in range(n):
            body = APP(LAM(V(1)), body)
    elif kind == "fail":
        body = ["error"]
    elif kind == "pvsens":
        # appendString of non-ASCII text: its cost depends on whether strings are measured in
        # characters or in UTF-8 bytes, which the protocol version decides
        text = "\u00e9" * (40 + salt % 8)
        body = APP(LAM(UNIT), APP(BI("appendString"), ["con", "string", text], ["con", "string", "\u20ac\u20ac\u20ac"]))
    elif kind == "trace":
        bs = V(1)
        length = APP(BI("lengthOfByteString"), bs)
        low = APP(BI("andByteString"), BOOL(False), bs, APP(BI("replicateByte"), length, INT(127)))
        high = APP(BI("andByteString"), BOOL(False), APP(BI("shiftByteString"), bs, INT(-7)), APP(BI("replicateByte"), length, INT(1)))
        tr = APP(FORCE(BI("trace")), APP(BI("decodeUtf8"), low), APP(FORCE(BI("trace")), APP(BI("decodeUtf8"), high), UNIT))
        body = APP(LAM(tr), APP(BI("serialiseData"), V(2)))
    elif kind == "nonunit_int":
        body = INT(42)
    elif kind == "nonunit_true":
        body = BOOL(True)
    elif kind == "nonunit_false":
        body = BOOL(False)
    elif kind == "nonunit_lam":
        body = LAM(V(1))
    else:
        raise ValueError(kind)
    t = APP(LAM(body), INT(salt))
    for _ in range(arity):
        t = LAM(t)
    return t


class Unsupported(Exception):
    pass


class ScriptError(Exception):
    pass


def cek_steps(term, nargs):
    """Machine steps, by kind, of a builtin-free closed term applied to `nargs` constants
    (first principles: one step per var / lam / apply / constant / delay / force node
    entered). -> (counts, outcome) with outcome in {"unit","con","lam","delay","error"}."""
    counts = {"var": 0, "lam": 0, "apply": 0, "const": 0, "delay": 0, "force": 0}

    def ev(t, env):
        tag = t[0]
        if tag == "var":
            counts["var"] += 1
            return env[-t[1]]
        if tag == "lam":
            counts["lam"] += 1
            return ("lam", t[1], env)
        if tag == "con":
            counts["const"] += 1
            return ("unit",) if t[1] == "unit" else ("con",)
        if tag == "delay":
            counts["delay"] += 1
            return ("delay", t[1], env)
        if tag == "force":
            counts["force"] += 1
            v = ev(t[1], env)
            if v[0] != "delay":
                raise ScriptError()
            return ev(v[1], v[2])
        if tag == "app":
            counts["apply"] += 1
            f = ev(t[1], env)
            x = ev(t[2], env)
            if f[0] != "lam":
                raise ScriptError()
            return ev(f[1], f[2] + [x])
        if tag == "error":
            raise ScriptError()
        raise Unsupported(tag)

    t = term
    for _ in range(nargs):
        t = ["app", t, ["con", "data", {"i": "0"}]]
    try:
        v = ev(t, [])
        return counts, v[0]
    except ScriptError:
        return counts, "error"
    except Unsupported:
        return None, None


def arity_of(lang, purpose):
    if lang == "v3":
        return 1
    return 3 if purpose == "spend" else 2


SALTS = 8


def pool_jobs():
    """driver jobs that serialise every probe script of the pool."""
    jobs = []
    for lang in ("v1", "v2", "v3"):
        arities = [1] if lang == "v3" else [2, 3]
        kinds = KINDS_V3 if lang == "v3" else KINDS_V12
        for arity in arities:
            for kind in kinds:
                for salt in range(SALTS):
                    n = salt % 4 if kind == "unit" else 0
                    term = probe_term(kind, arity, salt + 1000 * LANG_TAG[lang], n)
                    jobs.append({
                        "id": f"script|{lang}|{arity}|{kind}|{salt}",
                        "op": "script",
                        "term": term,
                        "version": [1, 1, 0] if lang == "v3" else [1, 0, 0],
                        "_meta": {"lang": lang, "arity": arity, "kind": kind, "salt": salt, "n": n},
                    })
    return jobs


def build_pool(jobs, results):
    """-> ({(lang, arity, kind): [entry..]}, problems)"""
    pool = {}
    problems = []
    for j in jobs:
        r = results.get(j["id"], {})
        m = j["_meta"]
        if "cbor" not in r:
            problems.append((j["id"], r))
            continue
        code = bytes.fromhex(r["cbor"])
        h = b224(bytes([LANG_TAG[m["lang"]]]) + code)
        if h.hex() != r["hash"][m["lang"]]:
            problems.append((j["id"], "script hash: python blake2b-224 differs from the driver's"))
            continue
        steps, outcome = cek_steps(j["term"], m["arity"])
        e = dict(m)
        e.update({"term": j["term"], "code": code, "hash": h, "steps": steps, "outcome": outcome})
        pool.setdefault((m["lang"], m["arity"], m["kind"]), []).append(e)
    return pool, problems


# ------------------------------------------------------------------ random PlutusData


def gen_data(rng, depth=2):
    k = rng.below(10 if depth > 0 else 5)
    if k == 0:
        return {"i": str(rng.range(-50, 50))}
    if k == 1:
        return {"i": str(rng.pick([2 ** 63, -(2 ** 63) - 1, 2 ** 64, 2 ** 70 + 3, -(2 ** 80), 2 ** 64 - 1, 1 << 32]))}
    if k == 2:
        return {"b": rng.bytes(rng.pick([0, 1, 4, 28, 32])).hex()}
    if k == 3:
        return {"b": rng.bytes(rng.pick([64, 65, 100, 130])).hex()}
    if k == 4:
        return {"c": str(rng.pick([0, 1, 2, 6, 7, 8, 127, 128, 1000])), "f": []}
    if k in (5, 6):
        return {"c": str(rng.pick([0, 0, 1, 2, 3, 7, 130])), "f": [gen_data(rng, depth - 1) for _ in range(rng.range(1, 3))]}
    if k == 7:
        return {"l": [gen_data(rng, depth - 1) for _ in range(rng.range(0, 3))]}
    if k == 8:
        return {"m": [[gen_data(rng, 0), gen_data(rng, depth - 1)] for _ in range(rng.range(0, 3))]}
    return {"c": "0", "f": [{"i": str(rng.range(0, 10 ** 6))}, {"b": rng.bytes(8).hex()}]}


# ------------------------------------------------------------------ addresses


def shelley_addr(net, pay, stake):
    if stake is None:
        typ = 6 if pay[0] == "key" else 7
        return bytes([(typ << 4) | net]) + pay[1]
    typ = (1 if pay[0] == "script" else 0) | (2 if stake[0] == "script" else 0)
    return bytes([(typ << 4) | net]) + pay[1] + stake[1]


def reward_addr(net, cred):
    return bytes([((0xE if cred[0] == "key" else 0xF) << 4) | net]) + cred[1]


def cred_obj(cred):
    return [0 if cred[0] == "key" else 1, cred[1]]


def drep_obj(d):
    if d[0] == "key":
        return [0, d[1]]
    if d[0] == "script":
        return [1, d[1]]
    return [2] if d[0] == "abstain" else [3]


VOTER_NO = {("cc", "key"): 0, ("cc", "script"): 1, ("drep", "key"): 2, ("drep", "script"): 3, ("spo", "key"): 4}


# ------------------------------------------------------------------ the model


class TxModel:
    """Plain attributes; see gen_tx for how they are filled."""

    def __init__(self):
        self.net = 0
        self.inputs = []  # {txid, ix, out, use}
        self.ref_inputs = []  # {txid, ix, out}
        self.outputs = []
        self.fee = 0
        self.ttl = None
        self.start = None
        self.mint = []  # [(policy, [(name, qty)])] in body order
        self.withdrawals = []  # [(cred, coin)] in body order
        self.certs = []  # [cert dict] in body order
        self.votes = []  # [(voter (role, kind, hash), [((txid, ix), vote)])]
        self.proposals = []  # [proposal dict]
        self.signers = []
        self.treasury = None
        self.donation = None
        self.uses = []
        self.extra_datums = []
        self.collateral = []  # [(txid, ix)]
        self.collateral_return = None
        self.total_collateral = None
        self.network_id = None
        self.aux_hash = None
        self.vkeys = []  # [(vkey, signature)]
        self.native_scripts = []  # encoder objects of native scripts in the witness set
        self.redeemer_format = "list"
        self.set_tags = False
        self.datum_style = "haskell"
        self.langs = set()

    # -------------------------------------------------------------- ordering rules of the ledger
    # (written from the ledger's data types: TxIn = (TxId, TxIx), Map / Set are ordered by key,
    # Credential orders ScriptHashObj before KeyHashObj, Voter orders committee < drep < pool)

    def sorted_inputs(self):
        return sorted(self.inputs, key=lambda i: (i["txid"], i["ix"]))

    def sorted_ref_inputs(self):
        return sorted(self.ref_inputs, key=lambda i: (i["txid"], i["ix"]))

    def sorted_mint(self):
        return [(p, sorted(assets, key=lambda a: a[0])) for p, assets in sorted(self.mint, key=lambda m: m[0])]

    @staticmethod
    def cred_key(cred):
        return (0 if cred[0] == "script" else 1, cred[1])

    def sorted_withdrawals(self):
        return sorted(self.withdrawals, key=lambda w: self.cred_key(w[0]))

    @staticmethod
    def voter_key(v):
        role, kind, h = v
        return ({"cc": 0, "drep": 1, "spo": 2}[role], 0 if kind == "script" else 1, h)

    def sorted_votes(self):
        return [(v, sorted(acts, key=lambda a: a[0])) for v, acts in sorted(self.votes, key=lambda x: self.voter_key(x[0]))]

    # -------------------------------------------------------------- encoding

    def _set(self, items):
        return Tag(258, list(items)) if self.set_tags else list(items)

    def datum_bytes(self, d):
        # "foreign": valid CBOR that is not in the Haskell / pallas round-trip form (another tool
        # chain wrote the datum): hashes commit to exactly these bytes
        return cbor.data_dumps_foreign(d) if self.datum_style == "foreign" else cbor.data_dumps(d)

    def enc_value(self, out):
        if not out["assets"]:
            return out["coin"]
        return [out["coin"], Map([(p, Map([(n, q) for n, q in assets])) for p, assets in out["assets"]])]

    def enc_output(self, out):
        addr = shelley_addr(self.net, out["pay"], out["stake"])
        if out.get("legacy"):
            items = [addr, self.enc_value(out)]
            if out["datum"] is not None:
                items.append(b256(self.datum_bytes(out["datum"][1])))
            return items
        pairs = [(0, addr), (1, self.enc_value(out))]
        if out["datum"] is not None:
            mode, d = out["datum"]
            if mode == "hash":
                pairs.append((2, [0, b256(self.datum_bytes(d))]))
            else:
                pairs.append((2, [1, Tag(24, self.datum_bytes(d))]))
        if out.get("script_ref") is not None:
            lang, code = out["script_ref"]
            if lang == "native":
                pairs.append((3, Tag(24, cbor.dumps([0, code]))))
            else:
                pairs.append((3, Tag(24, cbor.dumps([LANG_TAG[lang], code]))))
        return Map(pairs)

    def enc_cert(self, c):
        k = c["kind"]
        cred = cred_obj(c["cred"]) if "cred" in c else None
        if k in (0, 1):
            return [k, cred]
        if k == 2:
            return [2, cred, c["pool"]]
        if k == 4:
            return [4, c["pool"], c["epoch"]]
        if k in (7, 8):
            return [k, cred, c["coin"]]
        if k == 9:
            return [9, cred, drep_obj(c["drep"])]
        if k == 10:
            return [10, cred, c["pool"], drep_obj(c["drep"])]
        if k == 11:
            return [11, cred, c["pool"], c["coin"]]
        if k == 12:
            return [12, cred, drep_obj(c["drep"]), c["coin"]]
        if k == 13:
            return [13, cred, c["pool"], drep_obj(c["drep"]), c["coin"]]
        if k == 14:
            return [14, cred, cred_obj(c["hot"])]
        if k == 15:
            return [15, cred, c.get("anchor")]
        if k == 16:
            return [16, cred, c["coin"], c.get("anchor")]
        if k == 17:
            return [17, cred, c["coin"]]
        if k == 18:
            return [18, cred, c.get("anchor")]
        raise ValueError(k)

    def enc_gov_action(self, a):
        k = a["kind"]
        prev = None if a.get("prev") is None else [a["prev"][0], a["prev"][1]]
        if k == "params":
            return [0, prev, Map([(i, v) for i, v in a["params"]]), a.get("guardrail")]
        if k == "hardfork":
            return [1, prev, [a["version"][0], a["version"][1]]]
        if k == "treasury":
            return [2, Map([(reward_addr(self.net, c), coin) for c, coin in a["withdrawals"]]), a.get("guardrail")]
        if k == "noconfidence":
            return [3, prev]
        if k == "info":
            return [6]
        raise ValueError(k)

    def enc_proposal(self, p):
        return [p["deposit"], reward_addr(self.net, p["account"]), self.enc_gov_action(p["action"]), [p["anchor"][0], p["anchor"][1]]]

    def body_obj(self):
        pairs = [
            (0, self._set([[i["txid"], i["ix"]] for i in self.inputs])),
            (1, [self.enc_output(o) for o in self.outputs]),
            (2, self.fee),
        ]
        if self.ttl is not None:
            pairs.append((3, self.ttl))
        if self.certs:
            pairs.append((4, self._set([self.enc_cert(c) for c in self.certs])))
        if self.withdrawals:
            pairs.append((5, Map([(reward_addr(self.net, c), coin) for c, coin in self.withdrawals])))
        if self.aux_hash is not None:
            pairs.append((7, self.aux_hash))
        if self.start is not None:
            pairs.append((8, self.start))
        if self.mint:
            pairs.append((9, Map([(p, Map([(n, q) for n, q in assets])) for p, assets in self.mint])))
        pairs.append((11, b256(b"script data hash is not checked by the simulator")))
        if self.collateral:
            pairs.append((13, self._set([[t, i] for t, i in self.collateral])))
        if self.signers:
            pairs.append((14, self._set(self.signers)))
        if self.network_id is not None:
            pairs.append((15, self.network_id))
        if self.collateral_return is not None:
            pairs.append((16, self.enc_output(self.collateral_return)))
        if self.total_collateral is not None:
            pairs.append((17, self.total_collateral))
        if self.ref_inputs:
            pairs.append((18, self._set([[i["txid"], i["ix"]] for i in self.ref_inputs])))
        if self.votes:
            pairs.append((19, Map([
                ([VOTER_NO[(v[0], v[1])], v[2]], Map([([aid[0], aid[1]], [vote, None]) for aid, vote in acts]))
                for v, acts in self.votes
            ])))
        if self.proposals:
            pairs.append((20, self._set([self.enc_proposal(p) for p in self.proposals])))
        if self.treasury is not None:
            pairs.append((21, self.treasury))
        if self.donation is not None:
            pairs.append((22, self.donation))
        return Map(pairs)

    def finalize(self):
        """redeemer pointers of every script use, body bytes, transaction id."""
        sin = self.sorted_inputs()
        smint = self.sorted_mint()
        swd = self.sorted_withdrawals()
        svotes = self.sorted_votes()
        for u in self.uses:
            p = u["purpose"]
            h = u["script"]["hash"]
            if p == "spend":
                u["index"] = next(k for k, i in enumerate(sin) if i is u["input"])
            elif p == "mint":
                u["index"] = next(k for k, m in enumerate(smint) if m[0] == h)
            elif p == "reward":
                u["index"] = next(k for k, w in enumerate(swd) if w[0] == ("script", h))
            elif p == "cert":
                u["index"] = next(k for k, c in enumerate(self.certs) if c is u["cert"])
            elif p == "vote":
                u["index"] = next(k for k, v in enumerate(svotes) if v[0] == u["voter"])
            elif p == "propose":
                u["index"] = next(k for k, pr in enumerate(self.proposals) if pr is u["proposal"])
            u["tag"] = p
        self.body_bytes = cbor.dumps(self.body_obj())
        self.txid = b256(self.body_bytes)

    def all_utxos(self):
        return self.inputs + self.ref_inputs

    def witness_scripts(self):
        """{lang: [code..]} of the scripts supplied in the witness set (deduplicated)."""
        out = {"v1": [], "v2": [], "v3": []}
        for u in self.uses:
            if u["source"] == "witness":
                s = u["script"]
                if s["code"] not in out[s["lang"]]:
                    out[s["lang"]].append(s["code"])
        return out

    def witness_datums(self):
        ds = []
        for u in self.uses:
            if u["purpose"] == "spend" and u["datum_mode"] == "hash":
                b = self.datum_bytes(u["datum"])
                if b not in ds:
                    ds.append(b)
        for d in self.extra_datums:
            b = self.datum_bytes(d)
            if b not in ds:
                ds.append(b)
        return ds

    def encode(self, variant=None, rng_cls=None):
        """-> (tx hex, [[input hex, output hex]..]). `variant` keys: utxo_perm, wit_perm,
        datum_perm, redeemer_perm (seeds), drop = ("datum", bytes) | ("script", hash) |
        ("utxo", (txid, ix)) | ("redeemer", use number), extra_redeemer = (tag, index, data),
        redeemer_format."""
        v = variant or {}

        def shuffled(xs, key):
            if v.get(key) is None or len(xs) < 2:
                return list(xs)
            return rng_cls(v[key], 77).shuffle(xs)

        drop = v.get("drop")
        scripts = self.witness_scripts()
        datums = self.witness_datums()
        utxos = []
        for i in self.all_utxos():
            out = i["out"]
            if drop and drop[0] == "script" and out.get("script_ref") and out["script_ref"][0] != "native" and b224(bytes([LANG_TAG[out["script_ref"][0]]]) + out["script_ref"][1]) == drop[1]:
                out = dict(out, script_ref=None)
            if drop and drop[0] == "utxo" and (i["txid"], i["ix"]) == drop[1]:
                continue
            utxos.append((cbor.dumps([i["txid"], i["ix"]]), cbor.dumps(self.enc_output(out))))
        utxos = shuffled(utxos, "utxo_perm")
        if drop and drop[0] == "script":
            for lang in scripts:
                scripts[lang] = [c for c in scripts[lang] if b224(bytes([LANG_TAG[lang]]) + c) != drop[1]]
        if drop and drop[0] == "datum":
            datums = [d for d in datums if d != drop[1]]
        redeemers = []
        for k, u in enumerate(self.uses):
            if drop and drop[0] == "redeemer" and drop[1] == k:
                continue
            redeemers.append((TAGNO[u["tag"]], u["index"], u["redeemer"], u["ex_units"]))
        if v.get("extra_redeemer"):
            t, ix, d = v["extra_redeemer"]
            redeemers.append((TAGNO[t], ix, d, [1000, 1000]))
        redeemers = shuffled(redeemers, "redeemer_perm")
        wit = []
        if self.vkeys:
            wit.append((0, self._set([[k, sg] for k, sg in self.vkeys])))
        if self.native_scripts:
            wit.append((1, self._set(list(self.native_scripts))))
        for lang in ("v1",):
            if scripts[lang]:
                wit.append((3, self._set(shuffled(scripts[lang], "wit_perm"))))
        if datums:
            wit.append((4, self._set([Raw(d) for d in shuffled(datums, "datum_perm")])))
        if redeemers:
            fmt = v.get("redeemer_format", self.redeemer_format)
            if fmt == "list":
                wit.append((5, [[t, ix, Raw(cbor.data_dumps(d)), ex] for t, ix, d, ex in redeemers]))
            elif fmt == "list_indef":
                wit.append((5, Indef([[t, ix, Raw(cbor.data_dumps(d)), ex] for t, ix, d, ex in redeemers])))
            else:
                wit.append((5, Map([([t, ix], [Raw(cbor.data_dumps(d)), ex]) for t, ix, d, ex in redeemers])))
        for lang in ("v2", "v3"):
            if scripts[lang]:
                wit.append((WIT_KEY[lang], self._set(shuffled(scripts[lang], "wit_perm"))))
        tx = cbor.dumps([Raw(self.body_bytes), Map(wit), True, None])
        return tx.hex(), [[a.hex(), b.hex()] for a, b in utxos]

    def describe(self):
        return {
            "langs": sorted(self.langs),
            "uses": [
                {"purpose": u["purpose"], "lang": u["script"]["lang"], "kind": u["script"]["kind"], "source": u["source"],
                 "datum_mode": u.get("datum_mode"), "tag": u["tag"], "index": u["index"], "script_hash": u["script"]["hash"].hex()}
                for u in self.uses
            ],
            "redeemer_format": self.redeemer_format,
            "n_inputs": len(self.inputs),
            "n_ref_inputs": len(self.ref_inputs),
        }


# ------------------------------------------------------------------ the generator


def _h28(rng):
    return rng.bytes(28)


def _h32(rng):
    return rng.bytes(32)


def gen_assets(rng, policies=None):
    out = []
    for _ in range(rng.range(1, 3)):
        p = rng.pick(policies) if policies and rng.chance(1, 2) else _h28(rng)
        if any(p == q for q, _ in out):
            continue
        names = []
        for _ in range(rng.range(1, 3)):
            n = rng.bytes(rng.pick([0, 1, 3, 8, 32]))
            if all(n != m for m, _ in names):
                names.append((n, rng.range(1, 10 ** 9)))
        out.append((p, names))
    return out


def gen_output(rng, m, pay=None, allow_inline=True, allow_ref=False, pool=None):
    out = {
        "pay": pay or (rng.pick(["key", "key", "script"]), _h28(rng)),
        "stake": None if rng.chance(1, 2) else (rng.pick(["key", "script"]), _h28(rng)),
        "coin": rng.range(1_000_000, 5_000_000_000),
        "assets": gen_assets(rng) if rng.chance(2, 5) else [],
        "datum": None,
        "script_ref": None,
        "legacy": False,
    }
    r = rng.below(4)
    if r == 0:
        out["datum"] = ("hash", gen_data(rng))
    elif r == 1 and allow_inline:
        out["datum"] = ("inline", gen_data(rng))
    if out["datum"] is None or out["datum"][0] == "hash":
        out["legacy"] = rng.chance(1, 4)
    return out


def pick_script(rng, pool, used, lang, arity, kind):
    cands = [e for e in pool.get((lang, arity, kind), []) if e["hash"] not in used]
    if not cands:
        return None
    e = rng.pick(cands)
    used.add(e["hash"])
    return e


CERT_KINDS_LEGACY = [1, 2, 8]
CERT_KINDS_CONWAY = [1, 2, 8, 9, 10, 11, 12, 13, 14, 15, 16, 17, 18]
NOISE_CERTS_LEGACY = [0, 1, 2, 4, 7, 8]
NOISE_CERTS_CONWAY = [0, 1, 2, 4, 7, 8, 9, 10, 11, 12, 13, 14, 15, 16, 17, 18]


def gen_drep(rng):
    k = rng.below(4)
    if k == 0:
        return ("key", _h28(rng))
    if k == 1:
        return ("script", _h28(rng))
    return ("abstain",) if k == 2 else ("noconfidence",)


def gen_cert(rng, kind, cred):
    c = {"kind": kind, "cred": cred}
    if kind in (2, 10, 11, 13):
        c["pool"] = _h28(rng)
    if kind == 4:
        c = {"kind": 4, "pool": _h28(rng), "epoch": rng.range(1, 1000)}
    if kind in (7, 8, 11, 12, 13, 16, 17):
        c["coin"] = rng.pick([2_000_000, 500_000_000, 1])
    if kind in (9, 10, 12, 13):
        c["drep"] = gen_drep(rng)
    if kind == 14:
        c["hot"] = (rng.pick(["key", "script"]), _h28(rng))
    if kind in (15, 16, 18):
        c["anchor"] = ["https://aiken-lang.org", _h32(rng)] if rng.chance(1, 2) else None
    return c


def gen_tx(rng, pool, opts=None):
    """opts: langs (allowed languages), n_uses, kinds {lang: [kind..]} (probe kinds to draw
    from), purposes (allowed purposes), noise (bool), datum_modes."""
    o = opts or {}
    m = TxModel()
    m.net = rng.below(2)
    m.set_tags = rng.chance(1, 2)
    m.datum_style = "foreign" if rng.chance(1, 3) else "haskell"
    m.redeemer_format = rng.pick(["list", "map", "map", "list_indef"])
    allowed_langs = o.get("langs") or rng.pick([["v3"], ["v3"], ["v2"], ["v1"], ["v2", "v3"], ["v1", "v2"], ["v1", "v2", "v3"], ["v1", "v3"]])
    n_uses = o.get("n_uses") or rng.range(1, 6)
    noise = o.get("noise", True)
    plan = []
    for _ in range(n_uses):
        lang = rng.pick(allowed_langs)
        purposes = o.get("purposes") or (PURPOSES_V3 if lang == "v3" else PURPOSES_V12)
        purposes = [p for p in purposes if lang == "v3" or p in PURPOSES_V12]
        plan.append((lang, rng.pick(purposes)))
    langs = {lang for lang, _ in plan}
    has_v1 = "v1" in langs
    has_v12 = has_v1 or "v2" in langs
    if has_v12:
        # Conway-only body fields cannot be shown to a V1/V2 script: keep V3 uses to the
        # purposes every language knows
        plan = [(lang, p if p in PURPOSES_V12 else rng.pick(PURPOSES_V12)) for lang, p in plan]
    m.langs = langs
    kinds = o.get("kinds") or {"v1": ["echo3", "echo3", "echo3", "echo", "unit", "pvsens"], "v2": ["echo3", "echo3", "echo3", "echo", "unit", "pvsens"],
                               "v3": ["trace", "trace", "trace", "trace", "unit", "pvsens"]}
    used = set()
    guardrail = None
    for lang, purpose in plan:
        arity = arity_of(lang, purpose)
        shareable = [u["script"] for u in m.uses if u["purpose"] == "spend" and u["script"]["lang"] == lang]
        if purpose == "propose" and guardrail is not None:
            script = guardrail
        elif purpose == "spend" and shareable and o.get("share", True) and rng.chance(1, 4):
            script = rng.pick(shareable)  # several inputs locked by one script
        else:
            script = pick_script(rng, pool, used, lang, arity, rng.pick(kinds[lang]))
            if script is None:
                continue
            if purpose == "propose":
                guardrail = script
        u = {"purpose": purpose, "script": script, "source": "witness", "redeemer": gen_data(rng), "ex_units": [rng.range(0, 10 ** 7), rng.range(0, 10 ** 10)]}
        if not has_v1 and rng.chance(2, 5) and o.get("ref_scripts", True):
            u["source"] = rng.pick(["ref", "ref", "ref_spent"])
        m.uses.append(u)
    for u in m.uses:
        first = next(x for x in m.uses if x["script"] is u["script"])
        u["source"] = first["source"]
    if guardrail is not None:
        # one script, one source
        src = next(u["source"] for u in m.uses if u["script"] is guardrail)
        for u in m.uses:
            if u["script"] is guardrail:
                u["source"] = src

    # ---- inputs
    txids = [_h32(rng) for _ in range(3)]
    # same first byte, different tail; and ids that differ in the first byte only
    txids.append(txids[0][:31] + bytes([txids[0][31] ^ 1]))
    txids.append(bytes([txids[0][0] ^ 0x80]) + txids[0][1:])
    taken = set()

    def fresh_ref():
        while True:
            t = rng.pick(txids)
            ix = rng.pick([0, 1, 2, 3, 10, 255, 256, 300])
            if (t, ix) not in taken:
                taken.add((t, ix))
                return t, ix

    for u in m.uses:
        if u["purpose"] != "spend":
            continue
        lang = u["script"]["lang"]
        modes = {"v1": ["hash"], "v2": ["hash", "inline"], "v3": ["hash", "inline", "none"]}[lang]
        if has_v1:
            modes = [x for x in modes if x != "inline"]
        if o.get("datum_modes"):
            modes = [x for x in modes if x in o["datum_modes"]] or modes
        mode = rng.pick(modes)
        u["datum_mode"] = mode
        u["datum"] = gen_data(rng) if mode != "none" else None
        out = gen_output(rng, m, pay=("script", u["script"]["hash"]), allow_inline=not has_v1)
        out["datum"] = None if mode == "none" else (mode, u["datum"])
        out["legacy"] = mode == "hash" and rng.chance(1, 4)
        t, ix = fresh_ref()
        inp = {"txid": t, "ix": ix, "out": out, "use": u}
        u["input"] = inp
        m.inputs.append(inp)
    n_key_inputs = rng.range(0 if m.inputs else 1, 2) if noise else (0 if m.inputs else 1)
    for _ in range(n_key_inputs):
        out = gen_output(rng, m, pay=("key", _h28(rng)), allow_inline=not has_v1)
        t, ix = fresh_ref()
        m.inputs.append({"txid": t, "ix": ix, "out": out, "use": None})
    # ---- reference scripts
    for u in m.uses:
        if u["source"] == "ref":
            already = [i for i in m.ref_inputs if i["out"].get("script_ref") and i["out"]["script_ref"][1] == u["script"]["code"]]
            if already:
                continue
            out = gen_output(rng, m, pay=("key", _h28(rng)))
            out["legacy"] = False
            out["script_ref"] = (u["script"]["lang"], u["script"]["code"])
            t, ix = fresh_ref()
            m.ref_inputs.append({"txid": t, "ix": ix, "out": out})
        elif u["source"] == "ref_spent":
            already = [i for i in m.inputs if i["out"].get("script_ref") and i["out"]["script_ref"][1] == u["script"]["code"]]
            if already:
                continue
            holders = [i for i in m.inputs if i["use"] is None and not i["out"].get("script_ref")]
            if holders:
                h = rng.pick(holders)
                h["out"]["legacy"] = False
                h["out"]["script_ref"] = (u["script"]["lang"], u["script"]["code"])
            else:
                out = gen_output(rng, m, pay=("key", _h28(rng)))
                out["legacy"] = False
                out["script_ref"] = (u["script"]["lang"], u["script"]["code"])
                t, ix = fresh_ref()
                m.inputs.append({"txid": t, "ix": ix, "out": out, "use": None})
    if noise and not has_v1 and rng.chance(1, 2):
        for _ in range(rng.range(1, 2)):
            out = gen_output(rng, m)
            t, ix = fresh_ref()
            m.ref_inputs.append({"txid": t, "ix": ix, "out": out})
    m.inputs = rng.shuffle(m.inputs)
    m.ref_inputs = rng.shuffle(m.ref_inputs)

    # ---- outputs
    for _ in range(rng.range(1, 3) if noise else 1):
        out = gen_output(rng, m, allow_inline=not has_v1)
        if out["datum"] is not None and out["datum"][0] == "hash" and rng.chance(1, 2):
            m.extra_datums.append(out["datum"][1])  # supplemental datum
        m.outputs.append(out)
    m.fee = rng.range(150_000, 3_000_000)
    if rng.chance(1, 2):
        m.start = 4492800 + rng.range(0, 10 ** 8)
    if rng.chance(1, 2):
        m.ttl = 4492800 + 10 ** 8 + rng.range(1, 10 ** 6)
    if noise and rng.chance(1, 2):
        m.signers = [_h28(rng) for _ in range(rng.range(1, 3))]
    if noise and rng.chance(1, 2):
        # what a real script transaction carries besides: collateral, key witnesses, ..
        m.collateral = [(_h32(rng), rng.below(4)) for _ in range(rng.range(1, 2))]
        if rng.chance(1, 2):
            m.collateral_return = gen_output(rng, m, pay=("key", _h28(rng)), allow_inline=False)
            m.collateral_return["datum"] = None
            m.total_collateral = rng.range(1_000_000, 9_000_000)
        if rng.chance(1, 2):
            m.network_id = m.net
        if rng.chance(1, 3):
            m.aux_hash = _h32(rng)
        m.vkeys = [(_h32(rng), rng.bytes(64)) for _ in range(rng.range(1, 2))]

    # ---- mint
    for u in m.uses:
        if u["purpose"] == "mint":
            names = []
            for _ in range(rng.range(1, 3)):
                n = rng.bytes(rng.pick([0, 2, 5, 32]))
                if all(n != x for x, _ in names):
                    names.append((n, rng.pick([1, -1, 1000, -5, 2 ** 62])))
            m.mint.append((u["script"]["hash"], names))
    m.mint = rng.shuffle(m.mint)

    # ---- withdrawals
    for u in m.uses:
        if u["purpose"] == "reward":
            m.withdrawals.append((("script", u["script"]["hash"]), rng.pick([0, 1, 5_000_000])))
    if noise and (m.withdrawals or rng.chance(1, 3)):
        for _ in range(rng.range(0, 2)):
            m.withdrawals.append((("key", _h28(rng)), rng.range(0, 10 ** 7)))
    m.withdrawals = rng.shuffle(m.withdrawals)

    # ---- certificates
    for u in m.uses:
        if u["purpose"] == "cert":
            kind = rng.pick(CERT_KINDS_LEGACY if has_v12 else CERT_KINDS_CONWAY)
            c = gen_cert(rng, kind, ("script", u["script"]["hash"]))
            u["cert"] = c
            m.certs.append(c)
    if noise and (m.certs or rng.chance(1, 3)):
        for _ in range(rng.range(0, 2)):
            kind = rng.pick(NOISE_CERTS_LEGACY if has_v12 else NOISE_CERTS_CONWAY)
            m.certs.append(gen_cert(rng, kind, ("key", _h28(rng))))
    m.certs = rng.shuffle(m.certs)

    # ---- votes
    if not has_v12:
        def gen_acts():
            acts = []
            for _ in range(rng.range(1, 3)):
                aid = (rng.pick(txids), rng.pick([0, 1, 2, 300]))
                if all(aid != a for a, _ in acts):
                    acts.append((aid, rng.below(3)))
            return acts

        for u in m.uses:
            if u["purpose"] == "vote":
                voter = (rng.pick(["cc", "drep"]), "script", u["script"]["hash"])
                u["voter"] = voter
                m.votes.append((voter, gen_acts()))
        if noise and (m.votes or rng.chance(1, 4)):
            for _ in range(rng.range(0, 2)):
                role = rng.pick(["cc", "drep", "spo"])
                m.votes.append(((role, "key", _h28(rng)), gen_acts()))
        m.votes = rng.shuffle(m.votes)

        # ---- proposals
        def gen_proposal(action):
            return {"deposit": rng.pick([100_000_000_000, 1, 5]), "account": (rng.pick(["key", "script"]), _h28(rng)), "action": action,
                    "anchor": ["https://aiken-lang.org", _h32(rng)]}

        for u in m.uses:
            if u["purpose"] == "propose":
                if rng.chance(1, 2):
                    wds = []
                    for _ in range(rng.range(1, 3)):
                        wds.append(((rng.pick(["key", "script"]), _h28(rng)), rng.range(1, 10 ** 9)))
                    action = {"kind": "treasury", "withdrawals": wds, "guardrail": u["script"]["hash"]}
                else:
                    params = [(0, rng.range(1, 100)), (1, rng.range(1, 10 ** 6)), (2, 90112), (3, 16384), (5, 2_000_000), (17, 4310), (22, 5000), (24, 3), (27, 7), (30, 10 ** 11)]
                    params = [p for p in params if rng.chance(1, 3)] or [(0, 44)]
                    action = {"kind": "params", "prev": None if rng.chance(1, 2) else (rng.pick(txids), rng.below(3)), "params": params, "guardrail": u["script"]["hash"]}
                p = gen_proposal(action)
                u["proposal"] = p
                m.proposals.append(p)
        if noise and (m.proposals or rng.chance(1, 4)):
            for _ in range(rng.range(0, 2)):
                k = rng.below(4)
                if k == 0:
                    action = {"kind": "info"}
                elif k == 1:
                    action = {"kind": "noconfidence", "prev": None if rng.chance(1, 2) else (rng.pick(txids), rng.below(3))}
                elif k == 2:
                    action = {"kind": "treasury", "withdrawals": [((rng.pick(["key", "script"]), _h28(rng)), rng.range(1, 10 ** 9))], "guardrail": None}
                else:
                    action = {"kind": "hardfork", "prev": None, "version": (rng.range(9, 12), 0)}
                m.proposals.append(gen_proposal(action))
        m.proposals = rng.shuffle(m.proposals)
        if noise and rng.chance(1, 3):
            m.treasury = rng.range(0, 10 ** 15)
        if noise and rng.chance(1, 3):
            m.donation = rng.range(1, 10 ** 9)

    m.uses = rng.shuffle(m.uses)
    m.finalize()
    return m
