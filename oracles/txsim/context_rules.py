"""The script context the ledger shows to a Plutus script, rebuilt from a txgen.TxModel.

Written from the ledger's translation rules (cardano-ledger `TxInfo` modules and the
PlutusLedgerApi V1/V2/V3 data types), independently of /repo/crates/uplc/src/tx:

  * inputs and reference inputs are sets of TxIn: ascending (transaction id bytes, index)
  * mint, the assets of a value, withdrawals, votes, datums and required signers are maps /
    sets: ascending keys (Credential: script hash before key hash; Voter: committee < drep
    < pool, script before key inside a role; GovActionId: (transaction id, index))
  * outputs, certificates and proposals keep the order of the transaction body
  * redeemers are keyed by purpose in the order spend < mint < cert < reward < vote <
    propose, ascending index, and index i of a tag points into the ORDERED collection
  * V1/V2 values always carry an ada entry (zero for mint), V3 drops a zero ada entry and
    has no ada entry in mint; V1/V2 wrap transaction ids in a constructor, V3 does not
  * the datum of a spent output: inline datum, or the witness datum with the stated hash

Assumption (documented in FINDINGS.md, not asserted either way): certificates with a deposit
show `Nothing` for the deposit (ledger behaviour during the Conway bootstrap phase).

`expected_context(model, use, slot)` -> JSON data; `diff(a, b)` -> first differing path.
"""
from .txgen import b224, b256, LANG_TAG


def C(ix, *fields):
    return {"c": str(ix), "f": list(fields)}


def B(b):
    return {"b": bytes(b).hex()}


def I(n):
    return {"i": str(int(n))}


def L(xs):
    return {"l": list(xs)}


def M(pairs):
    return {"m": [[k, v] for k, v in pairs]}


NOTHING = C(1)


def just(x):
    return C(0, x)


def maybe(x, f=lambda v: v):
    return NOTHING if x is None else just(f(x))


FALSE = C(0)
TRUE = C(1)


def credential(cred):
    return C(0, B(cred[1])) if cred[0] == "key" else C(1, B(cred[1]))


def staking_hash(cred):
    return C(0, credential(cred))


def address(out):
    stake = NOTHING if out["stake"] is None else just(staking_hash(out["stake"]))
    return C(0, credential(out["pay"]), stake)


def value(coin, assets, zero_ada):
    pairs = []
    if coin > 0 or zero_ada:
        pairs.append((B(b""), M([(B(b""), I(coin))])))
    for p, names in sorted(assets, key=lambda a: a[0]):
        pairs.append((B(p), M([(B(n), I(q)) for n, q in sorted(names, key=lambda a: a[0])])))
    return M(pairs)


def datum_hash_of(model, d):
    return b256(model.datum_bytes(d))


def script_ref_hash(out):
    ref = out.get("script_ref")
    if ref is None:
        return None
    lang, code = ref
    return b224(bytes([LANG_TAG[lang]]) + code)


def out_ref(lang, txid, ix):
    if lang == "v3":
        return C(0, B(txid), I(ix))
    return C(0, C(0, B(txid)), I(ix))


def tx_out(model, lang, out):
    if lang == "v1":
        dh = NOTHING
        if out["datum"] is not None and out["datum"][0] == "hash":
            dh = just(B(datum_hash_of(model, out["datum"][1])))
        return C(0, address(out), value(out["coin"], out["assets"], True), dh)
    if out["datum"] is None:
        od = C(0)
    elif out["datum"][0] == "hash":
        od = C(1, B(datum_hash_of(model, out["datum"][1])))
    else:
        od = C(2, out["datum"][1])
    return C(0, address(out), value(out["coin"], out["assets"], lang != "v3"), od, maybe(script_ref_hash(out), B))


def tx_in_info(model, lang, i):
    return C(0, out_ref(lang, i["txid"], i["ix"]), tx_out(model, lang, i["out"]))


def drep(d):
    if d[0] in ("key", "script"):
        return C(0, credential(d))
    return C(1) if d[0] == "abstain" else C(2)


def cert_v3(c):
    k = c["kind"]
    if k == 4:
        return C(8, B(c["pool"]), I(c["epoch"]))
    cred = credential(c["cred"])
    if k in (0, 7):
        return C(0, cred, NOTHING)
    if k in (1, 8):
        return C(1, cred, NOTHING)
    if k == 2:
        return C(2, cred, C(0, B(c["pool"])))
    if k == 9:
        return C(2, cred, C(1, drep(c["drep"])))
    if k == 10:
        return C(2, cred, C(2, B(c["pool"]), drep(c["drep"])))
    if k == 11:
        return C(3, cred, C(0, B(c["pool"])), I(c["coin"]))
    if k == 12:
        return C(3, cred, C(1, drep(c["drep"])), I(c["coin"]))
    if k == 13:
        return C(3, cred, C(2, B(c["pool"]), drep(c["drep"])), I(c["coin"]))
    if k == 14:
        return C(9, cred, credential(c["hot"]))
    if k == 15:
        return C(10, cred)
    if k == 16:
        return C(4, cred, I(c["coin"]))
    if k == 17:
        return C(6, cred, I(c["coin"]))
    if k == 18:
        return C(5, cred)
    raise ValueError(k)


def cert_v12(c):
    k = c["kind"]
    if k == 4:
        return C(4, B(c["pool"]), I(c["epoch"]))
    sc = staking_hash(c["cred"])
    if k in (0, 7):
        return C(0, sc)
    if k in (1, 8):
        return C(1, sc)
    if k == 2:
        return C(2, sc, B(c["pool"]))
    raise ValueError(f"certificate {k} has no V1/V2 translation")


def voter(v):
    role, kind, h = v
    if role == "spo":
        return C(2, B(h))
    return C(0 if role == "cc" else 1, credential((kind, h)))


def gov_action_id(a):
    return C(0, B(a[0]), I(a[1]))


def gov_action(model, a):
    k = a["kind"]
    if k == "params":
        return C(0, maybe(a.get("prev"), gov_action_id), M([(I(i), I(v)) for i, v in sorted(a["params"])]), maybe(a.get("guardrail"), B))
    if k == "hardfork":
        return C(1, maybe(a.get("prev"), gov_action_id), C(0, I(a["version"][0]), I(a["version"][1])))
    if k == "treasury":
        wds = sorted(a["withdrawals"], key=lambda w: model.cred_key(w[0]))
        return C(2, M([(credential(c), I(coin)) for c, coin in wds]), maybe(a.get("guardrail"), B))
    if k == "noconfidence":
        return C(3, maybe(a.get("prev"), gov_action_id))
    if k == "info":
        return C(6)
    raise ValueError(k)


def proposal(model, p):
    return C(0, I(p["deposit"]), credential(p["account"]), gov_action(model, p["action"]))


def bound_lower(t):
    if t is None:
        return C(0, C(0), TRUE)
    return C(0, C(1, I(t)), TRUE)


def bound_upper(t):
    if t is None:
        return C(0, C(2), TRUE)
    return C(0, C(1, I(t)), FALSE)


def posix(slot, sc):
    zero_time, zero_slot, slot_length = sc
    return zero_time + (slot - zero_slot) * slot_length


def valid_range(model, sc):
    lo = None if model.start is None else posix(model.start, sc)
    hi = None if model.ttl is None else posix(model.ttl, sc)
    return C(0, bound_lower(lo), bound_upper(hi))


def purpose(model, lang, u, with_datum=False):
    """ScriptPurpose (keys of the redeemers map, V1/V2 context) or, with_datum, V3 ScriptInfo."""
    p = u["purpose"]
    h = u["script"]["hash"]
    if p == "mint":
        return C(0, B(h))
    if p == "spend":
        ref = out_ref(lang, u["input"]["txid"], u["input"]["ix"])
        if with_datum:
            return C(1, ref, maybe(u.get("datum")))
        return C(1, ref)
    if p == "reward":
        return C(2, credential(("script", h)) if lang == "v3" else staking_hash(("script", h)))
    if p == "cert":
        if lang == "v3":
            return C(3, I(u["index"]), cert_v3(u["cert"]))
        return C(3, cert_v12(u["cert"]))
    if p == "vote":
        return C(4, voter(u["voter"]))
    if p == "propose":
        return C(5, I(u["index"]), proposal(model, u["proposal"]))
    raise ValueError(p)


TAG_ORDER = {"spend": 0, "mint": 1, "cert": 2, "reward": 3, "vote": 4, "propose": 5}


def redeemers_map(model, lang, present=None):
    uses = [u for k, u in enumerate(model.uses) if present is None or k in present]
    uses = sorted(uses, key=lambda u: (TAG_ORDER[u["tag"]], u["index"]))
    return M([(purpose(model, lang, u), u["redeemer"]) for u in uses])


def datums(model):
    ds = {}
    for b in model.witness_datums():
        ds[b256(b)] = b
    from . import cbor

    return [(h, cbor.data_loads(ds[h])) for h in sorted(ds)]


def tx_info(model, lang, sc):
    ins = L([tx_in_info(model, lang, i) for i in model.sorted_inputs()])
    outs = L([tx_out(model, lang, o) for o in model.outputs])
    mint_assets = model.sorted_mint()
    signers = L([B(s) for s in sorted(model.signers)])
    data = datums(model)
    if lang == "v1":
        return C(
            0,
            ins,
            outs,
            value(model.fee, [], True),
            value(0, mint_assets, True),
            L([cert_v12(c) for c in model.certs]),
            L([C(0, staking_hash(c), I(coin)) for c, coin in model.sorted_withdrawals()]),
            valid_range(model, sc),
            signers,
            L([C(0, B(h), d) for h, d in data]),
            C(0, B(model.txid)),
        )
    refs = L([tx_in_info(model, lang, i) for i in model.sorted_ref_inputs()])
    if lang == "v2":
        return C(
            0,
            ins,
            refs,
            outs,
            value(model.fee, [], True),
            value(0, mint_assets, True),
            L([cert_v12(c) for c in model.certs]),
            M([(staking_hash(c), I(coin)) for c, coin in model.sorted_withdrawals()]),
            valid_range(model, sc),
            signers,
            redeemers_map(model, lang),
            M([(B(h), d) for h, d in data]),
            C(0, B(model.txid)),
        )
    return C(
        0,
        ins,
        refs,
        outs,
        I(model.fee),
        value(0, mint_assets, False),
        L([cert_v3(c) for c in model.certs]),
        M([(credential(c), I(coin)) for c, coin in model.sorted_withdrawals()]),
        valid_range(model, sc),
        signers,
        redeemers_map(model, lang),
        M([(B(h), d) for h, d in data]),
        B(model.txid),
        M([(voter(v), M([(gov_action_id(a), C(vote)) for a, vote in acts])) for v, acts in model.sorted_votes()]),
        L([proposal(model, p) for p in model.proposals]),
        maybe(model.treasury, I),
        maybe(model.donation, I),
    )


FIELDS = {
    "v1": ["inputs", "outputs", "fee", "mint", "certificates", "withdrawals", "valid_range", "signatories", "data", "id"],
    "v2": ["inputs", "reference_inputs", "outputs", "fee", "mint", "certificates", "withdrawals", "valid_range", "signatories", "redeemers", "data", "id"],
    "v3": ["inputs", "reference_inputs", "outputs", "fee", "mint", "certificates", "withdrawals", "valid_range", "signatories", "redeemers", "data", "id",
           "votes", "proposal_procedures", "current_treasury_amount", "treasury_donation"],
}


def expected_context(model, use, sc):
    lang = use["script"]["lang"]
    info = tx_info(model, lang, sc)
    if lang == "v3":
        return C(0, info, use["redeemer"], purpose(model, lang, use, with_datum=True))
    return C(0, info, purpose(model, lang, use))


def diff(a, b, path=""):
    """first path at which two JSON data values differ (None when equal)."""
    if type(a) is not type(b):
        return path or "/"
    if isinstance(a, dict):
        ka = sorted(k for k in a if k not in ("indef", "enc", "raw"))
        kb = sorted(k for k in b if k not in ("indef", "enc", "raw"))
        if ka != kb:
            return (path or "/") + f" (shape {ka} vs {kb})"
        for k in ka:
            d = diff(a[k], b[k], f"{path}/{k}")
            if d:
                return d
        return None
    if isinstance(a, list):
        if len(a) != len(b):
            return (path or "/") + f" (length {len(a)} vs {len(b)})"
        for i, (x, y) in enumerate(zip(a, b)):
            d = diff(x, y, f"{path}/{i}")
            if d:
                return d
        return None
    return None if a == b else (path or "/")


def field_of_path(lang, path):
    """'/f/0/f/3/..' -> name of the TxInfo field (or 'redeemer' / 'script_info' / 'purpose')."""
    parts = [p for p in path.split(" ")[0].split("/") if p]
    if len(parts) >= 2 and parts[0] == "f":
        top = int(parts[1])
        if top == 0:
            if len(parts) >= 4 and parts[2] == "f":
                ix = int(parts[3])
                names = FIELDS[lang]
                return names[ix] if ix < len(names) else f"tx_info[{ix}]"
            return "tx_info"
        if lang == "v3":
            return {1: "redeemer", 2: "script_info"}.get(top, f"context[{top}]")
        return {1: "purpose"}.get(top, f"context[{top}]")
    return "context"
