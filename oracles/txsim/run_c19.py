#!/usr/bin/env python3
"""C19 — phase-two transaction simulation (runtime monitor with probe scripts).

    run_c19.py --tier quick|thorough --seed S [--json]
    run(tier, seed) -> dict(evaluations, distinct, samples, violations, violation_counts,
                            inconclusive, counters)

Workloads: (a) the transactions recorded in /repo/crates/uplc/src/tx/tests.rs and in the
test module of tx/script_context.rs, harvested with regexes at run time; (b) synthetic
Conway transactions written as raw CBOR by txsim.txgen around probe scripts.
Checks (each violation key starts with `C19|`):
  units       reported ex-units == EvalResult cost == cost of the applied script evaluated
              directly under a fresh budget == first principles for builtin-free probes
  handover    each redeemer starts from the budget the previous ones left; exact budget
              succeeds, one unit less fails at the right redeemer
  verdict     fails iff a script fails / something needed is missing; never panics
  permutation order of resolved inputs, witness scripts, datums (and redeemers) is immaterial
  context     the context a script receives == the context rebuilt in context_rules.py
"""
import argparse
import json
import os
import re
import sys
import time

sys.path.insert(0, os.path.dirname(os.path.dirname(os.path.abspath(__file__))))

import common  # noqa: E402
from common import Rng  # noqa: E402
from txsim import cbor, txgen  # noqa: E402
from txsim import context_rules as CR  # noqa: E402

REPO = common.REPO
TESTS_RS = os.path.join(REPO, "crates/uplc/src/tx/tests.rs")
CONTEXT_RS = os.path.join(REPO, "crates/uplc/src/tx/script_context.rs")
CONFORMANCE_RS = os.path.join(REPO, "crates/uplc/tests/conformance.rs")

KNOWN_HANDOVER = "C19|budget-handover|remaining-budget-ignored-without-cost-models"
DEFAULT_BUDGET = (10_000_000_000, 16_500_000)  # ExBudget::default(): what the defect substitutes
MAINNET_SLOT = [1596059091000, 4492800, 1000]
BIG = 10 ** 12
MALFORMED = ("FragmentDecode", "WrongEra", "Address", "FlatDecode")
TAG_DISPLAY = {"spend": "Spend", "mint": "Mint", "cert": "Publish", "reward": "Withdraw", "vote": "Vote", "propose": "Propose"}


# ------------------------------------------------------------------ harvest


def _ints(text):
    return [int(x.replace("_", "")) for x in re.findall(r"-?\d[\d_]*", text)]


def harvest_tests_rs():
    src = open(TESTS_RS).read()
    out = []
    blocks = re.split(r"#\[test\]\s*fn\s+(\w+)\s*\(\)\s*\{", src)
    for name, body in zip(blocks[1::2], blocks[2::2]):
        m = re.search(r'let tx_bytes = hex::decode\(\s*"([0-9a-fA-F]+)"', body)
        if not m:
            continue
        rec = {"name": name, "source": "tests.rs", "tx": m.group(1).lower()}
        mo = re.search(r'let raw_outputs = hex::decode\(\s*"([0-9a-fA-F]+)"', body)
        mi = re.search(r'let raw_inputs = hex::decode\(\s*"([0-9a-fA-F]+)"', body)
        if not mo:
            continue
        outs = cbor.split_array(bytes.fromhex(mo.group(1)))
        if mi:
            ins = cbor.split_array(bytes.fromhex(mi.group(1)))
        else:
            # the test takes the inputs from the transaction body
            tx = cbor.loads(bytes.fromhex(rec["tx"]))
            body_inputs = cbor.map_get(tx[0], 0)
            if isinstance(body_inputs, cbor.Tag):
                body_inputs = body_inputs.value
            ins = [cbor.dumps(i) for i in body_inputs]
        rec["utxos"] = [[a.hex(), b.hex()] for a, b in zip(ins, outs)]
        sc = [re.search(rf"{k}:\s*(\d+)", body) for k in ("zero_time", "zero_slot", "slot_length")]
        rec["slot"] = [int(x.group(1)) for x in sc] if all(sc) else MAINNET_SLOT
        mc = re.search(r"let costs: Vec<i64> = vec!\[(.*?)\];", body, re.S)
        costs = _ints(mc.group(1)) if mc else None
        rec["costs"] = None
        if costs:
            ml = re.search(r"plutus_(v\d): Some\(costs\)", body)
            rec["costs"] = {ml.group(1): costs} if ml else None
        mb = re.search(r"let initial_budget = ExBudget \{\s*cpu:\s*(\d+),\s*mem:\s*(\d+)", body)
        rec["budget"] = [int(mb.group(1)), int(mb.group(2))] if mb else list(DEFAULT_BUDGET)
        mp = re.search(r"&slot_config,\s*(true|false),", body)
        rec["phase_one"] = bool(mp and mp.group(1) == "true")
        me = re.search(r"let expected_budgets: Vec<ExBudget> = vec!\[(.*?)\];", body, re.S)
        if me:
            rec["expect"] = "units"
            rec["units"] = [[int(a), int(b)] for a, b in re.findall(r"mem:\s*(\d+),\s*cpu:\s*(\d+)", me.group(1))]
        elif re.search(r"\.is_err\(\)", body):
            rec["expect"] = "err"
        elif re.search(r"\.unwrap\(\);", body):
            rec["expect"] = "ok"
        else:
            rec["expect"] = None
        out.append(rec)
    return out


def harvest_context_rs():
    src = open(CONTEXT_RS).read()
    out = []
    hexlit = r'"((?:[0-9a-fA-F]|\\\s*\n\s*)*)"'
    for m in re.finditer(r"fn (\w+)\(\) \{(.*?)fixture_tx_info\(\s*" + hexlit + r",\s*" + hexlit + r",\s*" + hexlit, src, re.S):
        name = m.group(1)
        tx, ins, outs = (re.sub(r"[^0-9a-fA-F]", "", m.group(k)).lower() for k in (3, 4, 5))
        try:
            i = cbor.split_array(bytes.fromhex(ins))
            o = cbor.split_array(bytes.fromhex(outs))
        except Exception:
            continue
        out.append({"name": name, "source": "script_context.rs", "tx": tx, "utxos": [[a.hex(), b.hex()] for a, b in zip(i, o)],
                    "slot": MAINNET_SLOT, "costs": None, "budget": list(DEFAULT_BUDGET), "phase_one": False, "expect": None})
    return out


def harvest_cost_vectors(recorded):
    vecs = {}
    for r in recorded:
        for lang, v in (r.get("costs") or {}).items():
            vecs.setdefault(lang, v)
    try:
        s = open(CONFORMANCE_RS).read()
        m = re.search(r"const V3_PV11_COSTS: &\[i64\] = &\[(.*?)\];", s, re.S)
        if m:
            vecs["v3"] = _ints(m.group(1))
    except OSError:
        pass
    return vecs


def tweak(vec, lang="v1"):
    """same vector with distinctive machine step costs (positions 17..32 of every language's
    parameter list: cekApply, cekBuiltin, cekConst, cekDelay, cekForce, cekLam, cekStartup,
    cekVar), different for every language and every step kind: a simulator that picks the
    vector of another language, or charges one step kind for another, gives other units."""
    hit = _TWEAKED.get((id(vec), lang))
    if hit is not None and hit[0] is vec:
        return hit[1]
    k = {"v1": 0, "v2": 1, "v3": 2}[lang]
    v = list(vec)
    base = [17000, 110, 16500, 105, 18000, 120, 15000, 90, 15500, 95, 19000, 130, 333, 77, 21000, 140]
    v[17:33] = [x + (1000 * k if i % 2 == 0 else 7 * k) for i, x in enumerate(base)]
    _TWEAKED[(id(vec), lang)] = (vec, v)
    return v


_TWEAKED = {}


STEP_POS = {"apply": 17, "builtin": 19, "const": 21, "delay": 23, "force": 25, "lam": 27, "startup": 29, "var": 31}


def machine_costs(vec):
    if vec is None:
        return {k: (100, 100) if k == "startup" else (16000, 100) for k in STEP_POS}
    return {k: (vec[p], vec[p + 1]) for k, p in STEP_POS.items()}


def first_principles(steps, vec):
    mc = machine_costs(vec)
    cpu, mem = mc["startup"]
    for k, n in steps.items():
        cpu += n * mc[k][0]
        mem += n * mc[k][1]
    return [cpu, mem]


# ------------------------------------------------------------------ bookkeeping


class Monitor:
    def __init__(self, tier, seed):
        self.tier = tier
        self.seed = seed
        self.evaluations = 0
        self.distinct = set()
        self.samples = []
        self.violations = []
        self.violation_counts = {}
        self.inconclusive = {}
        self.counters = {"recorded_txs": 0, "synthetic_txs": 0, "redeemers_evaluated": 0, "purposes": {}, "languages": {}, "probe_kinds": {},
                         "permutations": 0, "handover_cases": 0, "missing_piece_cases": 0, "contexts_checked": 0, "contexts_echoed": 0,
                         "failing_script_cases": 0, "driver_jobs": 0, "units_checked": 0, "first_principles_checked": 0,
                         "script_sources": {}, "datum_modes": {}, "redeemer_formats": {}, "cost_modes": {}, "protocol_versions": {},
                         "recorded_expected_units_matched": 0, "simulations_ok": 0, "simulations_err": 0}

    def count(self, name, n=1, sub=None):
        if sub is None:
            self.counters[name] = self.counters.get(name, 0) + n
        else:
            d = self.counters.setdefault(name, {})
            d[sub] = d.get(sub, 0) + n

    def held(self, case=None, sample=None):
        self.evaluations += 1
        if case is not None:
            self.distinct.add(case)
        if sample is not None and len(self.samples) < 8:
            self.samples.append(sample)

    def inconc(self, reason):
        self.evaluations += 1
        self.inconclusive[reason] = self.inconclusive.get(reason, 0) + 1

    def violation(self, key, witness):
        key = re.sub(r"(\.rs):\d+(:\d+)?", r"\1", key)
        self.evaluations += 1
        n = self.violation_counts.get(key, 0)
        self.violation_counts[key] = n + 1
        if n < 3:
            self.violations.append((key, witness))

    def result(self):
        return {
            "evaluations": self.evaluations,
            "distinct": len(self.distinct),
            "samples": self.samples,
            "violations": self.violations,
            "violation_counts": dict(sorted(self.violation_counts.items())),
            "inconclusive": dict(sorted(self.inconclusive.items())),
            "counters": self.counters,
        }


BATCH = 24


def run_batched(jobs, batch=BATCH):
    """common.run_jobs with several jobs per line (the driver's `batch` op). A batch whose
    process died or timed out is re-run job by job so that the death is attributed."""
    if not jobs:
        return {}
    lines = [{"id": f"batch|{n}", "op": "batch", "jobs": jobs[i:i + batch]} for n, i in enumerate(range(0, len(jobs), batch))]
    shards = min(common.NCPU, max(1, len(lines)))
    res = common.run_jobs("tx-run", lines, shards=shards)
    out = {}
    retry = []
    for line in lines:
        r = res.get(line["id"]) or {}
        if "results" in r:
            for x in r["results"]:
                out[x["id"]] = x
        else:
            retry.extend(line["jobs"])
    if retry:
        out.update(common.run_jobs("tx-run", retry))
    return out


_COST_HEX = {}


def cost_mdls_hex(costs):
    if not costs:
        return None
    key = tuple((l, id(costs[l])) for l in ("v1", "v2", "v3") if l in costs)
    hit = _COST_HEX.get(key)
    if hit is not None and hit[0] == [costs[l] for l, _ in key]:
        return hit[1]
    pairs = [(txgen.LANG_TAG[l] - 1, list(costs[l])) for l in ("v1", "v2", "v3") if l in costs]
    hx = cbor.dumps(cbor.Map(pairs)).hex()
    _COST_HEX[key] = ([costs[l] for l, _ in key], hx)
    return hx


def job(jid, tx, utxos, cfg, **flags):
    j = {"id": jid, "op": "phase2", "tx": tx, "utxos": utxos, "cost_mdls": cost_mdls_hex(cfg.get("costs")), "budget": list(cfg["budget"]),
         "slot": cfg["slot"], "pv": cfg.get("pv"), "phase_one": cfg.get("phase_one", False), "second_path": True, "ctx_json": False}
    j.update(flags)
    return j


def cfg_view(cfg):
    return {"cost_models": cfg.get("cost_mode", "recorded" if cfg.get("costs") else "none"), "pv": cfg.get("pv"), "budget": list(cfg["budget"]),
            "slot": cfg["slot"], "phase_one": cfg.get("phase_one", False), "cost_mdls_cbor": cost_mdls_hex(cfg.get("costs"))}


def witness(tx, utxos, cfg, observed, expected, extra=None):
    w = {"tx": tx, "utxos": utxos, "config": cfg_view(cfg), "observed": observed, "expected": expected}
    if extra:
        w.update(extra)
    return w


def brief(r):
    """what the driver said, without the bulky fields."""
    if r is None:
        return None
    out = {k: r[k] for k in ("err", "chain", "err_msg", "panic", "died", "timeout", "harness_error", "order", "machine_cost") if k in r}
    if "ok" in r:
        out["ok"] = [{"tag": i["tag"], "index": i["index"], "ex_units": i["ex_units"], "initial": i["initial"], "result": i["result"].get("k"),
                      "direct_cost": (i.get("direct") or {}).get("eval", {}).get("cost")} for i in r["ok"]]
    return out


def crashed(r):
    return r is None or any(k in r for k in ("panic", "died", "timeout", "harness_error"))


def crash_key(r):
    if r is None:
        return "C19|crash|no-result"
    if "panic" in r:
        msg = r["panic"]
        loc = msg.rsplit(" @ ", 1)[-1] if " @ " in msg else ""
        loc = re.sub(r"^.*?/crates/", "crates/", loc)  # the same key for a scratch copy of the repository
        head = msg.rsplit(" @ ", 1)[0]
        # the message up to the first value it prints (hashes, certificates, .. vary)
        head = re.split(r"[({\[\"]|: [A-Z][A-Za-z]+\(", head)[0]
        head = re.sub(r"\s+", " ", head).replace("|", "/").strip(" :")[:100]
        return f"C19|crash|{head}|{loc}"
    if "died" in r:
        return f"C19|crash|driver-died|{r['died']}"
    return None


def per_redeemer(r):
    """{(tag, index): comparable outcome} of a successful simulation."""
    out = {}
    for i in r.get("ok", []):
        res = i["result"]
        out[(i["tag"], i["index"])] = (tuple(i["ex_units"]), res.get("k"), res.get("cbor") or res.get("hex") or res.get("v"), tuple(i["logs_hex"]))
    return out


def decode_trace(logs_hex):
    """the two strings logged by the `trace` probe -> bytes of serialiseData ctx."""
    if len(logs_hex) != 2:
        return None
    high = bytes.fromhex(logs_hex[0])
    low = bytes.fromhex(logs_hex[1])
    if len(high) != len(low) or any(b > 1 for b in high) or any(b > 127 for b in low):
        # the other order
        high, low = low, high
        if len(high) != len(low) or any(b > 1 for b in high) or any(b > 127 for b in low):
            return None
    return bytes(lo | (hi << 7) for lo, hi in zip(low, high))


# ------------------------------------------------------------------ recorded transactions


def run_recorded(mon, recorded, vecs, rng):
    jobs = []
    meta = {}
    for n, rec in enumerate(recorded):
        base_cfg = {"costs": rec["costs"], "budget": rec["budget"], "slot": rec["slot"], "pv": None, "phase_one": rec["phase_one"]}
        jid = f"rec|{n}|base"
        jobs.append(job(jid, rec["tx"], rec["utxos"], base_cfg, ctx_json=True))
        meta[jid] = (rec, base_cfg, "base")
        variants = []
        for p in range(3):
            variants.append((f"perm{p}", base_cfg, Rng(mon.seed * 1000 + p, n).shuffle(rec["utxos"])))
        for pv in (9, 10, 11):
            variants.append((f"pv{pv}", dict(base_cfg, pv=pv), rec["utxos"]))
        variants.append(("nocosts", dict(base_cfg, costs=None, budget=[BIG, BIG]), rec["utxos"]))
        variants.append(("phase_one", dict(base_cfg, phase_one=True), rec["utxos"]))
        for label, cfg, utxos in variants:
            jid = f"rec|{n}|{label}"
            jobs.append(job(jid, rec["tx"], utxos, cfg))
            meta[jid] = (rec, cfg, label)
    res = run_batched(jobs)
    mon.count("driver_jobs", len(jobs))
    for n, rec in enumerate(recorded):
        mon.count("recorded_txs")
        base = res.get(f"rec|{n}|base")
        _, base_cfg, _ = meta[f"rec|{n}|base"]
        for jid, (r2, cfg, label) in meta.items():
            if r2 is not rec:
                continue
            r = res.get(jid)
            if crashed(r):
                if crash_key(r):
                    mon.violation(crash_key(r), witness(rec["tx"], rec["utxos"], cfg, brief(r), "no panic", {"recorded": rec["name"], "variant": label}))
                else:
                    mon.inconc("driver:" + str(sorted(r.keys()) if r else None))
                continue
            check_consistency(mon, rec["tx"], meta_utxos(jobs, jid), cfg, r, {"recorded": rec["name"], "variant": label})
            if label.startswith("perm"):
                mon.count("permutations")
                compare_perm(mon, base, r, rec["tx"], rec["utxos"], cfg, {"recorded": rec["name"], "variant": label, "permuted_utxos": meta_utxos(jobs, jid)})
        if crashed(base):
            continue
        exp = rec.get("expect")
        tag = {"recorded": rec["name"], "source": rec["source"]}
        if exp == "units":
            got = [i["ex_units"] for i in base.get("ok", [])] if "ok" in base else None
            if got == rec["units"]:
                mon.count("recorded_expected_units_matched")
                mon.held(("rec", rec["name"]), {"recorded": rec["name"], "ex_units": got} if len(mon.samples) < 3 else None)
            else:
                mon.violation(f"C19|recorded|ex-units-differ-from-the-test|{rec['name']}", witness(rec["tx"], rec["utxos"], base_cfg, brief(base), {"ex_units[mem,steps]": rec["units"]}, tag))
        elif exp == "err":
            if "err" in base:
                mon.held(("rec", rec["name"]))
            else:
                mon.violation(f"C19|recorded|expected-failure|{rec['name']}", witness(rec["tx"], rec["utxos"], base_cfg, brief(base), "Err", tag))
        elif exp == "ok":
            if "ok" in base:
                mon.held(("rec", rec["name"]))
            else:
                mon.violation(f"C19|recorded|expected-success|{rec['name']}", witness(rec["tx"], rec["utxos"], base_cfg, brief(base), "Ok", tag))
        else:
            mon.held(("rec", rec["name"]))
        # V3 contexts of recorded transactions obey the ordering rules as well
        for i in base.get("ok", []):
            d = i.get("direct") or {}
            mon.count("redeemers_evaluated")
            mon.count("purposes", sub=i["tag"])
            if d.get("lang"):
                mon.count("languages", sub=d["lang"])
            if d.get("lang") == "v3" and d.get("ctx"):
                bad = recorded_context_rules(d["ctx"])
                mon.count("contexts_checked")
                if bad:
                    mon.violation(f"C19|context|recorded|{bad}", witness(rec["tx"], rec["utxos"], base_cfg, {"context": d["ctx"]}, bad, tag))
                else:
                    mon.held()


def meta_utxos(jobs, jid):
    for j in jobs:
        if j["id"] == jid:
            return j["utxos"]
    return None


def _bytes_key(d):
    return bytes.fromhex(d["b"]) if "b" in d else b""


def recorded_context_rules(ctx):
    """ordering rules that can be stated on a V3 context alone."""
    try:
        info = ctx["f"][0]["f"]

        def refs(lst):
            return [(bytes.fromhex(x["f"][0]["f"][0]["b"]), int(x["f"][0]["f"][1]["i"])) for x in lst["l"]]

        for name, ix in (("inputs", 0), ("reference_inputs", 1)):
            r = refs(info[ix])
            if r != sorted(r):
                return f"{name}-not-sorted"
        mint = [bytes.fromhex(k["b"]) for k, _ in info[4]["m"]]
        if mint != sorted(mint):
            return "mint-not-sorted"
        for k, v in info[4]["m"]:
            names = [bytes.fromhex(n["b"]) for n, _ in v["m"]]
            if names != sorted(names):
                return "mint-assets-not-sorted"
        sig = [bytes.fromhex(x["b"]) for x in info[8]["l"]]
        if sig != sorted(sig):
            return "signatories-not-sorted"
        data = [bytes.fromhex(k["b"]) for k, _ in info[10]["m"]]
        if data != sorted(data):
            return "datums-not-sorted"
        purposes = [int(k["c"]) for k, _ in info[9]["m"]]
        order = {1: 0, 0: 1, 3: 2, 2: 3, 4: 4, 5: 5}  # constructor index of the purpose -> redeemer tag order
        tags = [order[p] for p in purposes]
        if tags != sorted(tags):
            return "redeemers-not-sorted-by-tag"
    except (KeyError, IndexError, ValueError, TypeError):
        return "context-shape"
    return None


def check_consistency(mon, tx, utxos, cfg, r, tag):
    """checks that need no model: reported units == cost == direct evaluation; budget hand-over."""
    if "ok" not in r:
        mon.count("simulations_err")
        return
    mon.count("simulations_ok")
    spent = [0, 0]
    for n, i in enumerate(r["ok"]):
        mon.count("units_checked")
        where = dict(tag, redeemer=[i["tag"], i["index"]])
        if i["ex_units"] != [i["cost"][1], i["cost"][0]]:
            mon.violation("C19|units|reported-ex-units-differ-from-the-evaluation-cost", witness(tx, utxos, cfg, brief(r), {"ex_units": [i["cost"][1], i["cost"][0]]}, where))
        d = i.get("direct") or {}
        if "panic" in d:
            mon.violation(crash_key(d), witness(tx, utxos, cfg, d, "no panic", where))
        elif "eval" in d:
            if d["eval"]["cost"] != i["cost"]:
                mon.violation("C19|units|differs-from-direct-evaluation", witness(tx, utxos, cfg, brief(r), {"direct_cost[cpu,mem]": d["eval"]["cost"]}, where))
            else:
                mon.held()
        else:
            mon.inconc("second-path:" + str(d.get("stage")))
        want_initial = [cfg["budget"][0] - spent[0], cfg["budget"][1] - spent[1]]
        if i["initial"] != want_initial:
            if not cfg.get("costs") and i["initial"] == list(DEFAULT_BUDGET):
                mon.violation(KNOWN_HANDOVER, witness(tx, utxos, cfg, brief(r), {"initial_budget_of_redeemer": want_initial, "redeemer_position": n}, where))
            else:
                mode = "with-cost-models" if cfg.get("costs") else "without-cost-models"
                mon.violation(f"C19|budget-handover|{mode}|redeemer-does-not-start-from-the-remaining-budget", witness(tx, utxos, cfg, brief(r), {"initial_budget_of_redeemer": want_initial, "redeemer_position": n}, where))
        else:
            mon.held()
        spent[0] += i["ex_units"][1]
        spent[1] += i["ex_units"][0]
    order = [[i["tag"], i["index"]] for i in r["ok"]]
    if order != r.get("order"):
        mon.violation("C19|order|results-not-in-evaluation-order", witness(tx, utxos, cfg, brief(r), {"order": r.get("order")}, tag))


def compare_perm(mon, base, r, tx, utxos, cfg, tag):
    if crashed(base) or crashed(r):
        return
    if ("ok" in base) != ("ok" in r):
        mon.violation("C19|permutation|verdict-changes", witness(tx, utxos, cfg, brief(r), brief(base), tag))
        return
    if "ok" not in base:
        if base.get("chain") != r.get("chain"):
            mon.violation("C19|permutation|error-changes", witness(tx, utxos, cfg, brief(r), brief(base), tag))
        else:
            mon.held()
        return
    a, b = per_redeemer(base), per_redeemer(r)
    if a != b:
        what = "redeemer-set" if set(a) != set(b) else next(("cost" if a[k][0] != b[k][0] else "result") for k in a if a[k] != b[k])
        mon.violation(f"C19|permutation|{what}-changes", witness(tx, utxos, cfg, brief(r), brief(base), tag))
    else:
        mon.held()


# ------------------------------------------------------------------ synthetic transactions


def pick_cfg(rng, vecs, phase_one=None, budget=None):
    mode = rng.pick(["none", "harvested", "harvested", "tweaked"])
    costs = None
    if mode == "harvested":
        costs = {l: v for l, v in vecs.items()}
    elif mode == "tweaked":
        costs = {l: tweak(v, l) for l, v in vecs.items()}
    return {"costs": costs, "cost_mode": mode, "pv": rng.pick([None, 9, 10, 11]), "budget": list(budget or rng.pick([(BIG, BIG), DEFAULT_BUDGET])),
            "slot": rng.pick([MAINNET_SLOT, [1660003200000, 0, 1000], [1596059091000, 4492800, 500]]),
            "phase_one": rng.chance(2, 3) if phase_one is None else phase_one}


def use_of(model, tag, index):
    for k, u in enumerate(model.uses):
        if u["tag"] == tag and u["index"] == index:
            return k, u
    return None, None


def check_synthetic_base(mon, model, cfg, tx, utxos, r, apply_jobs, jid):
    """units / handover / order / context on a transaction all of whose probes succeed."""
    desc = {"model": model.describe()}
    if crashed(r):
        if crash_key(r):
            mon.violation(crash_key(r), witness(tx, utxos, cfg, brief(r), "no panic", desc))
        else:
            mon.inconc("driver")
        return False
    if "ok" not in r:
        chain = r.get("chain", [])
        if not r.get("tx_decodes", True) or not r.get("utxos_decode", True) or (chain and chain[0] in MALFORMED):
            mon.inconc("generator:malformed-transaction:" + "/".join(chain))
        else:
            mon.violation("C19|verdict|valid-transaction-rejected|" + "/".join(chain), witness(tx, utxos, cfg, brief(r), "Ok", desc))
        return False
    check_consistency(mon, tx, utxos, cfg, r, desc)
    got = sorted((i["tag"], i["index"]) for i in r["ok"])
    want = sorted((u["tag"], u["index"]) for u in model.uses)
    if got != want:
        mon.violation("C19|verdict|evaluated-redeemers-differ-from-the-transaction's", witness(tx, utxos, cfg, brief(r), {"redeemers": want}, desc))
        return False
    for i in r["ok"]:
        k, u = use_of(model, i["tag"], i["index"])
        s = u["script"]
        where = dict(desc, redeemer=[i["tag"], i["index"]], probe=s["kind"], lang=s["lang"])
        mon.count("redeemers_evaluated")
        mon.count("purposes", sub=u["purpose"])
        mon.count("languages", sub=s["lang"])
        mon.count("probe_kinds", sub=s["kind"])
        mon.count("script_sources", sub=u["source"])
        if u["purpose"] == "spend":
            mon.count("datum_modes", sub=u["datum_mode"])
        d = i.get("direct") or {}
        # the pieces the simulator looked up are the ones the transaction designates
        if d.get("script_hash") and d["script_hash"] != s["hash"].hex():
            mon.violation("C19|lookup|wrong-script-for-redeemer", witness(tx, utxos, cfg, d.get("script_hash"), s["hash"].hex(), where))
            continue  # what follows would judge the answers of another probe
        want_datum = cbor.data_dumps(u["datum"]).hex() if u.get("datum") is not None else None
        if "datum" in d and d["datum"] is not None and want_datum is not None:
            if cbor.data_loads(bytes.fromhex(d["datum"])) != u["datum"]:
                mon.violation("C19|lookup|wrong-datum-for-redeemer", witness(tx, utxos, cfg, d.get("datum"), want_datum, where))
        elif "datum" in d and (d["datum"] is None) != (want_datum is None):
            mon.violation("C19|lookup|datum-presence", witness(tx, utxos, cfg, d.get("datum"), want_datum, where))
        # first principles
        vec = (cfg.get("costs") or {}).get(s["lang"]) if cfg.get("costs") else None
        if s["steps"] is not None:
            fp = first_principles(s["steps"], vec)
            mon.count("first_principles_checked")
            if i["cost"] != fp:
                mon.violation("C19|units|differs-from-first-principles", witness(tx, utxos, cfg, brief(r), {"cost[cpu,mem]": fp, "steps": s["steps"]}, where))
            else:
                mon.held(("fp", s["lang"], s["kind"], s["n"], cfg.get("cost_mode"), cfg.get("pv")))
        # result kind
        kind = i["result"].get("k")
        want_kind = {"unit": "unit", "trace": "unit", "pvsens": "unit", "echo": "data", "echo3": "data"}.get(s["kind"])
        if want_kind and kind != want_kind:
            mon.violation("C19|result|unexpected-result-of-probe", witness(tx, utxos, cfg, i["result"], want_kind, where))
            continue
        # the context the script saw
        seen = None
        args_seen = None
        if s["kind"] == "echo":
            seen = cbor.data_loads(bytes.fromhex(i["result"]["cbor"]))
        elif s["kind"] == "echo3":
            lst = cbor.data_loads(bytes.fromhex(i["result"]["cbor"])).get("l")
            if not isinstance(lst, list) or len(lst) != s["arity"]:
                mon.violation("C19|result|unexpected-result-of-probe", witness(tx, utxos, cfg, i["result"], "a list of the probe's arguments", where))
                continue
            seen = lst[-1]
            args_seen = lst[:-1]
        elif s["kind"] == "trace":
            raw = decode_trace(i["logs_hex"])
            if raw is None:
                mon.inconc("probe:trace-not-decodable")
            else:
                try:
                    seen = cbor.data_loads(raw)
                except Exception:
                    mon.inconc("probe:trace-not-data")
        sc = cfg["slot"]
        exp = CR.expected_context(model, u, sc)
        direct_ctx = cbor.data_loads(bytes.fromhex(d["ctx_cbor"])) if d.get("ctx_cbor") else None
        if seen is not None:
            mon.count("contexts_echoed")
            if direct_ctx is not None and seen != direct_ctx:
                mon.violation("C19|context|script-sees-another-context-than-the-public-builder-makes", witness(tx, utxos, cfg, {"seen": seen}, {"direct": direct_ctx}, where))
            if args_seen is not None:
                want_args = ([u["datum"]] if s["arity"] == 3 else []) + [u["redeemer"]]
                if args_seen != want_args:
                    mon.violation("C19|arguments|datum-or-redeemer-argument", witness(tx, utxos, cfg, {"seen": args_seen}, {"arguments": want_args}, where))
                else:
                    mon.held()
            # third path: the script applied to what it echoed, evaluated directly
            args = []
            if s["lang"] != "v3":
                if s["arity"] == 3:
                    args.append(cbor.data_dumps(u["datum"]).hex())
                args.append(cbor.data_dumps(u["redeemer"]).hex())
            args.append(cbor.data_dumps(seen).hex())
            apply_jobs.append(({"id": f"{jid}|apply|{i['tag']}|{i['index']}", "op": "apply_eval", "script": s["code"].hex(), "args": args, "lang": s["lang"],
                                "pv": cfg.get("pv"), "costs": vec, "budget": [BIG, BIG]}, i["cost"], (tx, utxos, cfg, where)))
        ctx = seen if seen is not None else direct_ctx
        if ctx is None:
            mon.inconc("context:not-observable")
            continue
        mon.count("contexts_checked")
        path = CR.diff(exp, ctx)
        if path is None:
            mon.held(("ctx", s["lang"], u["purpose"], u["source"], u.get("datum_mode")))
            continue
        field = CR.field_of_path(s["lang"], path)
        # a known shape of disagreement gets its own stable key: treasury withdrawals left in
        # transaction order
        lenient = None
        if any(p["action"]["kind"] == "treasury" and len(p["action"]["withdrawals"]) > 1 for p in model.proposals):
            saved = CR.gov_action
            try:
                CR.gov_action = _gov_action_tx_order
                lenient = CR.expected_context(model, u, sc)
            finally:
                CR.gov_action = saved
        if lenient is not None and CR.diff(lenient, ctx) is None:
            key = "C19|context|v3|treasury-withdrawals-not-sorted-by-reward-account"
        else:
            key = f"C19|context|{s['lang']}|{field}"
        mon.violation(key, witness(tx, utxos, cfg, {"context": ctx, "first_difference_at": path}, {"context": exp}, where))
    return True


def _gov_action_tx_order(model, a):
    if a["kind"] == "treasury":
        return CR.C(2, CR.M([(CR.credential(c), CR.I(coin)) for c, coin in a["withdrawals"]]), CR.maybe(a.get("guardrail"), CR.B))
    return _ORIG_GOV_ACTION(model, a)


_ORIG_GOV_ACTION = CR.gov_action


def run_synthetic(mon, pool, vecs, n_txs, stream0):
    jobs = []
    cases = {}
    for t in range(n_txs):
        rng = Rng(mon.seed, stream0 + t)
        model = txgen.gen_tx(rng, pool)
        if not model.uses:
            continue
        cfg = pick_cfg(rng, vecs)
        tx, utxos = model.encode(None, Rng)
        jid = f"syn|{t}"
        jobs.append(job(jid, tx, utxos, cfg))
        variants = []
        for p in range(3):
            v = {"utxo_perm": rng.next(), "wit_perm": rng.next(), "datum_perm": rng.next()}
            if p == 2:
                v["redeemer_perm"] = rng.next()
                v["redeemer_format"] = rng.pick(["list", "map", "list_indef"])
            vtx, vutxos = model.encode(v, Rng)
            jobs.append(job(f"{jid}|perm{p}", vtx, vutxos, cfg, second_path=False))
            variants.append((f"{jid}|perm{p}", v, vtx, vutxos))
        cases[jid] = (model, cfg, tx, utxos, variants)
    res = run_batched(jobs)
    mon.count("driver_jobs", len(jobs))
    apply_jobs = []
    for jid, (model, cfg, tx, utxos, variants) in cases.items():
        mon.count("synthetic_txs")
        mon.count("redeemer_formats", sub=model.redeemer_format)
        mon.count("cost_modes", sub=cfg["cost_mode"])
        mon.count("protocol_versions", sub=str(cfg["pv"]))
        r = res.get(jid)
        ok = check_synthetic_base(mon, model, cfg, tx, utxos, r, apply_jobs, jid)
        if ok and len(mon.samples) < 8:
            mon.samples.append({"synthetic": model.describe(), "config": {k: v for k, v in cfg_view(cfg).items() if k != "cost_mdls_cbor"},
                                "ex_units": [i["ex_units"] for i in r["ok"]]})
        for vid, v, vtx, vutxos in variants:
            rv = res.get(vid)
            mon.count("permutations")
            tag = {"model": model.describe(), "variant": {k: str(x) for k, x in v.items()}, "base_tx": tx, "base_utxos": utxos}
            if crashed(rv):
                if crash_key(rv):
                    mon.violation(crash_key(rv), witness(vtx, vutxos, cfg, brief(rv), "no panic", tag))
                else:
                    mon.inconc("driver")
                continue
            compare_perm(mon, r, rv, vtx, vutxos, cfg, tag)
    # third path
    res3 = run_batched([j for j, _, _ in apply_jobs])
    mon.count("driver_jobs", len(apply_jobs))
    for j, cost, (tx, utxos, cfg, where) in apply_jobs:
        r = res3.get(j["id"])
        if crashed(r) or "cost" not in r:
            mon.inconc("driver:apply_eval")
            continue
        mon.count("units_checked")
        if r["cost"] != cost:
            mon.violation("C19|units|differs-from-the-script-applied-to-the-echoed-context", witness(tx, utxos, cfg, {"cost[cpu,mem]": cost}, {"cost[cpu,mem]": r["cost"]}, where))
        else:
            mon.held()


# ------------------------------------------------------------------ budget hand-over


def expect_out_of_budget(mon, r, k, model, tx, utxos, cfg, what, tag):
    """the simulation must fail at the (k+1)-th redeemer with an out-of-budget error."""
    mode = "with-cost-models" if cfg.get("costs") else "without-cost-models"
    if crashed(r):
        if crash_key(r):
            mon.violation(crash_key(r), witness(tx, utxos, cfg, brief(r), "no panic", tag))
        else:
            mon.inconc("driver")
        return
    expected = {"fails_at_redeemer_position": k, "error": "RedeemerError/Machine/OutOfExError"}
    if "ok" in r:
        if not cfg.get("costs"):
            mon.violation(KNOWN_HANDOVER, witness(tx, utxos, cfg, brief(r), expected, tag))
        else:
            mon.violation(f"C19|budget-handover|{mode}|{what}-short-budget-accepted", witness(tx, utxos, cfg, brief(r), expected, tag))
        return
    chain = r.get("chain", [])
    if chain[-1:] != ["OutOfExError"]:
        mon.violation(f"C19|budget-handover|{mode}|fails-with-another-error|" + "/".join(chain), witness(tx, utxos, cfg, brief(r), expected, tag))
    elif len(r.get("order", [])) != k + 1:
        if not cfg.get("costs"):
            # under the defect every script gets the default budget: a failure can only come late or never
            mon.violation(KNOWN_HANDOVER, witness(tx, utxos, cfg, brief(r), expected, tag))
        else:
            mon.violation(f"C19|budget-handover|{mode}|fails-at-the-wrong-redeemer", witness(tx, utxos, cfg, brief(r), expected, tag))
    else:
        mon.held(("handover", mode, what, k))


def run_handover(mon, pool, vecs, n_txs, stream0):
    jobs = []
    cases = []
    for t in range(n_txs):
        rng = Rng(mon.seed, stream0 + t)
        kinds = {"v1": ["unit"], "v2": ["unit"], "v3": ["unit"]}
        model = txgen.gen_tx(rng, pool, {"n_uses": rng.range(2, 6), "kinds": kinds, "noise": rng.chance(1, 2)})
        if len(model.uses) < 2:
            continue
        for mode in ("harvested", "none", "tweaked") if t % 3 == 0 else ("harvested", "none"):
            costs = None if mode == "none" else {l: (tweak(v, l) if mode == "tweaked" else v) for l, v in vecs.items()}
            cfg0 = {"costs": costs, "cost_mode": mode, "pv": rng.pick([None, 9, 10, 11]), "slot": MAINNET_SLOT, "phase_one": rng.chance(1, 2)}
            tx, utxos = model.encode(None, Rng)
            per = [first_principles(u["script"]["steps"], (costs or {}).get(u["script"]["lang"]) if costs else None) for u in model.uses]
            total = [sum(c[0] for c in per), sum(c[1] for c in per)]
            tag = {"model": model.describe(), "per_redeemer_cost[cpu,mem]": per}
            jid = f"ho|{t}|{mode}|exact"
            jobs.append(job(jid, tx, utxos, dict(cfg0, budget=total)))
            cases.append((jid, "exact", None, model, dict(cfg0, budget=total), tx, utxos, tag))
            for k in range(len(per)):
                before = [sum(c[0] for c in per[:k]), sum(c[1] for c in per[:k])]
                for what, budget in (("cpu", [before[0] + per[k][0] - 1, BIG]), ("mem", [BIG, before[1] + per[k][1] - 1])):
                    jid = f"ho|{t}|{mode}|{what}|{k}"
                    cfg = dict(cfg0, budget=budget)
                    jobs.append(job(jid, tx, utxos, cfg, second_path=False))
                    cases.append((jid, what, k, model, cfg, tx, utxos, tag))
    # the minimal shape of the known defect: two spends of one V3 `(lam ctx unit)`-like probe,
    # less budget than one of them costs, no cost models
    res = run_batched(jobs)
    mon.count("driver_jobs", len(jobs))
    for jid, what, k, model, cfg, tx, utxos, tag in cases:
        r = res.get(jid)
        mon.count("handover_cases")
        if what == "exact":
            mode = "with-cost-models" if cfg.get("costs") else "without-cost-models"
            if crashed(r):
                if crash_key(r):
                    mon.violation(crash_key(r), witness(tx, utxos, cfg, brief(r), "no panic", tag))
                else:
                    mon.inconc("driver")
            elif "ok" not in r:
                mon.violation(f"C19|budget-handover|{mode}|exact-budget-rejected", witness(tx, utxos, cfg, brief(r), "Ok (the budget is the sum of the costs)", tag))
            else:
                check_consistency(mon, tx, utxos, cfg, r, tag)
                mon.held(("handover", mode, "exact"))
        else:
            expect_out_of_budget(mon, r, k, model, cfg=cfg, tx=tx, utxos=utxos, what=what, tag=tag)


def minimal_handover(mon, pool):
    """FINDINGS.md F1 as a fixed witness: two script inputs, 50 000 cpu, no cost models."""
    rng = Rng(7, 7)
    model = txgen.gen_tx(rng, pool, {"langs": ["v3"], "n_uses": 2, "purposes": ["spend"], "kinds": {"v3": ["unit"]}, "noise": False, "ref_scripts": False})
    if len(model.uses) != 2:
        return
    tx, utxos = model.encode(None, Rng)
    per = [first_principles(u["script"]["steps"], None) for u in model.uses]
    cfg = {"costs": None, "cost_mode": "none", "pv": None, "slot": MAINNET_SLOT, "phase_one": True, "budget": [50_000, BIG]}
    res = run_batched([job("min", tx, utxos, cfg, second_path=False)])
    mon.count("driver_jobs")
    mon.count("handover_cases")
    expect_out_of_budget(mon, res.get("min"), 0, model, tx, utxos, cfg, "cpu", {"model": model.describe(), "per_redeemer_cost[cpu,mem]": per, "minimal": True})


# ------------------------------------------------------------------ verdicts


def expect_err(mon, r, key_ok, tx, utxos, cfg, expected, tag, case=None):
    if crashed(r):
        if crash_key(r):
            mon.violation(crash_key(r), witness(tx, utxos, cfg, brief(r), "Err, no panic", tag))
        else:
            mon.inconc("driver")
        return False
    if "ok" in r:
        mon.violation(key_ok, witness(tx, utxos, cfg, brief(r), expected, tag))
        return False
    mon.held(case)
    return True


def run_missing_pieces(mon, pool, vecs, n_txs, stream0):
    jobs = []
    cases = []
    for t in range(n_txs):
        rng = Rng(mon.seed, stream0 + t)
        model = txgen.gen_tx(rng, pool, {"n_uses": rng.range(1, 4)})
        if not model.uses:
            continue
        cfg = pick_cfg(rng, vecs, budget=(BIG, BIG))
        muts = []
        seen_datums = set()
        for k, u in enumerate(model.uses):
            if u["purpose"] == "spend" and u["datum_mode"] == "hash":
                b = model.datum_bytes(u["datum"])
                if b not in seen_datums:
                    seen_datums.add(b)
                    muts.append(("datum", {"drop": ("datum", b)}, None))
            muts.append(("script", {"drop": ("script", u["script"]["hash"])}, None))
            muts.append(("redeemer", {"drop": ("redeemer", k)}, True))
        for i in model.inputs:
            muts.append(("resolved-input", {"drop": ("utxo", (i["txid"], i["ix"]))}, None))
        for i in model.ref_inputs:
            muts.append(("resolved-reference-input", {"drop": ("utxo", (i["txid"], i["ix"]))}, None))
        # an unneeded redeemer: past the end of a collection, or pointing at a key input
        n_in = len(model.inputs)
        extras = [("spend", n_in + rng.below(3)), ("mint", len(model.mint) + rng.below(2)), ("reward", len(model.withdrawals)), ("cert", len(model.certs))]
        if "v3" in model.langs and len(model.langs) == 1:
            extras += [("vote", len(model.votes)), ("propose", len(model.proposals))]
        key_inputs = [k for k, i in enumerate(model.sorted_inputs()) if i["out"]["pay"][0] == "key"]
        if key_inputs:
            extras.append(("spend", rng.pick(key_inputs)))
        for tag_, ix in rng.shuffle(extras)[:2]:
            muts.append(("extra-redeemer", {"extra_redeemer": (tag_, ix, {"i": "0"})}, None))
        for n, (what, variant, force_phase_one) in enumerate(muts):
            c = dict(cfg)
            if force_phase_one is not None:
                c["phase_one"] = force_phase_one
            vtx, vutxos = model.encode(variant, Rng)
            jid = f"mp|{t}|{n}"
            jobs.append(job(jid, vtx, vutxos, c, second_path=False))
            cases.append((jid, what, model, c, vtx, vutxos, variant))
    res = run_batched(jobs)
    mon.count("driver_jobs", len(jobs))
    for jid, what, model, cfg, tx, utxos, variant in cases:
        mon.count("missing_piece_cases")
        mon.count("missing_piece_kinds", sub=what)
        tag = {"model": model.describe(), "mutation": what, "detail": {k: [x.hex() if isinstance(x, bytes) else x for x in (v if isinstance(v, (tuple, list)) else [v])] for k, v in _flat(variant).items()}}
        expect_err(mon, res.get(jid), f"C19|verdict|missing-{what}-accepted" if what != "extra-redeemer" else "C19|verdict|extra-redeemer-accepted",
                   tx, utxos, cfg, "Err", tag, ("missing", what, cfg["phase_one"], bool(cfg.get("costs"))))


def _flat(variant):
    out = {}
    for k, v in variant.items():
        if isinstance(v, tuple):
            flat = []
            for x in v:
                if isinstance(x, tuple):
                    flat.extend(x)
                else:
                    flat.append(x)
            out[k] = flat
        else:
            out[k] = v
    return out


def run_failing(mon, pool, vecs, n_txs, stream0):
    """one probe of the transaction fails (error term), or is a V3 probe that does not return unit."""
    jobs = []
    cases = []
    for t in range(n_txs):
        rng = Rng(mon.seed, stream0 + t)
        langs = rng.pick([["v3"], ["v3"], ["v2"], ["v1"], ["v2", "v3"], ["v1", "v2"], ["v1", "v2", "v3"]])
        nonunit = "v3" in langs and rng.chance(1, 2)
        if nonunit:
            kind = rng.pick(["nonunit_int", "nonunit_true", "nonunit_false", "nonunit_lam", "echo"])
            kinds = {"v1": ["echo3", "unit"], "v2": ["echo3", "unit"], "v3": ["trace", "unit", kind, kind]}
        else:
            kinds = {"v1": ["echo3", "unit", "fail"], "v2": ["echo3", "unit", "fail"], "v3": ["trace", "unit", "fail"]}
        model = txgen.gen_tx(rng, pool, {"n_uses": rng.range(1, 4), "kinds": kinds, "langs": langs})
        bad = [k for k, u in enumerate(model.uses) if u["script"]["kind"] not in ("echo3", "unit", "trace", "pvsens") and not (u["script"]["kind"] == "echo" and u["script"]["lang"] != "v3")]
        if not bad:
            continue
        cfg = pick_cfg(rng, vecs, budget=(BIG, BIG))
        tx, utxos = model.encode(None, Rng)
        jid = f"fail|{t}"
        jobs.append(job(jid, tx, utxos, cfg, second_path=False))
        cases.append((jid, model, cfg, tx, utxos, bad))
    res = run_batched(jobs)
    mon.count("driver_jobs", len(jobs))
    for jid, model, cfg, tx, utxos, bad in cases:
        mon.count("failing_script_cases")
        r = res.get(jid)
        first = bad[0]
        u = model.uses[first]
        kind = u["script"]["kind"]
        mon.count("failing_kinds", sub=kind)
        tag = {"model": model.describe(), "first_failing_redeemer_position": first, "probe": kind}
        if kind == "fail":
            key = "C19|verdict|failing-script-accepted"
        else:
            key = "C19|verdict|v3-non-unit-result-accepted|" + {"echo": "data"}.get(kind, kind.replace("nonunit_", ""))
        if not expect_err(mon, r, key, tx, utxos, cfg, {"Err at redeemer": [u["tag"], u["index"]]}, tag, ("failing", kind, u["purpose"])):
            continue
        # the failure is reported against the first failing redeemer
        if kind == "fail":
            chain = r.get("chain", [])
            name = f"{TAG_DISPLAY[u['tag']]}[{u['index']}]"
            if chain[:2] != ["RedeemerError", "Machine"] or len(r.get("order", [])) != first + 1 or name not in r.get("err_msg", ""):
                mon.violation("C19|verdict|failure-attributed-to-another-redeemer", witness(tx, utxos, cfg, brief(r), {"RedeemerError": name, "position": first}, tag))
            else:
                mon.held()


def run_special(mon, pool, vecs):
    """shapes outside the random generator: an unused reference script in a resolved
    reference input; V1/V2 scripts meeting Conway-only certificates."""
    jobs = []
    cases = []
    for t in range(12):
        rng = Rng(mon.seed, 900_000 + t)
        model = txgen.gen_tx(rng, pool, {"langs": [rng.pick(["v2", "v3"])], "n_uses": rng.range(1, 3)})
        if not model.uses:
            continue
        spare = txgen.pick_script(rng, pool, {u["script"]["hash"] for u in model.uses}, "v3", 1, "unit")
        out = txgen.gen_output(rng, model, pay=("key", rng.bytes(28)))
        out["legacy"] = False
        out["script_ref"] = ("v3", spare["code"])
        model.ref_inputs.append({"txid": rng.bytes(32), "ix": 0, "out": out})
        model.finalize()
        tx, utxos = model.encode(None, Rng)
        for phase_one in (True, False):
            cfg = pick_cfg(rng, vecs, phase_one=phase_one, budget=(BIG, BIG))
            jid = f"sp|ref|{t}|{phase_one}"
            jobs.append(job(jid, tx, utxos, cfg, second_path=False))
            cases.append((jid, "unused-ref", model, cfg, tx, utxos))
    for t in range(12):
        rng = Rng(mon.seed, 910_000 + t)
        lang = rng.pick(["v1", "v2"])
        model = txgen.gen_tx(rng, pool, {"langs": [lang], "n_uses": rng.range(1, 2)})
        if not model.uses:
            continue
        model.certs.append(txgen.gen_cert(rng, rng.pick([9, 10, 12, 14, 16, 17, 18]), ("key", rng.bytes(28))))
        model.finalize()
        tx, utxos = model.encode(None, Rng)
        cfg = pick_cfg(rng, vecs, budget=(BIG, BIG))
        jid = f"sp|cert|{t}"
        jobs.append(job(jid, tx, utxos, cfg, second_path=False))
        cases.append((jid, "conway-cert-v12", model, cfg, tx, utxos))
    for t in range(12):
        # a native script next to the Plutus scripts: as a minting policy, or locking an input
        rng = Rng(mon.seed, 920_000 + t)
        model = txgen.gen_tx(rng, pool, {"langs": [rng.pick(["v1", "v2", "v3"])], "n_uses": rng.range(1, 3)})
        if not model.uses:
            continue
        native = [0, rng.bytes(28)]
        nh = txgen.b224(b"\x00" + cbor.dumps(native))
        model.native_scripts.append(native)
        if t % 2 == 0:
            model.mint.append((nh, [(b"native", 5)]))
            what = "native-mint"
        else:
            out = txgen.gen_output(rng, model, pay=("script", nh), allow_inline=False)
            out["datum"] = None
            model.inputs.append({"txid": rng.bytes(32), "ix": 1, "out": out, "use": None})
            what = "native-input"
        model.finalize()
        tx, utxos = model.encode(None, Rng)
        for phase_one in (True, False):
            cfg = pick_cfg(rng, vecs, phase_one=phase_one, budget=(BIG, BIG))
            jid = f"sp|native|{t}|{phase_one}"
            jobs.append(job(jid, tx, utxos, cfg, second_path=False))
            cases.append((jid, what, model, cfg, tx, utxos))
    res = run_batched(jobs)
    mon.count("driver_jobs", len(jobs))
    for jid, what, model, cfg, tx, utxos in cases:
        r = res.get(jid)
        mon.count("special_cases", sub=what)
        tag = {"model": model.describe(), "case": what}
        if crashed(r):
            if crash_key(r):
                mon.violation(crash_key(r), witness(tx, utxos, cfg, brief(r), "no panic", tag))
            else:
                mon.inconc("driver")
            continue
        if what.startswith("native"):
            if "ok" in r:
                mon.held(("special", what, cfg["phase_one"]))
            elif r.get("chain", [])[:1] == ["RequiredRedeemersMismatch"] and cfg["phase_one"]:
                mon.violation("C19|verdict|native-script-reported-missing-by-phase-one", witness(tx, utxos, cfg, brief(r), "Ok: the native script is in the witness set; every Plutus script, datum and redeemer is present and no script fails", tag))
            else:
                mon.violation("C19|verdict|valid-transaction-rejected|" + "/".join(r.get("chain", [])), witness(tx, utxos, cfg, brief(r), "Ok", tag))
        elif what == "unused-ref":
            if "ok" in r:
                mon.held(("special", what, cfg["phase_one"]))
            elif r.get("chain", [])[:1] == ["RequiredRedeemersMismatch"]:
                mon.violation("C19|verdict|unused-reference-script-rejected-by-phase-one", witness(tx, utxos, cfg, brief(r), "Ok: every needed script, datum and redeemer is present and no script fails", tag))
            else:
                mon.violation("C19|verdict|valid-transaction-rejected|" + "/".join(r.get("chain", [])), witness(tx, utxos, cfg, brief(r), "Ok", tag))
        else:
            # the ledger cannot show such a certificate to a V1/V2 script: any verdict but a crash
            mon.held(("special", what, "ok" in r))


# ------------------------------------------------------------------ minimal witnesses of the findings


def minimal_cases(pool, vecs):
    """[(finding, what is expected, job)]: the smallest transaction of each finding in
    FINDINGS.md (`run_c19.py --minimal` prints the jobs and what the driver answers)."""
    out = []
    harvested = {"costs": dict(vecs), "cost_mode": "harvested", "pv": None, "slot": MAINNET_SLOT, "phase_one": True, "budget": [BIG, BIG]}
    none = dict(harvested, costs=None, cost_mode="none")

    def gen(opts, stream=0):
        base = {"noise": False, "ref_scripts": False, "share": True}
        base.update(opts)
        for k in range(200):
            m = txgen.gen_tx(Rng(11, stream * 1000 + k), pool, base)
            if len(m.uses) == base.get("n_uses", 1):
                return m
        raise RuntimeError("no minimal model")

    m = gen({"langs": ["v3"], "n_uses": 2, "purposes": ["spend"], "kinds": {"v3": ["unit"]}, "datum_modes": ["none"]}, 1)
    tx, utxos = m.encode(None, Rng)
    out.append(("F1 " + KNOWN_HANDOVER, "Err OutOfExError at the first redeemer (each script costs more than 50 000 cpu)", job("F1", tx, utxos, dict(none, budget=[50_000, BIG]), second_path=False)))
    m = gen({"langs": ["v3"], "n_uses": 1, "purposes": ["spend"], "kinds": {"v3": ["nonunit_int"]}, "datum_modes": ["none"]}, 2)
    tx, utxos = m.encode(None, Rng)
    out.append(("F2 C19|verdict|v3-non-unit-result-accepted|int", "Err: a Plutus V3 script must return unit, this one returns (con integer 42)", job("F2", tx, utxos, harvested, second_path=False)))
    for k in range(400):
        m = txgen.gen_tx(Rng(12, k), pool, {"langs": ["v3"], "n_uses": 1, "purposes": ["propose"], "kinds": {"v3": ["trace"]}, "noise": False, "ref_scripts": False})
        acts = [p["action"] for p in m.proposals if p["action"]["kind"] == "treasury" and len(p["action"]["withdrawals"]) == 2]
        if acts and [w[0] for w in acts[0]["withdrawals"]] != sorted([w[0] for w in acts[0]["withdrawals"]], key=m.cred_key):
            tx, utxos = m.encode(None, Rng)
            out.append(("F3 C19|context|v3|treasury-withdrawals-not-sorted-by-reward-account", "the withdrawals map of the proposal in ascending reward-account order (script hash before key hash, then bytes)",
                        job("F3", tx, utxos, harvested, ctx_json=True)))
            break
    m = gen({"langs": ["v2"], "n_uses": 1, "purposes": ["mint"], "kinds": {"v2": ["unit"]}}, 4)
    m.certs.append({"kind": 9, "cred": ("key", bytes(28)), "drep": ("abstain",)})
    m.finalize()
    tx, utxos = m.encode(None, Rng)
    out.append(("F4 C19|crash|..unexpected certificate type in V1/V2 script context", "Err (the ledger has no V1/V2 translation of this certificate), not a panic", job("F4", tx, utxos, harvested, second_path=False)))
    m = gen({"langs": ["v3"], "n_uses": 1, "purposes": ["mint"], "kinds": {"v3": ["unit"]}}, 5)
    spare = pool[("v3", 1, "unit")][-1] if pool[("v3", 1, "unit")][-1]["hash"] != m.uses[0]["script"]["hash"] else pool[("v3", 1, "unit")][0]
    m.ref_inputs.append({"txid": bytes([0xAA]) * 32, "ix": 0, "out": {"pay": ("key", bytes([1]) * 28), "stake": None, "coin": 2_000_000, "assets": [], "datum": None,
                                                                   "script_ref": ("v3", spare["code"]), "legacy": False}})
    m.finalize()
    tx, utxos = m.encode(None, Rng)
    out.append(("F5 C19|verdict|unused-reference-script-rejected-by-phase-one", "Ok: nothing needed is missing and the only script succeeds", job("F5", tx, utxos, harvested, second_path=False)))
    m = gen({"langs": ["v3"], "n_uses": 1, "purposes": ["spend"], "kinds": {"v3": ["unit"]}, "datum_modes": ["none"]}, 6)
    native = [0, bytes([2]) * 28]
    m.native_scripts.append(native)
    m.mint.append((txgen.b224(b"\x00" + cbor.dumps(native)), [(b"t", 1)]))
    m.finalize()
    tx, utxos = m.encode(None, Rng)
    out.append(("F6 C19|verdict|native-script-reported-missing-by-phase-one", "Ok: the native minting policy is in the witness set, the Plutus script succeeds", job("F6", tx, utxos, harvested, second_path=False)))
    return out


def print_minimal():
    recorded = harvest_tests_rs()
    vecs = harvest_cost_vectors(recorded)
    pjobs = txgen.pool_jobs()
    pool, _ = txgen.build_pool(pjobs, common.run_jobs("tx-run", [{k: v for k, v in j.items() if k != "_meta"} for j in pjobs]))
    cases = minimal_cases(pool, vecs)
    res = common.run_jobs("tx-run", [j for _, _, j in cases])
    for name, expected, j in cases:
        r = res.get(j["id"], {})
        print("==", name)
        print("   expected:", expected)
        b = brief(r)
        print("   observed:", json.dumps(b)[:900])
        print("   job:", json.dumps(j))


# ------------------------------------------------------------------ entry points


def run(tier="quick", seed=0):
    t0 = time.time()
    mon = Monitor(tier, seed)
    quick = tier != "thorough"
    recorded = harvest_tests_rs() + harvest_context_rs()
    vecs = harvest_cost_vectors(recorded)
    mon.counters["cost_vectors"] = {l: len(v) for l, v in vecs.items()}
    if not all(l in vecs for l in ("v1", "v2", "v3")):
        mon.inconc("harvest:cost-vectors-missing")
        return mon.result()
    if len(recorded) < 10:
        mon.inconc("harvest:recorded-transactions-missing")
    pjobs = txgen.pool_jobs()
    pres = common.run_jobs("tx-run", [{k: v for k, v in j.items() if k != "_meta"} for j in pjobs])
    pool, problems = txgen.build_pool(pjobs, pres)
    mon.count("driver_jobs", len(pjobs))
    mon.counters["probe_scripts"] = sum(len(v) for v in pool.values())
    for p in problems:
        mon.inconc("harness:probe-script:" + str(p[1])[:60])
    if not pool:
        return mon.result()
    rng = Rng(seed, 1)
    run_recorded(mon, recorded, vecs, rng)
    run_synthetic(mon, pool, vecs, 1000 if quick else 20000, 10_000)
    run_handover(mon, pool, vecs, 50 if quick else 600, 200_000)
    minimal_handover(mon, pool)
    run_missing_pieces(mon, pool, vecs, 120 if quick else 2000, 300_000)
    run_failing(mon, pool, vecs, 160 if quick else 2500, 400_000)
    run_special(mon, pool, vecs)
    out = mon.result()
    out["wall_s"] = round(time.time() - t0, 1)
    return out


def main(argv=None):
    ap = argparse.ArgumentParser()
    ap.add_argument("--tier", default="quick", choices=["quick", "thorough"])
    ap.add_argument("--seed", type=int, default=0)
    ap.add_argument("--json", action="store_true", help="print the whole result as JSON")
    ap.add_argument("--dump", default=None, help="directory to write one witness file per violation key")
    ap.add_argument("--minimal", action="store_true", help="print the minimal witness job of every finding in FINDINGS.md and what the driver answers")
    ap.add_argument("--replay", default=None, help="a witness file written by --dump (or a replay file of the C19 check): run it again and print what the driver answers")
    a = ap.parse_args(argv)
    if a.replay:
        d = json.load(open(a.replay))
        w = d.get("witness", d)
        c = w["config"]
        j = {"id": "replay", "op": "phase2", "tx": w["tx"], "utxos": w["utxos"], "cost_mdls": c.get("cost_mdls_cbor"), "budget": c["budget"], "slot": c["slot"],
             "pv": c.get("pv"), "phase_one": c.get("phase_one", False), "second_path": True, "second_path_on_error": True, "ctx_json": False}
        r = common.run_jobs("tx-run", [j]).get("replay")
        print("key:     ", d.get("key"))
        print("expected:", json.dumps(w.get("expected"))[:600])
        print("observed:", json.dumps(brief(r)))
        return 0
    if a.minimal:
        print_minimal()
        return 0
    out = run(a.tier, a.seed)
    if a.json:
        print(json.dumps(out, default=lambda o: o.hex() if isinstance(o, bytes) else str(o)))
    else:
        print(f"C19 tier={a.tier} seed={a.seed} evaluations={out['evaluations']} distinct={out['distinct']} wall={out.get('wall_s')}s")
        print("counters:", json.dumps(out["counters"], sort_keys=True))
        print("inconclusive:", json.dumps(out["inconclusive"], sort_keys=True))
        for k, n in out["violation_counts"].items():
            print(f"VIOLATION {n:6d}  {k}")
    if a.dump:
        os.makedirs(a.dump, exist_ok=True)
        seen = set()
        for key, w in out["violations"]:
            if key in seen:
                continue
            seen.add(key)
            name = re.sub(r"[^A-Za-z0-9_.-]+", "_", key)[:120]
            with open(os.path.join(a.dump, name + ".json"), "w") as f:
                json.dump({"key": key, "witness": w}, f, indent=1, default=lambda o: o.hex() if isinstance(o, bytes) else str(o))
    unknown = [k for k in out["violation_counts"] if k != KNOWN_HANDOVER]
    return 1 if unknown else (2 if not out["evaluations"] else 0)


if __name__ == "__main__":
    sys.exit(main())
