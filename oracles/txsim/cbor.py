"""Minimal CBOR (RFC 8949) encoder/decoder, written for the C19 transaction generator.

Independent of pallas' encoders on purpose: the transactions fed to the simulator are
serialised here, byte by byte, from the Conway CDDL.

Encoder input model
    int                      -> major 0 / 1 (or tag 2/3 bignum beyond 64 bits)
    bytes / bytearray        -> major 2 (definite)
    str                      -> major 3
    list / tuple             -> definite array
    Indef(list)              -> indefinite array
    dict                     -> definite map, insertion order
    Map(pairs, indef=False)  -> map from a list of (k, v) pairs, order as given
    Tag(n, x)                -> major 6
    Raw(bytes)               -> spliced in verbatim (already encoded)
    Chunked(bytes, n)        -> indefinite byte string in n-byte chunks
    None / True / False      -> simple values
"""


class Tag:
    __slots__ = ("tag", "value")

    def __init__(self, tag, value):
        self.tag = tag
        self.value = value

    def __repr__(self):
        return f"Tag({self.tag}, {self.value!r})"

    def __eq__(self, o):
        return isinstance(o, Tag) and o.tag == self.tag and o.value == self.value


class Raw:
    __slots__ = ("data",)

    def __init__(self, data):
        self.data = bytes(data)


class Indef:
    __slots__ = ("items",)

    def __init__(self, items):
        self.items = list(items)


class Map:
    __slots__ = ("pairs", "indef")

    def __init__(self, pairs, indef=False):
        self.pairs = list(pairs)
        self.indef = indef


class Chunked:
    __slots__ = ("data", "n")

    def __init__(self, data, n=64):
        self.data = bytes(data)
        self.n = n


def _head(major, n):
    if n < 0:
        raise ValueError("negative length")
    if n < 24:
        return bytes([(major << 5) | n])
    if n < 1 << 8:
        return bytes([(major << 5) | 24, n])
    if n < 1 << 16:
        return bytes([(major << 5) | 25]) + n.to_bytes(2, "big")
    if n < 1 << 32:
        return bytes([(major << 5) | 26]) + n.to_bytes(4, "big")
    if n < 1 << 64:
        return bytes([(major << 5) | 27]) + n.to_bytes(8, "big")
    raise ValueError("head argument too large")


def _enc(x, out):
    if x is None:
        out.append(0xF6)
    elif x is True:
        out.append(0xF5)
    elif x is False:
        out.append(0xF4)
    elif isinstance(x, int):
        if 0 <= x < 1 << 64:
            out += _head(0, x)
        elif -(1 << 64) <= x < 0:
            out += _head(1, -1 - x)
        elif x >= 0:
            out += _head(6, 2)
            _enc(x.to_bytes((x.bit_length() + 7) // 8, "big"), out)
        else:
            m = -1 - x
            out += _head(6, 3)
            _enc(m.to_bytes((m.bit_length() + 7) // 8, "big"), out)
    elif isinstance(x, (bytes, bytearray)):
        out += _head(2, len(x))
        out += x
    elif isinstance(x, str):
        b = x.encode("utf8")
        out += _head(3, len(b))
        out += b
    elif isinstance(x, (list, tuple)):
        out += _head(4, len(x))
        for i in x:
            _enc(i, out)
    elif isinstance(x, Indef):
        out.append(0x9F)
        for i in x.items:
            _enc(i, out)
        out.append(0xFF)
    elif isinstance(x, dict):
        out += _head(5, len(x))
        for k, v in x.items():
            _enc(k, out)
            _enc(v, out)
    elif isinstance(x, Map):
        if x.indef:
            out.append(0xBF)
        else:
            out += _head(5, len(x.pairs))
        for k, v in x.pairs:
            _enc(k, out)
            _enc(v, out)
        if x.indef:
            out.append(0xFF)
    elif isinstance(x, Tag):
        out += _head(6, x.tag)
        _enc(x.value, out)
    elif isinstance(x, Raw):
        out += x.data
    elif isinstance(x, Chunked):
        out.append(0x5F)
        for i in range(0, len(x.data), x.n):
            _enc(x.data[i:i + x.n], out)
        out.append(0xFF)
    else:
        raise TypeError(f"cannot encode {type(x)}")


def dumps(x):
    out = bytearray()
    _enc(x, out)
    return bytes(out)


# ------------------------------------------------------------------ decoder


class DecodeError(Exception):
    pass


def _arg(b, pos):
    ib = b[pos]
    major, info = ib >> 5, ib & 31
    pos += 1
    if info < 24:
        return major, info, pos
    if info == 24:
        return major, b[pos], pos + 1
    if info == 25:
        return major, int.from_bytes(b[pos:pos + 2], "big"), pos + 2
    if info == 26:
        return major, int.from_bytes(b[pos:pos + 4], "big"), pos + 4
    if info == 27:
        return major, int.from_bytes(b[pos:pos + 8], "big"), pos + 8
    if info == 31:
        return major, None, pos
    raise DecodeError(f"reserved additional info {info}")


def decode_item(b, pos=0):
    """-> (value, end). Maps decode to Map(pairs) (keys may be unhashable), arrays to list,
    tags to Tag, except bignums which decode to int."""
    major, n, pos = _arg(b, pos)
    if major == 0:
        return n, pos
    if major == 1:
        return -1 - n, pos
    if major in (2, 3):
        if n is None:
            acc = bytearray()
            while b[pos] != 0xFF:
                m2, n2, pos = _arg(b, pos)
                if m2 != major or n2 is None:
                    raise DecodeError("bad chunk")
                acc += b[pos:pos + n2]
                pos += n2
            pos += 1
            data = bytes(acc)
        else:
            if pos + n > len(b):
                raise DecodeError("truncated")
            data = bytes(b[pos:pos + n])
            pos += n
        return (data if major == 2 else data.decode("utf8")), pos
    if major == 4:
        items = []
        if n is None:
            while b[pos] != 0xFF:
                v, pos = decode_item(b, pos)
                items.append(v)
            return items, pos + 1
        for _ in range(n):
            v, pos = decode_item(b, pos)
            items.append(v)
        return items, pos
    if major == 5:
        pairs = []
        if n is None:
            while b[pos] != 0xFF:
                k, pos = decode_item(b, pos)
                v, pos = decode_item(b, pos)
                pairs.append((k, v))
            return Map(pairs, indef=True), pos + 1
        for _ in range(n):
            k, pos = decode_item(b, pos)
            v, pos = decode_item(b, pos)
            pairs.append((k, v))
        return Map(pairs), pos
    if major == 6:
        v, pos = decode_item(b, pos)
        if n == 2 and isinstance(v, bytes):
            return int.from_bytes(v, "big"), pos
        if n == 3 and isinstance(v, bytes):
            return -1 - int.from_bytes(v, "big"), pos
        return Tag(n, v), pos
    # major 7
    if n == 20:
        return False, pos
    if n == 21:
        return True, pos
    if n == 22:
        return None, pos
    raise DecodeError(f"unsupported simple value {n}")


def loads(b):
    v, end = decode_item(b, 0)
    if end != len(b):
        raise DecodeError(f"trailing bytes ({len(b) - end})")
    return v


def split_array(b):
    """Raw encodings of the elements of a top-level array (definite or indefinite;
    an optional set tag 258 is skipped)."""
    major, n, pos = _arg(b, 0)
    if major == 6:
        major, n, pos = _arg(b, pos)
    if major != 4:
        raise DecodeError("not an array")
    out = []
    if n is None:
        while b[pos] != 0xFF:
            _, end = decode_item(b, pos)
            out.append(bytes(b[pos:end]))
            pos = end
        return out
    for _ in range(n):
        _, end = decode_item(b, pos)
        out.append(bytes(b[pos:end]))
        pos = end
    return out


def map_get(m, key, default=None):
    for k, v in m.pairs:
        if k == key:
            return v
    return default


def map_raw_entries(b):
    """[(key value, raw value bytes)] of a top-level map."""
    major, n, pos = _arg(b, 0)
    if major != 5:
        raise DecodeError("not a map")
    out = []
    i = 0
    while True:
        if n is None:
            if b[pos] == 0xFF:
                break
        elif i >= n:
            break
        k, pos = decode_item(b, pos)
        _, end = decode_item(b, pos)
        out.append((k, bytes(b[pos:end])))
        pos = end
        i += 1
    return out


# ------------------------------------------------------------------ PlutusData <-> the harness JSON form


def data_obj(d):
    """JSON data ({"c","f"} | {"m"} | {"l"} | {"i"} | {"b"}) -> encoder object, following the
    conventions of the Haskell `Data` encoder: constructor tags 121..127 / 1280..1400 / 102,
    indefinite arrays for non-empty lists and fields, definite maps, 64-byte chunks for
    long byte strings, bignum tags beyond 64 bits."""
    if "f" in d:
        ix = int(d["c"])
        fields = [data_obj(x) for x in d["f"]]
        body = Indef(fields) if fields else []
        if ix < 7:
            return Tag(121 + ix, body)
        if ix < 128:
            return Tag(1280 + ix - 7, body)
        return Tag(102, [ix, body])
    if "m" in d:
        return Map([(data_obj(k), data_obj(v)) for k, v in d["m"]])
    if "l" in d:
        xs = [data_obj(x) for x in d["l"]]
        return Indef(xs) if xs else []
    if "i" in d:
        return int(d["i"])
    if "b" in d:
        b = bytes.fromhex(d["b"])
        return Chunked(b, 64) if len(b) > 64 else b
    raise ValueError(f"bad data {d}")


def data_dumps(d):
    return dumps(data_obj(d))


def data_obj_foreign(d):
    """The same value as another tool chain may write it: valid CBOR, but not the form the
    Haskell encoder / pallas re-encoding produce: definite-length long byte strings, definite
    arrays, non-minimal integer heads. The hash a transaction commits to is the hash of these
    bytes, not of a re-encoding."""
    if "f" in d:
        ix = int(d["c"])
        fields = [data_obj_foreign(x) for x in d["f"]]
        if ix < 7:
            return Tag(121 + ix, fields)
        if ix < 128:
            return Tag(1280 + ix - 7, fields)
        return Tag(102, [ix, fields])
    if "m" in d:
        return Map([(data_obj_foreign(k), data_obj_foreign(v)) for k, v in d["m"]])
    if "l" in d:
        return [data_obj_foreign(x) for x in d["l"]]
    if "i" in d:
        n = int(d["i"])
        if 0 <= n < 24:
            return Raw(bytes([0x18, n]))
        if 24 <= n < 256:
            return Raw(bytes([0x19, 0x00, n]))
        if -24 <= n < 0:
            return Raw(bytes([0x38, -1 - n]))
        return n
    if "b" in d:
        return bytes.fromhex(d["b"])  # definite length whatever the size
    raise ValueError(f"bad data {d}")


def data_dumps_foreign(d):
    return dumps(data_obj_foreign(d))


def data_from_obj(v):
    """decoded CBOR -> JSON data (by value)."""
    if isinstance(v, Tag):
        if 121 <= v.tag <= 127:
            return {"c": str(v.tag - 121), "f": [data_from_obj(x) for x in v.value]}
        if 1280 <= v.tag <= 1400:
            return {"c": str(v.tag - 1280 + 7), "f": [data_from_obj(x) for x in v.value]}
        if v.tag == 102:
            return {"c": str(v.value[0]), "f": [data_from_obj(x) for x in v.value[1]]}
        raise ValueError(f"bad data tag {v.tag}")
    if isinstance(v, Map):
        return {"m": [[data_from_obj(k), data_from_obj(x)] for k, x in v.pairs]}
    if isinstance(v, list):
        return {"l": [data_from_obj(x) for x in v]}
    if isinstance(v, bool) or v is None:
        raise ValueError("bad data")
    if isinstance(v, int):
        return {"i": str(v)}
    if isinstance(v, bytes):
        return {"b": v.hex()}
    raise ValueError(f"bad data {v!r}")


def data_loads(b):
    return data_from_obj(loads(b))
