"""Targeted program shapes for the optimiser checks (C02, and C01 through the same driver).

The random G-aiken stream rarely repeats one builtin with one constant often enough for the
passes that only fire on repetition (builtin_curry_reducer needs the same (builtin, constant)
pair more than twice; the identity / constant-argument inliners need particular positions).
This module writes them systematically: every curryable builtin x every choice of constant
argument positions x 2..4 occurrences x same / mixed constants, each occurrence applied to its
own run-time parameters, the results returned together so that no occurrence is dead code.

Cases have the shape of aiken_checks.generated_cases (src / modules / entries with argument
tuples); no expected values are attached: C02 compares optimiser snapshots with each other."""
import common

I, B, S, D, BOOL, LD = "Int", "ByteArray", "String", "Data", "Bool", "List<Data>"

# name, parameter types, result type, operator (or None)
BUILTINS = [
    ("add_integer", (I, I), I, "+"),
    ("subtract_integer", (I, I), I, "-"),
    ("multiply_integer", (I, I), I, "*"),
    ("divide_integer", (I, I), I, "/"),
    ("mod_integer", (I, I), I, "%"),
    ("quotient_integer", (I, I), I, None),
    ("remainder_integer", (I, I), I, None),
    ("equals_integer", (I, I), BOOL, "=="),
    ("less_than_integer", (I, I), BOOL, "<"),
    ("less_than_equals_integer", (I, I), BOOL, "<="),
    ("append_bytearray", (B, B), B, None),
    ("cons_bytearray", (I, B), B, None),
    ("slice_bytearray", (I, I, B), B, None),
    ("index_bytearray", (B, I), I, None),
    ("equals_bytearray", (B, B), BOOL, "=="),
    ("less_than_bytearray", (B, B), BOOL, None),
    ("less_than_equals_bytearray", (B, B), BOOL, None),
    ("equals_string", (S, S), BOOL, None),
    ("append_string", (S, S), S, None),
    ("constr_data", (I, LD), D, None),
    ("equals_data", (D, D), BOOL, None),
    ("integer_to_bytearray", (BOOL, I, I), B, None),
    ("bytearray_to_integer", (BOOL, B), I, None),
    ("and_bytearray", (BOOL, B, B), B, None),
    ("or_bytearray", (BOOL, B, B), B, None),
    ("xor_bytearray", (BOOL, B, B), B, None),
    ("replicate_byte", (I, I), B, None),
    ("rotate_bytearray", (B, I), B, None),
    ("shift_bytearray", (B, I), B, None),
]
EXTRA_OPS = [(">", (I, I), BOOL), (">=", (I, I), BOOL), ("!=", (I, I), BOOL)]

CONSTS = {
    I: ["7", "2", "-3", "1", "256", "18446744073709551616", "0"],
    B: ['#"00ff"', '#"616263"', '#""', '#"0102030405060708090a"'],
    S: ['@"ab"', '@"z"', '@""'],
    BOOL: ["True", "False"],
    D: ["k_data_1", "k_data_2"],
    LD: ["[]", "[builtin.i_data(1)]"],
}
PRELUDE = "use aiken/builtin\n\nconst k_data_1: Data = 42\n\nconst k_data_2: Data = #\"beef\"\n\n"

ARG_VALUES = {
    I: [0, 1, -1, 7, -7, 3, 256, 2**64, -(2**63) - 1, 5, 10, 2],
    B: ["", "00", "ff00ab", "616263646566", "00" * 32, "7a"],
    S: ["", "61", "6162", "7a7a7a"],  # passed as ByteArray and decoded
    BOOL: [0, 1],
    D: [{"i": "42"}, {"b": "beef"}, {"l": []}, {"c": "0", "f": []}, {"i": "0"}],
    LD: [{"l": []}, {"l": [{"i": "42"}]}, {"l": [{"b": ""}, {"i": "1"}]}],
}


def param_type(t):
    return B if t == S else t


def use_param(t, name):
    return f"builtin.decode_utf8({name})" if t == S else name


def arg_json(t, v):
    if t == I:
        return {"i": str(v)}
    if t in (B, S):
        return {"b": v}
    if t == BOOL:
        return {"c": str(v), "f": []}
    return v


def to_data(t, e):
    return f"builtin.encode_utf8({e})" if t == S else e


def subsets(n):
    """non-empty proper subsets of argument positions to hold constants"""
    out = []
    for m in range(1, 2**n - 1):
        out.append([i for i in range(n) if m >> i & 1])
    return out


def entries_for(rng, quick):
    """yield (fn source, parameter types, label)"""
    k = 0
    specs = [(n, tys, ret, None) for n, tys, ret, _ in BUILTINS] + [(n, tys, ret, op) for n, tys, ret, op in BUILTINS if op] + [(None, tys, ret, op) for op, tys, ret in EXTRA_OPS]
    for name, tys, ret, op in specs:
        for cpos in subsets(len(tys)):
            for occ in (2, 3, 4):
                for mixed in (False, True):
                    if quick and mixed and occ == 2:
                        continue
                    consts = {p: rng.shuffle(CONSTS[tys[p]])[:2] for p in cpos}
                    params = []
                    calls = []
                    for o in range(occ):
                        args = []
                        for p, t in enumerate(tys):
                            if p in cpos:
                                args.append(consts[p][1 if (mixed and o == 1 and len(consts[p]) > 1) else 0])
                            else:
                                pn = f"x{o}_{p}"
                                params.append((pn, t))
                                args.append(use_param(t, pn))
                        call = f"({args[0]} {op} {args[1]})" if op else f"builtin.{name}({', '.join(args)})"
                        calls.append(to_data(ret, call))
                    sig = ", ".join(f"{n}: {param_type(t)}" for n, t in params)
                    src = f"pub fn entry_{k}({sig}) -> Data {{\n  let result: Data = [{', '.join(calls)}]\n  result\n}}\n"
                    yield k, src, [t for _, t in params], f"{name or op}{'(op)' if op and name else ''}|const@{cpos}|x{occ}|{'mixed' if mixed else 'same'}"
                    k += 1


# closures over a binding that can fail: the binding is made when the closure is built, whether
# or not the closure is ever called (the lambda-lifting passes must not move it below the lambda)
CLOSURES = [
    ("closure-over-expect-cast", "fn mk_{k}(d: Data) -> fn(Int) -> Int {\n  expect v: Int = d\n  fn(z) { v + z }\n}\n\npub fn entry_{k}(d: Data, b: Bool) -> Data {\n  let g = mk_{k}(d)\n  let result: Data =\n    if b {\n      g(1)\n    } else {\n      0\n    }\n  result\n}\n", [D, BOOL]),
    ("closure-over-division", "fn mk_{k}(a: Int) -> fn(Int) -> Int {\n  let x = 10 / a\n  fn(z) { x + z }\n}\n\npub fn entry_{k}(a: Int, b: Bool) -> Data {\n  let g = mk_{k}(a)\n  let result: Data =\n    if b {\n      g(1)\n    } else {\n      0\n    }\n  result\n}\n", [I, BOOL]),
    ("closure-over-head-list", "fn mk_{k}(xs: List<Data>) -> fn(Int) -> Data {\n  let h = builtin.head_list(xs)\n  fn(z) { if z > 0 { h } else { builtin.i_data(z) } }\n}\n\npub fn entry_{k}(xs: List<Data>, b: Bool) -> Data {\n  let g = mk_{k}(xs)\n  let result: Data =\n    if b {\n      g(1)\n    } else {\n      builtin.i_data(0)\n    }\n  result\n}\n", [LD, BOOL]),
    ("closure-in-list-never-called", "fn mk_{k}(a: Int) -> fn(Int) -> Int {\n  let x = 10 / a\n  fn(z) { x * z }\n}\n\npub fn entry_{k}(a: Int, b: Bool) -> Data {\n  let f = mk_{k}(a)\n  let g = mk_{k}(a + 1)\n  let result: Data =\n    if b {\n      f(2) + g(3)\n    } else {\n      0\n    }\n  result\n}\n", [I, BOOL]),
    ("closure-two-levels", "fn mk_{k}(a: Int) -> fn(Int) -> fn(Int) -> Int {\n  let x = 10 / a\n  fn(y) {\n    let w = 10 / y\n    fn(z) { x + w + z }\n  }\n}\n\npub fn entry_{k}(a: Int, b: Bool) -> Data {\n  let g = mk_{k}(a)\n  let h = g(a - 1)\n  let result: Data =\n    if b {\n      h(1)\n    } else {\n      0\n    }\n  result\n}\n", [I, BOOL]),
]


def cases(seed, n_args, quick=True, per_module=6):
    rng = common.Rng(seed, 202)
    out = []
    cur = []
    base = list(entries_for(rng, quick))
    k0 = len(base)
    closures = [(k0 + i, src.replace("{k}", str(k0 + i)), ptys, name + "|closure") for i, (name, src, ptys) in enumerate(CLOSURES)]
    for k, src, ptys, label in base + closures:
        tuples = []
        if label.endswith("|closure"):
            # every first-argument value x both flags: the failing binding with the closure never called
            tuples = [[arg_json(ptys[0], v), arg_json(BOOL, f)] for v in ARG_VALUES[ptys[0]] for f in (0, 1)]
        for _ in range(n_args if not tuples else 0):
            tuples.append([arg_json(t, rng.pick(ARG_VALUES[t])) for t in ptys])
        cur.append((k, src, tuples, label))
        if len(cur) == per_module:
            out.append(cur)
            cur = []
    if cur:
        out.append(cur)
    res = []
    for mi, group in enumerate(out):
        src = PRELUDE + "\n".join(s for _, s, _, _ in group)
        res.append({
            "index": mi,
            "modules": [{"name": "m", "kind": "lib", "src": src}],
            "src": src,
            "features": sorted({"tmpl:" + l.split("|")[0] for _, _, _, l in group}),
            "labels": {f"entry_{k}": l for k, _, _, l in group},
            "entries": [{"name": f"entry_{k}", "args": t, "expected": [["ok", None]] * len(t)} for k, _, t, _ in group],
        })
    return res
