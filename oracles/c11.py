#!/usr/bin/env python3
"""C11 — variable binding survives name/index conversions.

Oracle: an independent binder resolver (scope stack keyed by unique) computes, for a
named term, the de Bruijn tree it denotes or FREE; every conversion the repository
offers must produce exactly that tree (or an error iff FREE), and every named term a
conversion returns is resolved again by the same independent resolver."""
import sys

import common
import gen_uplc as G
from common import Check, Rng, h, norm

FREE = "FREE"


def resolve(t, scope=None):
    """named JSON term -> de Bruijn JSON tree; raises KeyError on a free variable."""
    scope = scope or []
    tag = t[0]
    if tag == "var":
        u = t[1][1]
        for i in range(len(scope) - 1, -1, -1):
            if scope[i] == u:
                return ["var", len(scope) - i]
        raise KeyError(u)
    if tag == "lam":
        return ["lam", resolve(t[2], scope + [t[1][1]])]
    if tag == "app":
        return ["app", resolve(t[1], scope), resolve(t[2], scope)]
    if tag in ("delay", "force"):
        return [tag, resolve(t[1], scope)]
    if tag == "constr":
        return ["constr", t[1], [resolve(x, scope) for x in t[2]]]
    if tag == "case":
        return ["case", resolve(t[1], scope), [resolve(x, scope) for x in t[2]]]
    return t


def try_resolve(t):
    try:
        return resolve(t)
    except KeyError:
        return FREE


def closed(t, depth=0):
    tag = t[0]
    if tag == "var":
        return 1 <= t[1] <= depth
    if tag == "lam":
        return closed(t[1], depth + 1)
    if tag == "app":
        return closed(t[1], depth) and closed(t[2], depth)
    if tag in ("delay", "force"):
        return closed(t[1], depth)
    if tag == "constr":
        return all(closed(x, depth) for x in t[2])
    if tag == "case":
        return closed(t[1], depth) and all(closed(x, depth) for x in t[2])
    return True


NAMES = [("x", 0), ("y", 1), ("x", 2)]  # same text with two uniques (shadowing by text), plus another


def enum_named(n, names):
    """all named terms with exactly n nodes over {var, lam, app, delay, force, constr, case}"""
    if n == 1:
        for nm in names:
            yield ["var", list(nm)]
        yield ["constr", 0, []]
        return
    for nm in names:
        for b in enum_named(n - 1, names):
            yield ["lam", list(nm), b]
    for b in enum_named(n - 1, names):
        yield ["delay", b]
        yield ["force", b]
        yield ["constr", 1, [b]]
        yield ["case", b, []]
    for k in range(1, n - 1):
        for f in enum_named(k, names):
            for x in enum_named(n - 1 - k, names):
                yield ["app", f, x]
                yield ["case", f, [x]]
                yield ["constr", 0, [f, x]]


def enum_db(n, depth, maxidx):
    if n == 1:
        for i in range(0, maxidx + 1):
            yield ["var", i]
        yield ["con", "integer", "1"]
        return
    for b in enum_db(n - 1, depth + 1, maxidx):
        yield ["lam", b]
    for b in enum_db(n - 1, depth, maxidx):
        yield ["delay", b]
        yield ["constr", 0, [b]]
    for k in range(1, n - 1):
        for f in enum_db(k, depth, maxidx):
            for x in enum_db(n - 1 - k, depth, maxidx):
                yield ["app", f, x]
                yield ["case", f, [x]]


def rand_named(rng, size, scope, uniques):
    if size <= 1:
        r = rng.below(10)
        if scope and r < 6:
            return ["var", list(rng.pick(scope))]
        if r < 7:
            return ["var", list(rng.pick(uniques))]  # possibly free
        if r < 9:
            return ["con", "integer", str(rng.below(5))]
        return ["builtin", "addInteger"]
    k = rng.below(9)
    if k < 3:
        nm = rng.pick(uniques)
        return ["lam", list(nm), rand_named(rng, size - 1, scope + [nm], uniques)]
    if k < 5:
        l = 1 + rng.below(size - 1)
        return ["app", rand_named(rng, l, scope, uniques), rand_named(rng, size - 1 - l, scope, uniques)]
    if k == 5:
        return ["delay", rand_named(rng, size - 1, scope, uniques)]
    if k == 6:
        return ["force", rand_named(rng, size - 1, scope, uniques)]
    if k == 7:
        l = 1 + rng.below(size - 1)
        return ["constr", rng.below(3), [rand_named(rng, l, scope, uniques), rand_named(rng, max(1, size - 1 - l), scope, uniques)]]
    l = 1 + rng.below(size - 1)
    return ["case", rand_named(rng, l, scope, uniques), [rand_named(rng, max(1, size - 1 - l), scope, uniques)]]


def main():
    a = common.parse_args(sys.argv[1:])
    if not a.no_build:
        common.build(["uplc-run"])
    chk = Check("C11", "exploration", a.tier)
    rng = Rng(chk.seed, 11)
    quick = a.tier != "thorough"
    jobs = []
    # exhaustive: named terms up to N nodes over 3 names (2 texts x 2 uniques pattern)
    max_named = 5 if quick else 6
    n_exh = 0
    for n in range(1, max_named + 1):
        for t in enum_named(n, NAMES):
            jobs.append({"id": len(jobs), "op": "convert", "named": t, "eval": False, "_k": "named-exh"})
            n_exh += 1
    # exhaustive: de Bruijn terms with indices 0..3 (0 and beyond-depth are free)
    max_db = 5 if quick else 7
    for n in range(1, max_db + 1):
        for t in enum_db(n, 0, 3):
            jobs.append({"id": len(jobs), "op": "convert", "debruijn": t, "eval": False, "_k": "db-exh"})
            n_exh += 1
    # random, larger, with evaluation
    uniques = [("a", 0), ("b", 1), ("a", 2), ("c", 3), ("b", 4), ("d", 7)]
    for i in range(3000 if quick else 60000):
        t = rand_named(rng, 3 + rng.below(60 if i % 10 else 200), [], uniques)
        jobs.append({"id": len(jobs), "op": "convert", "named": t, "eval": True, "_k": "named-rand"})
    names = [b["name"] for b in G.builtin_table()]
    for i in range(2000 if quick else 40000):
        t = G.gen_term(rng, 3 + rng.below(60), names, 0, open_rate=(8 if i % 2 else 0))
        jobs.append({"id": len(jobs), "op": "convert", "debruijn": t, "eval": bool(i % 2 == 0), "_k": "db-rand"})

    res = common.run_jobs("uplc-run", [{k: v for k, v in j.items() if not k.startswith("_")} for j in jobs])

    def viol(key, j, r, what):
        chk.violation(key, {"input": j.get("named") or j.get("debruijn"), "form": "named" if "named" in j else "debruijn", "what": what, "observed": {k: v for k, v in r.items() if k != "id"}})

    for j in jobs:
        r = norm(res.get(j["id"], {}))
        chk.count(j["_k"])
        if "harness_error" in r:
            chk.inconc("harness_error")
            continue
        if "panic" in r or "died" in r or "timeout" in r:
            viol("C11|crash", j, r, "conversion crashed")
            continue
        bad = False
        if "named" in j:
            want = try_resolve(j["named"])
            if want == FREE:
                chk.count("free_named")
                for k in ("to_nd", "to_d"):
                    if k in r:
                        viol(f"C11|named|free-variable-accepted|{k}", j, r, "free variable converted Ok")
                        bad = True
                # the code generator's path: CodeGenInterner renumbering, then conversion. A free
                # variable must still be free afterwards (rejected), never captured by a binder
                # that happens to receive the same fresh unique.
                if "interned_to_nd" in r:
                    viol("C11|named|free-variable-captured-after-re-interning", j, r, "free variable converted Ok after CodeGenInterner")
                    bad = True
                elif "interned_to_nd_err" in r:
                    chk.count("free_named_rejected_after_re_interning")
            else:
                for k in ("to_nd", "to_d"):
                    if r.get(k) != want:
                        viol(f"C11|named|wrong-index|{k}", j, r, {"want": want})
                        bad = True
                for k in ("nd_to_name", "d_to_name", "interned"):
                    if k not in r:
                        viol(f"C11|named|roundtrip-missing|{k}", j, r, "conversion back failed")
                        bad = True
                    elif try_resolve(r[k]) != want:
                        viol(f"C11|named|roundtrip-not-alpha-equivalent|{k}", j, r, {"want": want, "got": try_resolve(r[k])})
                        bad = True
                if r.get("interned_to_nd", want) != want or "interned_to_nd_err" in r:
                    viol("C11|named|re-interned-program-converts-differently", j, r, {"want": want})
                    bad = True
                if r.get("nd_to_name_to_nd", want) != want:
                    viol("C11|named|roundtrip2", j, r, {"want": want})
                    bad = True
                if "eval" in r and r.get("eval") != r.get("eval_roundtrip"):
                    viol("C11|named|evaluation-differs-after-roundtrip", j, r, "eval differs")
                    bad = True
        else:
            t = j["debruijn"]
            if closed(t):
                for k in ("d_to_name", "nd_to_name"):
                    if k not in r:
                        viol(f"C11|debruijn|closed-term-rejected|{k}", j, r, "closed term rejected")
                        bad = True
                    elif try_resolve(r[k]) != t:
                        viol(f"C11|debruijn|not-alpha-equivalent|{k}", j, r, {"got": try_resolve(r[k])})
                        bad = True
                if r.get("d_to_name_to_d") != t:
                    viol("C11|debruijn|roundtrip", j, r, "d->name->d differs")
                    bad = True
            else:
                chk.count("free_debruijn")
                for k in ("d_to_name", "nd_to_name"):
                    if k in r:
                        viol(f"C11|debruijn|free-index-accepted|{k}", j, r, {"resolved": try_resolve(r[k])})
                        bad = True
            if r.get("fake_rt") != t:
                viol("C11|debruijn|fake-named-roundtrip", j, r, "fake named round trip differs")
                bad = True
        if not bad:
            inp = j.get("named") or j.get("debruijn")
            chk.held(h(inp), nontrivial=G.term_size(inp) >= 2, sample={"input": inp, "kind": j["_k"]} if j["id"] % 4999 == 7 else None)
    chk.assumptions = [
        "binding of a named variable is decided by its unique (the Plutus convention); generated programs give every unique a single text",
        "exhaustive slice: all named terms <= %d nodes over 3 names (2 texts, shadowing and duplicate texts) and all de Bruijn terms <= %d nodes with indices 0..3" % (max_named, max_db),
    ]
    chk.finish(
        rule="exhaustive enumeration of small named / de Bruijn terms (closed and open) plus seeded random terms to 200 nodes; distinct = structural hash of the input; non-trivial = at least 2 nodes",
        floor={"evaluations": 5000, "free_named": 50, "free_debruijn": 50},
        extra_coverage={"exhaustive_slice_terms": n_exh},
    )


if __name__ == "__main__":
    main()
