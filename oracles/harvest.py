"""Seed corpus harvested at run time from the working tree (/repo): Aiken sources embedded
as raw strings in the repository's own test files, the shipped .ak files, and the
UPLC conformance corpus. Nothing is cached across runs: a check that uses the corpus
sees the tree as it is now."""
import glob
import os
import re

import common

RAW = re.compile(r'r#"(.*?)"#', re.S)
TEST_FILES = [
    "crates/aiken-project/src/tests/gen_uplc.rs",
    "crates/aiken-lang/src/tests/check.rs",
]
SURFACE_FILES = [
    "crates/aiken-lang/src/tests/format.rs",
    "crates/aiken-lang/src/tests/parser.rs",
    "crates/aiken-lang/src/tests/lexer.rs",
]


def dedent(src):
    lines = src.split("\n")
    ind = [len(l) - len(l.lstrip()) for l in lines if l.strip()]
    k = min(ind) if ind else 0
    return "\n".join(l[k:] if l.strip() else "" for l in lines)


def raw_sources(files=None):
    out = []
    seen = set()
    for rel in files or TEST_FILES:
        path = os.path.join(common.REPO, rel)
        if not os.path.exists(path):
            continue
        text = open(path, encoding="utf8").read()
        for i, m in enumerate(RAW.finditer(text)):
            src = dedent(m.group(1))
            if src in seen or not src.strip():
                continue
            seen.add(src)
            out.append((f"{rel}#{i}", src))
    return out


def parser_snippets():
    """raw strings in the parser's own unit tests (crates/aiken-lang/src/parser/**)"""
    out = []
    seen = set()
    for path in sorted(glob.glob(os.path.join(common.REPO, "crates/aiken-lang/src/parser/**/*.rs"), recursive=True)):
        text = open(path, encoding="utf8").read()
        for i, m in enumerate(RAW.finditer(text)):
            src = dedent(m.group(1))
            if src in seen or not src.strip():
                continue
            seen.add(src)
            out.append((f"{os.path.relpath(path, common.REPO)}#{i}", src))
    return out


def shipped_ak_files():
    out = []
    for root in ("examples", "benchmarks"):
        for path in sorted(glob.glob(os.path.join(common.REPO, root, "**/*.ak"), recursive=True)):
            if "/build/" in path:
                continue
            try:
                out.append((os.path.relpath(path, common.REPO), open(path, encoding="utf8").read()))
            except (OSError, UnicodeDecodeError):
                pass
    return out


UNIT_TEST = re.compile(r"^\s*test\s+([a-z_][A-Za-z0-9_]*)\s*\(\s*\)\s*(fail(?:\s+once)?)?\s*\{", re.M)
VALIDATOR = re.compile(r"^\s*validator\s+([a-z_][A-Za-z0-9_]*)", re.M)


def typechecking_modules(tracing="verbose-all"):
    """[(origin, src, [unit test names], [validator names])] for every harvested source the
    working tree's type checker accepts as a stand-alone validator module."""
    srcs = raw_sources()
    items = [{"name": "m", "kind": "validator", "src": s} for _, s in srcs]
    jobs = []
    B = 40
    for i in range(0, len(items), B):
        jobs.append({"id": len(jobs), "op": "infer_many", "tracing": tracing, "items": items[i:i + B]})
    res = common.run_jobs("aiken-run", jobs)
    out = []
    for j in jobs:
        r = res.get(j["id"], {})
        for k, item in enumerate(r.get("results", [])):
            idx = j["id"] * B + k
            if item.get("accepted"):
                origin, src = srcs[idx]
                tests = [m.group(1) for m in UNIT_TEST.finditer(src)]
                vals = [m.group(1) for m in VALIDATOR.finditer(src)]
                out.append((origin, src, tests, vals))
    return out


def compiled_hexes(limit=200):
    """hex of programs the working tree compiles from the harvested unit tests"""
    mods = [m for m in typechecking_modules() if m[2]]
    jobs = []
    for origin, src, tests, _ in mods[:limit]:
        jobs.append({
            "id": len(jobs), "op": "compile_eval", "modules": [{"name": "m", "kind": "validator", "src": src}],
            "tracings": ["silent-all" if len(jobs) % 2 else "verbose-all"], "emit_hex": True, "detailed": False,
            "entries": [{"kind": "test", "module": "m", "name": t} for t in tests[:3]],
        })
    res = common.run_jobs("aiken-run", jobs, per_job_timeout=120)
    out = []
    for j in jobs:
        r = res.get(j["id"], {})
        for run in r.get("runs", []):
            for e in run.get("entries", []):
                if e.get("hex"):
                    out.append(e["hex"])
    return out


def conformance_files(version="v3"):
    base = os.path.join(common.REPO, "crates/uplc/test_data/conformance", version)
    return sorted(glob.glob(os.path.join(base, "**/*.uplc"), recursive=True))
