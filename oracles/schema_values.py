#!/usr/bin/env python3
"""Print, as JSON, typed values from the C12 type generator: [{"defs": src, "type": str,
"conforming": [data..], "nonconforming": [data..], "primitive": bool}] — run as a separate
process because schema_ref and aiken_ref both have a top-level module called `gen`.
`primitive` = the type is (an alias of) Int / ByteArray / Bool / Void / Data: casts to those
are subject to recorded findings (evaluated by need / cancelled against an up-cast)."""
import json
import os
import sys

sys.path.insert(0, os.path.join(os.path.dirname(os.path.abspath(__file__)), "schema_ref"))
sys.path.insert(0, os.path.dirname(os.path.abspath(__file__)))
import gen as SG  # noqa: E402
import model as M  # noqa: E402
from common import Rng  # noqa: E402

seed, n = int(sys.argv[1]), int(sys.argv[2])
BAD = {"bare-pair", "record-tag", "self-nested-generic", "alias-of-recursive-generic", "list-deco"}
out = []
k = 0
while len(out) < n and k < n * 4:
    rng = Rng(seed, stream=14000 + k)
    k += 1
    mod, types, _ = SG.gen_types(rng, quirky=False)
    for t in types:
        if len(out) >= n:
            break
        if M.features(mod, t) & BAD:
            continue
        vals = SG.values_for(mod, t, [o for o in types if o != t], rng, n_conf=6, n_mut=12, n_cross=2, n_rand=2)
        conf = [d for d, _, _ in vals if M.conforms(mod, t, d)]
        bad = [d for d, _, _ in vals if not M.conforms(mod, t, d)]
        src = "\n".join(M.render_def(mod.defs[nm]) for nm in SG.reachable_defs(mod, t))
        kind = M.head(mod, t)[0]
        out.append({"defs": src, "type": M.show(t), "conforming": conf[:6], "nonconforming": bad[:14], "primitive": kind not in ("option", "list", "tuple", "pair", "app"), "kind": kind})
json.dump(out, sys.stdout)
