"""G-uplc / G-args / G-data: generators of UPLC terms (JSON tree format, see
harness/PROTOCOL.md), constants and PlutusData, boundary-biased and seeded."""
import json
import subprocess

from common import Rng, bin_path

BOUNDARY_INTS = [
    0, 1, -1, 2, -2, 7, 8, 9, 127, 128, 255, 256, -255, -256, 65535, 65536,
    2**31 - 1, 2**31, -(2**31), 2**32, 2**63 - 1, 2**63, -(2**63), -(2**63) - 1, 2**64 - 1, 2**64, 2**64 + 1,
    -(2**64), 2**127, 2**128 - 1, 2**128, 2**128 + 1, -(2**128), 2**255, 2**256, 2**511, 2**512, 8192, 8193,
    10**30, -(10**30), 2**8191, -(2**8191),
]

STRINGS = [
    "", "a", "hello", "é", "ÿ", "Ā", "ß→∀", "\U0001F600", "a\nb", "tab\there", "quote\"inside", "back\\slash",
    "\x7f", "\x00", "\x01\x02", "\r\n", "'", "{}()[]", "​", "퟿", "", "�", "\U0010ffff", "x" * 70,
    "\x1b[0m", "\x07bell", "\x0b\x0c", "a\x00b", "\u0085", " ",
]

BYTES_LENS = [0, 1, 2, 7, 8, 9, 31, 32, 33, 63, 64, 65, 127, 128, 255, 256, 257, 1000]


def builtin_table():
    out = subprocess.run([bin_path("uplc-run"), "--list-builtins"], capture_output=True, text=True, check=True).stdout
    return [json.loads(l) for l in out.splitlines() if l.strip()]


def gen_int(rng: Rng):
    r = rng.below(10)
    if r < 5:
        return rng.pick(BOUNDARY_INTS)
    if r < 8:
        return rng.range(-300, 300)
    bits = rng.pick([16, 40, 63, 64, 65, 100, 128, 200, 300])
    v = int.from_bytes(rng.bytes((bits + 7) // 8), "big") >> ((-bits) % 8)
    return -v if rng.chance(1, 2) else v


def gen_bytes(rng: Rng, maxlen=300):
    r = rng.below(10)
    if r < 5:
        n = rng.pick([l for l in BYTES_LENS if l <= maxlen])
    else:
        n = rng.below(20)
    k = rng.below(4)
    if k == 0:
        return b"\x00" * n
    if k == 1:
        return b"\xff" * n
    return rng.bytes(n)


def gen_string(rng: Rng):
    r = rng.below(10)
    if r < 6:
        return rng.pick(STRINGS)
    n = rng.below(8)
    out = []
    for _ in range(n):
        k = rng.below(6)
        if k == 0:
            out.append(chr(rng.below(0x20)))
        elif k == 1:
            out.append(chr(0x20 + rng.below(0x5F)))
        elif k == 2:
            out.append(chr(0x80 + rng.below(0x780)))
        elif k == 3:
            c = 0x800 + rng.below(0xF800)
            if 0xD800 <= c <= 0xDFFF:
                c = 0xE000
            out.append(chr(c))
        elif k == 4:
            out.append(chr(0x10000 + rng.below(0x100000)))
        else:
            out.append(rng.pick(['"', "\\", "\n", "\t", "\x7f", "'"]))
    return "".join(out)


CONSTR_TAGS = [0, 1, 2, 3, 6, 7, 8, 127, 128, 129, 1000, 2**32, 2**63, 2**64 - 1]


def gen_data(rng: Rng, depth=3, encodings=False):
    k = rng.below(5) if depth > 0 else 3 + rng.below(2)
    if k == 0:
        d = {"c": str(rng.pick(CONSTR_TAGS) if rng.chance(1, 2) else rng.below(4)), "f": [gen_data(rng, depth - 1, encodings) for _ in range(rng.below(4))]}
        if encodings and rng.chance(1, 2):
            d["indef"] = rng.chance(1, 2)
        return d
    if k == 1:
        d = {"m": [[gen_data(rng, depth - 1, encodings), gen_data(rng, depth - 1, encodings)] for _ in range(rng.below(3))]}
        if encodings and rng.chance(1, 2):
            d["indef"] = rng.chance(1, 2)
        return d
    if k == 2:
        d = {"l": [gen_data(rng, depth - 1, encodings) for _ in range(rng.below(4))]}
        if encodings and rng.chance(1, 2):
            d["indef"] = rng.chance(1, 2)
        return d
    if k == 3:
        d = {"i": str(gen_int(rng))}
        if encodings and rng.chance(1, 3):
            d["enc"] = "big"
        return d
    return {"b": gen_bytes(rng, 100).hex()}


BASE_TYPES = ["integer", "bytestring", "string", "unit", "bool", "data"]


def gen_type(rng: Rng, depth=2, bls=False):
    if depth <= 0 or rng.chance(3, 5):
        ts = BASE_TYPES + (["g1", "g2"] if bls else [])
        return rng.pick(ts)
    if rng.chance(1, 2):
        return ["list", gen_type(rng, depth - 1, bls)]
    return ["pair", gen_type(rng, depth - 1, bls), gen_type(rng, depth - 1, bls)]


# compressed generators / identities of the BLS12-381 groups (valid points; from the IETF spec)
G1_ZERO = "c" + "0" * 95
G2_ZERO = "c" + "0" * 191
G1_GEN = "97f1d3a73197d7942695638c4fa9ac0fc3688c4f9774b905a14e3a3f171bac586c55e83ff97a1aeffb3af00adb22c6bb"
G2_GEN = (
    "93e02b6052719f607dacd3a088274f65596bd0d09920b61ab5da61bbdc7f5049334cf11213945d57e5ac7d055d042b7e"
    "024aa2b2f08f0a91260805272dc51051c6e47ad4fa403b02b4510b647ae3d1770bac0326a805bbefd48056c8c121bdb8"
)


def gen_value(rng: Rng, t, depth=2, encodings=False):
    if t == "integer":
        return str(gen_int(rng))
    if t == "bytestring":
        return gen_bytes(rng).hex()
    if t == "string":
        return gen_string(rng)
    if t == "unit":
        return None
    if t == "bool":
        return rng.chance(1, 2)
    if t == "data":
        return gen_data(rng, depth, encodings)
    if t == "g1":
        return rng.pick([G1_ZERO, G1_GEN])
    if t == "g2":
        return rng.pick([G2_ZERO, G2_GEN])
    if t[0] == "list":
        return [gen_value(rng, t[1], depth - 1, encodings) for _ in range(rng.below(4))]
    if t[0] == "pair":
        return [gen_value(rng, t[1], depth - 1, encodings), gen_value(rng, t[2], depth - 1, encodings)]
    raise ValueError(t)


def gen_constant(rng: Rng, depth=2, bls=False, encodings=False):
    t = gen_type(rng, depth, bls)
    return ["con", t, gen_value(rng, t, 2, encodings)]


def gen_term(rng: Rng, size, builtins, depth=0, allow_constr=True, bls=False, open_rate=0, encodings=False):
    """Random closed (unless open_rate>0) term over every constructor; not necessarily terminating
    or well-typed: meant for codec / printer / crash workloads."""
    if size <= 1:
        k = rng.below(10)
        if k < 3 and depth > 0:
            return ["var", 1 + rng.below(depth)]
        if open_rate and rng.below(100) < open_rate:
            return ["var", rng.pick([0, depth + 1, depth + 2, 2**31, 2**63])]
        if k < 6:
            return gen_constant(rng, 2, bls, encodings)
        if k < 8:
            return ["builtin", rng.pick(builtins)]
        if k == 8:
            return ["error"]
        return ["lam", ["var", 1]] if depth < 60 else ["error"]
    k = rng.below(12 if allow_constr else 9)
    if k < 3:
        l = 1 + rng.below(size - 1)
        return ["app", gen_term(rng, l, builtins, depth, allow_constr, bls, open_rate, encodings), gen_term(rng, size - 1 - l, builtins, depth, allow_constr, bls, open_rate, encodings)]
    if k < 5:
        return ["lam", gen_term(rng, size - 1, builtins, depth + 1, allow_constr, bls, open_rate, encodings)]
    if k < 7:
        return ["delay", gen_term(rng, size - 1, builtins, depth, allow_constr, bls, open_rate, encodings)]
    if k < 9:
        return ["force", gen_term(rng, size - 1, builtins, depth, allow_constr, bls, open_rate, encodings)]
    if k < 11:
        n = rng.below(4)
        rest = size - 1
        fields = []
        for i in range(n):
            s = max(1, rest // (n - i))
            fields.append(gen_term(rng, s, builtins, depth, allow_constr, bls, open_rate, encodings))
            rest -= s
        return ["constr", rng.pick([0, 1, 2, 3, 255, 2**32, 2**63 - 1]) if rng.chance(1, 4) else rng.below(3), fields]
    n = rng.below(4)
    rest = size - 1
    s0 = max(1, rest // (n + 1))
    scrut = gen_term(rng, s0, builtins, depth, allow_constr, bls, open_rate, encodings)
    rest -= s0
    branches = []
    for i in range(n):
        s = max(1, rest // (n - i))
        branches.append(gen_term(rng, s, builtins, depth, allow_constr, bls, open_rate, encodings))
        rest -= s
    return ["case", scrut, branches]


def term_size(t):
    n = 0
    stack = [t]
    while stack:
        x = stack.pop()
        n += 1
        tag = x[0]
        if tag in ("lam", "delay", "force"):
            stack.append(x[1])
        elif tag == "app":
            stack.append(x[1])
            stack.append(x[2])
        elif tag == "constr":
            stack.extend(x[2])
        elif tag == "case":
            stack.append(x[1])
            stack.extend(x[2])
    return n


def term_features(t, feats=None):
    feats = feats if feats is not None else set()
    stack = [t]
    while stack:
        x = stack.pop()
        tag = x[0]
        feats.add(tag)
        if tag in ("lam", "delay", "force"):
            stack.append(x[1])
        elif tag == "app":
            stack.append(x[1])
            stack.append(x[2])
        elif tag == "constr":
            stack.extend(x[2])
        elif tag == "case":
            stack.append(x[1])
            stack.extend(x[2])
        elif tag == "builtin":
            feats.add("b:" + x[1])
        elif tag == "con":
            feats.add("t:" + json.dumps(x[1]))
    return feats
