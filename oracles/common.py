"""Shared orchestration for the /verif checks: build, sharded driver runs,
verdict bookkeeping, known findings, evidence and replay files.

Verdicts are three-valued (violated / held / inconclusive); exit codes:
0 = held on everything explored, 1 = VIOLATION printed, 2 = INCONCLUSIVE
(harness error, build failure, coverage floor not met).
"""
import hashlib
import json
import os
import select
import signal
import subprocess
import sys
import time

VERIF = os.path.dirname(os.path.dirname(os.path.abspath(__file__)))
# overridable so that the same checks can be pointed at a scratch copy of the repository
# (seeded-mutation trials, fix trials): the scratch harness copy has its path deps rewritten
HARNESS = os.environ.get("VERIF_HARNESS", os.path.join(VERIF, "harness"))
TARGET = os.environ.get("VERIF_TARGET", os.path.join(VERIF, "target"))
REPO = os.environ.get("VERIF_REPO", "/repo")
# where evidence/ and replay/ are written (trials against scratch copies must not touch /verif/evidence)
OUT = os.environ.get("VERIF_OUT", VERIF)
NCPU = int(os.environ.get("VERIF_JOBS", str(os.cpu_count() or 4)))
# terms nested a few thousand levels deep are part of the workloads (json is recursive)
sys.setrecursionlimit(max(sys.getrecursionlimit(), 30000))


def seed():
    try:
        return int(os.environ.get("VERIF_SEED", "0"))
    except ValueError:
        return 0


class Rng:
    """splitmix64; independent of Python's `random` so that runs are stable across versions."""

    def __init__(self, seed_, stream=0):
        self.s = (seed_ ^ (stream * 0x9E3779B97F4A7C15) ^ 0xD1B54A32D192ED03) & 0xFFFFFFFFFFFFFFFF
        self.next()
        self.next()

    def next(self):
        self.s = (self.s + 0x9E3779B97F4A7C15) & 0xFFFFFFFFFFFFFFFF
        z = self.s
        z = ((z ^ (z >> 30)) * 0xBF58476D1CE4E5B9) & 0xFFFFFFFFFFFFFFFF
        z = ((z ^ (z >> 27)) * 0x94D049BB133111EB) & 0xFFFFFFFFFFFFFFFF
        return z ^ (z >> 31)

    def below(self, n):
        return self.next() % n if n > 0 else 0

    def chance(self, num, den):
        return self.below(den) < num

    def pick(self, xs):
        return xs[self.below(len(xs))]

    def range(self, lo, hi):
        """inclusive"""
        return lo + self.below(hi - lo + 1)

    def shuffle(self, xs):
        xs = list(xs)
        for i in range(len(xs) - 1, 0, -1):
            j = self.below(i + 1)
            xs[i], xs[j] = xs[j], xs[i]
        return xs

    def bytes(self, n):
        out = bytearray()
        while len(out) < n:
            out += self.next().to_bytes(8, "little")
        return bytes(out[:n])


# ------------------------------------------------------------------ build

_built = set()


def build(bins=None, profile="release", features=None, quiet=True):
    """(Re)build the harness drivers against /repo's current working tree.
    cargo's path dependencies make this rebuild exactly the repo crates that changed."""
    key = (tuple(sorted(bins or [])), profile, features)
    if key in _built:
        return
    # the harness carries a copy of the repository's lock file (offline resolution)
    lock_src = os.path.join(REPO, "Cargo.lock")
    lock_dst = os.path.join(HARNESS, "Cargo.lock")
    if not os.path.exists(lock_dst):
        import shutil

        shutil.copy(lock_src, lock_dst)
    cmd = ["cargo", "build", "--offline"]
    if profile == "release":
        cmd.append("--release")
    else:
        cmd += ["--profile", profile]
    for b in bins or []:
        cmd += ["--bin", b]
    if features is not None:
        cmd += ["--no-default-features", "--features", features]
    env = dict(os.environ, CARGO_NET_OFFLINE="true")
    t0 = time.time()
    p = subprocess.run(cmd, cwd=HARNESS, env=env, stdout=subprocess.PIPE, stderr=subprocess.STDOUT, text=True)
    if p.returncode != 0:
        sys.stdout.write(p.stdout[-6000:])
        print("INCONCLUSIVE build failed (the tree under test does not compile with the harness)")
        sys.exit(2)
    if not quiet:
        print(f"[build] {' '.join(cmd)} ok in {time.time() - t0:.1f}s")
    _built.add(key)


def bin_path(name, profile="release"):
    return os.path.join(TARGET, profile, name)


# ------------------------------------------------------------------ sharded job running


def run_jobs(binary, jobs, shards=None, per_job_timeout=60.0, env=None, args=None, profile="release"):
    """Run `jobs` (list of dicts with unique 'id') through a JSONL driver, sharded over
    processes. Returns {id: result}. A driver death (abort, stack overflow, OOM kill) is
    attributed to the job in flight: result {'died': signal}. No output for
    `per_job_timeout` seconds => {'timeout': True} (inconclusive, never a verdict)."""
    if not jobs:
        return {}
    shards = shards or min(NCPU, max(1, len(jobs) // 4))
    parts = [jobs[i::shards] for i in range(shards)]
    procs = []
    exe = bin_path(binary, profile)
    environ = dict(os.environ)
    if env:
        environ.update(env)

    results = {}

    def start(part):
        p = subprocess.Popen([exe] + (args or []), stdin=subprocess.PIPE, stdout=subprocess.PIPE, stderr=subprocess.DEVNULL, env=environ)
        return {"p": p, "part": part, "sent": 0, "done": 0, "buf": b"", "last": time.time()}

    def feed(st):
        # keep a small window of jobs in flight so that a death is attributable
        while st["sent"] < len(st["part"]) and st["sent"] - st["done"] < 1:
            line = (json.dumps(st["part"][st["sent"]]) + "\n").encode()
            try:
                st["p"].stdin.write(line)
                st["p"].stdin.flush()
            except (BrokenPipeError, OSError):
                break
            st["sent"] += 1
            st["last"] = time.time()
        if st["sent"] >= len(st["part"]) and st["done"] >= len(st["part"]):
            try:
                st["p"].stdin.close()
            except OSError:
                pass

    active = []
    for part in parts:
        if part:
            st = start(part)
            feed(st)
            active.append(st)

    while active:
        fds = [st["p"].stdout for st in active]
        ready, _, _ = select.select(fds, [], [], 1.0)
        now = time.time()
        for st in list(active):
            out = st["p"].stdout
            if out in ready:
                chunk = os.read(out.fileno(), 1 << 20)
                if chunk:
                    st["buf"] += chunk
                    while b"\n" in st["buf"]:
                        line, st["buf"] = st["buf"].split(b"\n", 1)
                        if not line.strip():
                            continue
                        try:
                            r = json.loads(line)
                        except json.JSONDecodeError:
                            r = {"harness_error": "bad driver output", "raw": line[:200].decode("utf8", "replace")}
                        jid = st["part"][st["done"]]["id"]
                        r.setdefault("id", jid)
                        results[jid] = r
                        st["done"] += 1
                        st["last"] = time.time()
                    feed(st)
                    if st["done"] >= len(st["part"]):
                        try:
                            st["p"].stdin.close()
                        except OSError:
                            pass
                        st["p"].wait()
                        active.remove(st)
                    continue
                # EOF: process ended
                rc = st["p"].wait()
                active.remove(st)
                if st["done"] < len(st["part"]):
                    jid = st["part"][st["done"]]["id"]
                    results[jid] = {"id": jid, "died": rc}
                    rest = st["part"][st["done"] + 1:]
                    if rest:
                        st2 = start(rest)
                        feed(st2)
                        active.append(st2)
                continue
            if now - st["last"] > per_job_timeout and st["done"] < len(st["part"]):
                st["p"].kill()
                st["p"].wait()
                active.remove(st)
                jid = st["part"][st["done"]]["id"]
                results[jid] = {"id": jid, "timeout": True}
                rest = st["part"][st["done"] + 1:]
                if rest:
                    st2 = start(rest)
                    feed(st2)
                    active.append(st2)
    return results


# ------------------------------------------------------------------ verdicts, findings, evidence


def load_known_findings():
    """Parse /verif/known_findings.txt ("known:" lines only; "fixed:" lines suppress nothing)."""
    path = os.path.join(VERIF, "known_findings.txt")
    out = []
    if not os.path.exists(path):
        return out
    with open(path) as f:
        for line in f:
            line = line.strip()
            if not line.startswith("known:"):
                continue
            body = line[len("known:"):].strip()
            head, _, what = body.partition("::")
            fields = dict(kv.split("=", 1) for kv in head.split() if "=" in kv and not kv.startswith("key="))
            key = head.split("key=", 1)[1].strip() if "key=" in head else ""
            out.append({"property": fields.get("property"), "key": key, "what": what.strip(), "status": "known"})
    return out


class Check:
    """Bookkeeping for one run of one property check."""

    def __init__(self, prop, level, tier=None):
        self.prop = prop
        self.level = level
        self.tier = tier or os.environ.get("VERIF_TIER", "quick")
        self.seed = seed()
        self.t0 = time.time()
        self.evaluations = 0
        self.distinct = set()
        self.samples = []
        self.violations = []  # (key, witness)
        self.known_hits = {}  # key -> count
        self.inconclusive = {}  # reason -> count
        self.counters = {}
        self.known = {f["key"]: f for f in load_known_findings() if f.get("property") == prop and f.get("status") == "known"}
        self.assumptions = []
        self.extra = {}
        # witnesses of earlier runs are stale once a new run starts
        d = os.path.join(OUT, "replay", prop)
        if os.path.isdir(d) and not os.environ.get("VERIF_KEEP_REPLAY"):
            for f in os.listdir(d):
                if f.endswith(".json"):
                    try:
                        os.unlink(os.path.join(d, f))
                    except OSError:
                        pass

    def count(self, name, n=1):
        self.counters[name] = self.counters.get(name, 0) + n

    def held(self, case_hash=None, nontrivial=True, sample=None):
        self.evaluations += 1
        if nontrivial and case_hash is not None:
            self.distinct.add(case_hash)
        if sample is not None and len(self.samples) < 8:
            self.samples.append(sample)

    def inconc(self, reason):
        self.evaluations += 1
        self.inconclusive[reason] = self.inconclusive.get(reason, 0) + 1

    def violation(self, key, witness):
        """`key` is an exact signature of what failed (used to match known findings).
        Source line numbers inside a key (panic locations) are dropped: they move with every
        unrelated edit of the file, the file name stays."""
        import re

        key = re.sub(r"(\.rs):\d+(:\d+)?", r"\1", key)
        if key not in self.known and "+" in key.rpartition("|")[2]:
            # one case showing several independent recorded findings (`prefix|a+b`): known iff
            # every component `prefix|a`, `prefix|b` is known; booked on the first component
            prefix, _, last = key.rpartition("|")
            parts = [f"{prefix}|{x}" for x in last.split("+")]
            if all(x in self.known for x in parts):
                key = parts[0]
        self.evaluations += 1
        if key in self.known:
            self.known_hits[key] = self.known_hits.get(key, 0) + 1
            return False
        # keep at most 3 witnesses per distinct key (and at most 300 keys): one noisy
        # defect must not crowd out the others
        per_key = self.counters.get("violations:" + key, 0)
        self.counters["violations:" + key] = per_key + 1
        if per_key < 3 and len(self.violations) < 900:
            self.violations.append((key, witness))
        else:
            self.count("violations_not_recorded")
        return True

    def finish(self, rule, floor=None, extra_coverage=None, explanation=None, programs=None, disagreements_checked=None, exhaustive=None):
        wall = time.time() - self.t0
        for key, n in sorted(self.known_hits.items()):
            print(f"KNOWN-FINDING: property={self.prop} {self.known[key].get('what', key)} [key={key}] ({n} cases)")
        paths = []
        for key, witness in self.violations:
            h = hashlib.sha256(json.dumps([key, witness], sort_keys=True, default=str).encode()).hexdigest()[:16]
            d = os.path.join(OUT, "replay", self.prop)
            os.makedirs(d, exist_ok=True)
            path = os.path.join(d, f"{h}.json")
            with open(path, "w") as f:
                json.dump({"property": self.prop, "key": key, "seed": self.seed, "tier": self.tier, "witness": witness}, f, indent=1, default=str)
            paths.append((key, path))
        coverage = {
            "evaluations": self.evaluations,
            "distinct_nontrivial": len(self.distinct),
            "rule": rule,
            "samples": self.samples[:8] if self.samples else [],
            "counters": dict(sorted(self.counters.items())),
            "inconclusive": dict(sorted(self.inconclusive.items())),
            "known_findings_hit": {k: v for k, v in sorted(self.known_hits.items())},
        }
        if programs is not None:
            coverage["programs"] = programs
        if disagreements_checked is not None:
            coverage["disagreements_checked"] = disagreements_checked
        if explanation:
            coverage["explanation"] = explanation
        if exhaustive is not None:
            coverage["exhaustive"] = exhaustive
        if extra_coverage:
            coverage.update(extra_coverage)
        if self.extra:
            coverage.update(self.extra)
        ev = {
            "property_id": self.prop,
            "tier": self.tier if self.tier in ("quick", "thorough") else "quick",
            "seed": self.seed,
            "level": self.level,
            "coverage": coverage,
            "assumptions": self.assumptions,
            "wall_s": round(wall, 2),
            "violations": len(self.violations),
        }
        os.makedirs(os.path.join(OUT, "evidence"), exist_ok=True)
        with open(os.path.join(OUT, "evidence", f"{self.prop}.json"), "w") as f:
            json.dump(ev, f, indent=1, default=str)
        if paths:
            seen = set()
            for key, path in paths:
                if key in seen:
                    continue
                seen.add(key)
                print(f"VIOLATION property={self.prop} replay={path}  [{key}]")
            sys.exit(1)
        problems = []
        if floor:
            for name, minimum in floor.items():
                if name == "distinct_nontrivial":
                    got = len(self.distinct)
                elif name == "evaluations":
                    got = self.evaluations
                else:
                    got = self.counters.get(name, 0)
                if got < minimum:
                    problems.append(f"{name}={got} < floor {minimum}")
        if not self.samples:
            problems.append("no samples recorded")
        if problems:
            print(f"INCONCLUSIVE property={self.prop} coverage floor not met: {'; '.join(problems)}")
            sys.exit(2)
        print(f"OK property={self.prop} tier={self.tier} seed={self.seed} evaluations={self.evaluations} distinct={len(self.distinct)} inconclusive={sum(self.inconclusive.values())} known={sum(self.known_hits.values())} wall={wall:.1f}s")
        sys.exit(0)


def norm(t):
    """Drop CBOR-encoding details ("indef", "enc", "raw") from Data inside a JSON tree:
    comparisons by value."""
    if isinstance(t, dict):
        return {k: norm(v) for k, v in t.items() if k not in ("indef", "enc", "raw", "useraw")}
    if isinstance(t, list):
        return [norm(x) for x in t]
    return t


def h(obj):
    return hashlib.sha256(json.dumps(obj, sort_keys=True, default=str).encode()).hexdigest()[:20]


def parse_args(argv):
    import argparse

    ap = argparse.ArgumentParser()
    ap.add_argument("--tier", default=os.environ.get("VERIF_TIER", "quick"))
    ap.add_argument("--replay", default=None)
    ap.add_argument("--no-build", action="store_true")
    a = ap.parse_args(argv)
    os.environ["VERIF_TIER"] = a.tier
    return a
