"""C12 reference model: how Aiken types are represented as Plutus Data.

Written from the Aiken language documentation ("Data", "Custom types",
"Primitive types", the `@tag` / `@list` decorators) -- NOT from the compiler or
blueprint sources.  Every line of the table below was checked by hand-written
modules against BOTH the blueprint validator and the compiled `expect`
(see FINDINGS.md for the places where those two do not follow it).

    Int                 {"i"}                       ByteArray     {"b"}
    Bool                False = constr 0 [], True = constr 1 []
    Void                constr 0 []                 Never         constr 1 []
    Ordering            Less/Equal/Greater = constr 0/1/2 []
    Option<a>           Some(x) = constr 0 [x], None = constr 1 []
    List<a>             {"l"} of a          -- but List<Pair<k,v>> = {"m"} (any order, duplicates allowed)
    (a, b, ..)          {"l"} of exactly n elements
    Pair<a, b>          (anywhere but directly under List) {"l"} of exactly 2
    Data                anything
    user ADT            i-th constructor (0-based) = constr i [fields], exact field count;
                        `@tag(n)` on a constructor (or on a record type) replaces i by n;
                        `@list` on a record type: plain {"l"} of the fields.
    generics            by substitution; aliases are transparent; recursion is fine.

Type expressions (closed unless they contain ("var", n)):
    ("int",) ("bytes",) ("bool",) ("void",) ("ordering",) ("never",) ("data",)
    ("option", T) ("list", T) ("tuple", (T, ..)) ("pair", A, B)
    ("app", name, (T, ..))      user ADT or alias of the module
    ("var", name)

Abstract values (what `encode` / `render_value` take):
    ("int", n) ("bytes", b) ("bool", b) ("void",) ("ord", k) ("never",)
    ("none",) ("some", v) ("list", [v..]) ("tuple", [v..]) ("pair", a, b)
    ("con", position, [v..])    position = 0-based position of the constructor in the definition
    ("data", T, v)              a value v of the closed type T up-cast into a `Data` slot

Data JSON: {"c":"<index>","f":[..]} | {"m":[[k,v]..]} | {"l":[..]} | {"i":"<dec>"} | {"b":hex}
"""

# ----------------------------------------------------------------- definitions


class Ctor:
    def __init__(self, name, fields, tag=None):
        self.name = name
        self.fields = list(fields)  # [(label | None, type)]
        self.tag = tag  # explicit @tag(n) or None


class Adt:
    def __init__(self, name, params, ctors, sugar=False, list_deco=False):
        self.name = name
        self.params = list(params)
        self.ctors = list(ctors)
        self.sugar = sugar  # record syntax `type X { a: Int, .. }` (single constructor named like the type)
        self.list_deco = list_deco  # `@list` on a record
        assert not sugar or len(self.ctors) == 1
        assert not list_deco or (sugar and self.ctors[0].tag is None)

    def index(self, position):
        t = self.ctors[position].tag
        return position if t is None else t


class Alias:
    def __init__(self, name, params, body):
        self.name = name
        self.params = list(params)
        self.body = body


class Module:
    def __init__(self, defs=None):
        self.defs = {}
        self.order = []
        for d in defs or []:
            self.add(d)

    def add(self, d):
        self.defs[d.name] = d
        self.order.append(d.name)


INT, BYTES, BOOL, VOID, ORDERING, NEVER, DATA = ("int",), ("bytes",), ("bool",), ("void",), ("ordering",), ("never",), ("data",)

_BUILTIN_ENUM = {"bool": 2, "void": 1, "ordering": 3}


class ModelError(Exception):
    pass


# ----------------------------------------------------------------- type utilities


def subst(t, env):
    k = t[0]
    if k == "var":
        if t[1] not in env:
            raise ModelError("free type variable " + t[1])
        return env[t[1]]
    if k in ("option", "list"):
        return (k, subst(t[1], env))
    if k == "tuple":
        return ("tuple", tuple(subst(x, env) for x in t[1]))
    if k == "pair":
        return ("pair", subst(t[1], env), subst(t[2], env))
    if k == "app":
        return ("app", t[1], tuple(subst(x, env) for x in t[2]))
    return t


def head(mod, t):
    """Expand aliases at the head of `t`."""
    n = 0
    while t[0] == "app" and isinstance(mod.defs.get(t[1]), Alias):
        a = mod.defs[t[1]]
        t = subst(a.body, dict(zip(a.params, t[2])))
        n += 1
        if n > 64:
            raise ModelError("alias cycle")
    return t


def adt_of(mod, t):
    d = mod.defs.get(t[1])
    if not isinstance(d, Adt):
        raise ModelError("unknown type " + t[1])
    if len(d.params) != len(t[2]):
        raise ModelError("arity of " + t[1])
    return d, dict(zip(d.params, t[2]))


def show(t):
    """Aiken surface syntax of a type expression."""
    k = t[0]
    if k == "int":
        return "Int"
    if k == "bytes":
        return "ByteArray"
    if k == "bool":
        return "Bool"
    if k == "void":
        return "Void"
    if k == "ordering":
        return "Ordering"
    if k == "never":
        return "Never"
    if k == "data":
        return "Data"
    if k == "var":
        return t[1]
    if k == "option":
        return "Option<" + show(t[1]) + ">"
    if k == "list":
        return "List<" + show(t[1]) + ">"
    if k == "tuple":
        return "(" + ", ".join(show(x) for x in t[1]) + ")"
    if k == "pair":
        return "Pair<" + show(t[1]) + ", " + show(t[2]) + ">"
    if k == "app":
        return t[1] + ("<" + ", ".join(show(x) for x in t[2]) + ">" if t[2] else "")
    raise ModelError("bad type " + repr(t))


# ----------------------------------------------------------------- conformance

# "quirks" are NOT part of the model: they reproduce behaviours of the
# implementation that contradict the table above, and are used only to NAME a
# disagreement once it has been observed (stable violation keys).
Q_RECORD_TAG_0 = "record-tag-checked-as-0"  # compiled `expect` of a `@tag(n)` record checks index 0
Q_BARE_PAIR_NOTHING = "bare-pair-schema"  # schema of a Pair outside a List is `#pair`: no Data value fits


def conforms(mod, t, d, quirks=frozenset()):
    """Does the Data value `d` (JSON form) represent a value of the closed type `t`?"""
    t = head(mod, t)
    k = t[0]
    if k == "data":
        return True
    if k == "int":
        return "i" in d
    if k == "bytes":
        return "b" in d
    if k in _BUILTIN_ENUM:
        return "c" in d and not d["f"] and int(d["c"]) < _BUILTIN_ENUM[k]
    if k == "never":
        return "c" in d and not d["f"] and int(d["c"]) == 1
    if k == "option":
        if "c" not in d:
            return False
        i = int(d["c"])
        if i == 0:
            return len(d["f"]) == 1 and conforms(mod, t[1], d["f"][0], quirks)
        return i == 1 and not d["f"]
    if k == "list":
        e = head(mod, t[1])
        if e[0] == "pair":
            return "m" in d and all(conforms(mod, e[1], kv[0], quirks) and conforms(mod, e[2], kv[1], quirks) for kv in d["m"])
        return "l" in d and all(conforms(mod, e, x, quirks) for x in d["l"])
    if k == "tuple":
        return "l" in d and len(d["l"]) == len(t[1]) and all(conforms(mod, a, x, quirks) for a, x in zip(t[1], d["l"]))
    if k == "pair":
        if Q_BARE_PAIR_NOTHING in quirks:
            return False
        return "l" in d and len(d["l"]) == 2 and conforms(mod, t[1], d["l"][0], quirks) and conforms(mod, t[2], d["l"][1], quirks)
    if k == "app":
        adt, env = adt_of(mod, t)
        if adt.list_deco:
            fs = adt.ctors[0].fields
            return "l" in d and len(d["l"]) == len(fs) and all(conforms(mod, subst(ft, env), x, quirks) for (_, ft), x in zip(fs, d["l"]))
        if "c" not in d:
            return False
        i = int(d["c"])
        for pos, c in enumerate(adt.ctors):
            idx = adt.index(pos)
            if adt.sugar and c.tag is not None and Q_RECORD_TAG_0 in quirks:
                idx = 0
            if idx == i:
                return len(d["f"]) == len(c.fields) and all(conforms(mod, subst(ft, env), x, quirks) for (_, ft), x in zip(c.fields, d["f"]))
        return False
    raise ModelError("not a closed serialisable type: " + repr(t))


# ----------------------------------------------------------------- encoding of values


def I(n):
    return {"i": str(n)}


def B(b):
    return {"b": b.hex() if isinstance(b, (bytes, bytearray)) else b}


def C(i, fields=()):
    return {"c": str(i), "f": list(fields)}


def L(xs):
    return {"l": list(xs)}


def M(kvs):
    return {"m": [[k, v] for k, v in kvs]}


def encode(mod, t, v):
    """Data representation of the abstract value `v` of closed type `t`."""
    t = head(mod, t)
    k = t[0]
    if k == "data":
        assert v[0] == "data"
        return encode(mod, v[1], v[2])
    if k == "int":
        return I(v[1])
    if k == "bytes":
        return B(v[1])
    if k == "bool":
        return C(1 if v[1] else 0)
    if k == "void":
        return C(0)
    if k == "ordering":
        return C(v[1])
    if k == "never":
        return C(1)
    if k == "option":
        return C(1) if v[0] == "none" else C(0, [encode(mod, t[1], v[1])])
    if k == "list":
        e = head(mod, t[1])
        if e[0] == "pair":
            return M((encode(mod, e[1], x[1]), encode(mod, e[2], x[2])) for x in v[1])
        return L(encode(mod, e, x) for x in v[1])
    if k == "tuple":
        return L(encode(mod, a, x) for a, x in zip(t[1], v[1]))
    if k == "pair":
        return L([encode(mod, t[1], v[1]), encode(mod, t[2], v[2])])
    if k == "app":
        adt, env = adt_of(mod, t)
        c = adt.ctors[v[1]]
        fs = [encode(mod, subst(ft, env), x) for (_, ft), x in zip(c.fields, v[2])]
        if adt.list_deco:
            return L(fs)
        return C(adt.index(v[1]), fs)
    raise ModelError("not a closed serialisable type: " + repr(t))


# ----------------------------------------------------------------- Aiken source rendering


def render_value(mod, t, v):
    """Aiken expression denoting the abstract value `v` of type `t`."""
    t = head(mod, t)
    k = t[0]
    if k == "data":
        return "as_data(" + render_value(mod, v[1], v[2]) + ")"
    if k == "int":
        return str(v[1])
    if k == "bytes":
        return '#"' + v[1].hex() + '"'
    if k == "bool":
        return "True" if v[1] else "False"
    if k == "void":
        return "Void"
    if k == "ordering":
        return ("Less", "Equal", "Greater")[v[1]]
    if k == "never":
        return "Never"
    if k == "option":
        return "None" if v[0] == "none" else "Some(" + render_value(mod, t[1], v[1]) + ")"
    if k == "list":
        return "[" + ", ".join(render_value(mod, t[1], x) for x in v[1]) + "]"
    if k == "tuple":
        return "(" + ", ".join(render_value(mod, a, x) for a, x in zip(t[1], v[1])) + ")"
    if k == "pair":
        return "Pair(" + render_value(mod, t[1], v[1]) + ", " + render_value(mod, t[2], v[2]) + ")"
    if k == "app":
        adt, env = adt_of(mod, t)
        c = adt.ctors[v[1]]
        if not c.fields:
            return c.name
        args = [render_value(mod, subst(ft, env), x) for (_, ft), x in zip(c.fields, v[2])]
        if all(lbl is not None for lbl, _ in c.fields) and (len(args) + v[1]) % 2 == 0:
            return c.name + " { " + ", ".join(lbl + ": " + a for (lbl, _), a in zip(c.fields, args)) + " }"
        return c.name + "(" + ", ".join(args) + ")"
    raise ModelError("not a closed serialisable type: " + repr(t))


def render_def(d):
    if isinstance(d, Alias):
        return "pub type " + d.name + ("<" + ", ".join(d.params) + ">" if d.params else "") + " = " + show(d.body) + "\n"
    hdr = "pub type " + d.name + ("<" + ", ".join(d.params) + ">" if d.params else "")
    out = []
    if d.sugar:
        c = d.ctors[0]
        if d.list_deco:
            out.append("@list")
        if c.tag is not None:
            out.append("@tag(%d)" % c.tag)
        out.append(hdr + " {")
        for lbl, ft in c.fields:
            out.append("  " + lbl + ": " + show(ft) + ",")
        out.append("}")
        return "\n".join(out) + "\n"
    out.append(hdr + " {")
    for c in d.ctors:
        if c.tag is not None:
            out.append("  @tag(%d)" % c.tag)
        if not c.fields:
            out.append("  " + c.name)
        elif all(lbl is not None for lbl, _ in c.fields):
            out.append("  " + c.name + " { " + ", ".join(lbl + ": " + show(ft) for lbl, ft in c.fields) + " }")
        else:
            out.append("  " + c.name + "(" + ", ".join(show(ft) for _, ft in c.fields) + ")")
    out.append("}")
    return "\n".join(out) + "\n"


def render_module(mod):
    return "\n".join(render_def(mod.defs[n]) for n in mod.order)


# ----------------------------------------------------------------- features (used to name disagreements only)


def features(mod, t):
    """Syntactic features of the closure of the closed type `t` that are known to matter:
    'bare-pair' (a Pair not directly under a List), 'record-tag' (a `@tag` on a record),
    'self-nested-generic' (while unfolding the fields of a generic ADT `G<X>` one meets `G<Y>`, Y != X),
    'alias-of-recursive-generic' (an alias that stands for a recursive generic ADT), 'list-deco'."""
    feats = set()
    budget = [20000]

    def go(t, under_list, stack):
        budget[0] -= 1
        if budget[0] < 0:
            return
        if t[0] == "app" and isinstance(mod.defs.get(t[1]), Alias) and is_alias_of_recursive_generic(mod, t):
            feats.add("alias-of-recursive-generic")
        t = head(mod, t)
        k = t[0]
        if k == "option":
            go(t[1], False, stack)
        elif k == "list":
            go(t[1], True, stack)
        elif k == "tuple":
            for x in t[1]:
                go(x, False, stack)
        elif k == "pair":
            if not under_list:
                feats.add("bare-pair")
            go(t[1], False, stack)
            go(t[2], False, stack)
        elif k == "app":
            adt, env = adt_of(mod, t)
            if any(a[1] == t[1] and a[2] != t[2] for a in stack):
                feats.add("self-nested-generic")
            if t in stack:
                return
            if adt.list_deco:
                feats.add("list-deco")
            if adt.sugar and adt.ctors[0].tag is not None:
                feats.add("record-tag")
            for c in adt.ctors:
                for _, ft in c.fields:
                    go(subst(ft, env), False, stack + (t,))

    go(t, False, ())
    return feats


def mentions_var(t, name):
    k = t[0]
    if k == "var":
        return t[1] == name
    if k in ("option", "list"):
        return mentions_var(t[1], name)
    if k == "tuple":
        return any(mentions_var(x, name) for x in t[1])
    if k == "pair":
        return mentions_var(t[1], name) or mentions_var(t[2], name)
    if k == "app":
        return any(mentions_var(x, name) for x in t[2])
    return False


def mentions_app(t, name):
    k = t[0]
    if k in ("option", "list"):
        return mentions_app(t[1], name)
    if k == "tuple":
        return any(mentions_app(x, name) for x in t[1])
    if k == "pair":
        return mentions_app(t[1], name) or mentions_app(t[2], name)
    if k == "app":
        return t[1] == name or any(mentions_app(x, name) for x in t[2])
    return False


def is_alias_of_recursive_generic(mod, body):
    """Is `body` (the right-hand side of an alias, or an alias application) headed by a generic ADT
    whose fields mention the ADT itself?"""
    try:
        t = head(mod, body)
    except ModelError:
        return False
    if t[0] != "app":
        return False
    d = mod.defs.get(t[1])
    if not isinstance(d, Adt) or not d.params:
        return False
    return any(mentions_app(ft, d.name) for c in d.ctors for _, ft in c.fields)


def strip(d):
    """Drop the driver's output-only annotations (indef/enc/raw) from a Data JSON value."""
    if "c" in d:
        return {"c": str(d["c"]), "f": [strip(x) for x in d["f"]]}
    if "m" in d:
        return {"m": [[strip(k), strip(v)] for k, v in d["m"]]}
    if "l" in d:
        return {"l": [strip(x) for x in d["l"]]}
    if "i" in d:
        return {"i": str(d["i"])}
    return {"b": d["b"]}
