"""C12 workload: type definitions, closed type expressions, conforming values and near-misses.

    gen_types(rng)                      -> (Module, [closed type expr], notes)
    gen_value(mod, t, rng, fuel)        -> abstract value (model.encode / model.render_value)
    values_for(mod, t, others, rng, ..) -> [(data, origin, abstract value | None)]
                                           origin: 'conf' | 'mut:<kind>[@root]' | 'cross' | 'random'
    build_source(mod, types, lits, validators) -> Aiken source with probe_i / accept_i / enc_i / rt_i / lit_i_j / v_i
    typed_values(seed, n)               -> (module_src, type_expr_str, [conforming], [nonconforming])  (for C18)
"""
import json
import os
import sys

sys.path.insert(0, os.path.dirname(os.path.dirname(os.path.abspath(__file__))))
sys.path.insert(0, os.path.dirname(os.path.abspath(__file__)))

from common import Rng  # noqa: E402
import model as M  # noqa: E402
from model import INT, BYTES, BOOL, VOID, ORDERING, NEVER, DATA, Adt, Alias, Ctor, Module  # noqa: E402

# ----------------------------------------------------------------- types


def weighted(rng, table):
    total = sum(w for w, _ in table)
    x = rng.below(total)
    for w, v in table:
        if x < w:
            return v
        x -= w
    return table[-1][1]


class TypeGen:
    def __init__(self, rng, quirky=True):
        self.rng = rng
        self.mod = Module()
        # the features with known divergences (bare Pair, @tag on records, G<G<..>>) are drawn per
        # module, so that most modules are free of them and keep all four judges in play
        self.allow_pair = quirky and rng.chance(12, 100)
        self.allow_record_tag = quirky and rng.chance(15, 100)
        self.allow_self_nested = quirky and rng.chance(12, 100)
        self.allow_alias_rec = quirky and rng.chance(10, 100)
        self.notes = set()

    # -- type expressions

    def leaf(self, vars_):
        rng = self.rng
        if vars_ and rng.chance(2, 5):
            return ("var", rng.pick(vars_))
        return weighted(rng, [(30, INT), (22, BYTES), (12, BOOL), (10, DATA), (3, VOID), (3, ORDERING), (1, NEVER)])

    def texpr(self, depth, vars_, self_ref=None, self_ok="any", avoid=frozenset()):
        """A type expression over `vars_` and the definitions made so far.
        self_ref: type expression of the ADT being defined (or None);
        self_ok: 'any' (self may appear anywhere below), 'guarded' (only as element of List/Option), 'no'."""
        rng = self.rng
        if depth <= 0:
            return self.leaf(vars_)
        if self_ref is not None and self_ok == "any" and rng.chance(1, 4):
            return self_ref
        kind = weighted(
            rng,
            [(34, "leaf"), (12, "option"), (16, "list"), (9, "tuple"), (7, "map"), (3 if self.allow_pair else 0, "pair"), (20 if self.mod.order else 0, "app")],
        )
        pool = [n for n in self.mod.order if n not in avoid]
        if kind == "app" and not pool:
            kind = "leaf"
        if kind == "leaf":
            return self.leaf(vars_)
        if kind in ("option", "list"):
            if self_ref is not None and self_ok in ("any", "guarded") and rng.chance(1, 4):
                return (kind, self_ref)
            return (kind, self.texpr(depth - 1, vars_, self_ref, self_ok if self_ok != "guarded" else "no", avoid))
        sub_ok = self_ok if self_ok == "any" else "no"
        if kind == "tuple":
            n = weighted(rng, [(6, 2), (3, 3), (1, 4)])
            return ("tuple", tuple(self.texpr(depth - 1, vars_, self_ref, sub_ok, avoid) for _ in range(n)))
        if kind == "map":
            return ("list", ("pair", self.texpr(depth - 1, vars_, None, "no", avoid), self.texpr(depth - 1, vars_, self_ref, sub_ok, avoid)))
        if kind == "pair":
            self.notes.add("bare-pair")
            return ("pair", self.texpr(depth - 1, vars_, None, "no", avoid), self.texpr(depth - 1, vars_, None, "no", avoid))
        name = rng.pick(pool)
        d = self.mod.defs[name]
        # a generic type inside its own arguments (G<G<Int>>) only in the modules that ask for it
        inner = avoid if self.allow_self_nested or not d.params else avoid | {name}
        return ("app", name, tuple(self.texpr(depth - 1, vars_, None, "no", inner) for _ in d.params))

    # -- definitions

    def define(self, k):
        rng = self.rng
        name = "T%d" % k
        kind = weighted(rng, [(40, "sum"), (25, "record"), (10, "alias" if k > 0 else "sum"), (5, "enum"), (20, "sum")])
        nparams = weighted(rng, [(60, 0), (30, 1), (10, 2)])
        params = ["a", "b"][:nparams]
        if kind == "alias":
            body = self.texpr(2, params)
            if body[0] in ("var",):
                body = ("list", body)
            if M.is_alias_of_recursive_generic(self.mod, body):
                # known to overflow the stack of the schema generator: only in the modules that ask for it
                if self.allow_alias_rec:
                    self.notes.add("alias-rec")
                else:
                    body = ("option", body)
            # only the parameters that are used: `type A<a, b> = Data` is (oddly) rejected by the
            # type checker as CyclicTypeDefinitions when another alias mentions it (see FINDINGS.md)
            params = [p for p in params if M.mentions_var(body, p)]
            self.mod.add(Alias(name, params, body))
            return
        self_ref = ("app", name, tuple(("var", p) for p in params))
        if kind == "record":
            nf = weighted(rng, [(2, 1), (4, 2), (4, 3), (2, 4), (1, 6)])
            fields = [("f%d" % i, self.texpr(2, params, self_ref, "guarded")) for i in range(nf)]
            c = Ctor(name, fields)
            list_deco = rng.chance(8, 100)
            if not list_deco and self.allow_record_tag and rng.chance(1, 2):
                c.tag = weighted(rng, [(3, rng.range(1, 9)), (2, rng.range(100, 130)), (1, rng.range(1000, 10**6))])
                self.notes.add("record-tag")
            self.mod.add(Adt(name, params, [c], sugar=True, list_deco=list_deco))
            return
        if kind == "enum":
            nc = rng.range(8, 12)
            ctors = []
            for j in range(nc):
                fs = [] if rng.chance(3, 4) else [(None, self.texpr(1, params))]
                ctors.append(Ctor("%sK%d" % (name, j), fs))
        else:
            nc = weighted(rng, [(1, 1), (4, 2), (4, 3), (2, 4), (1, 5)])
            ctors = []
            for j in range(nc):
                nf = weighted(rng, [(3, 0), (4, 1), (4, 2), (2, 3), (1, 4)])
                labelled = rng.chance(1, 3)
                fs = []
                for i in range(nf):
                    ft = self.texpr(2, params, self_ref, "guarded" if j == 0 else "any")
                    fs.append(("g%d" % i if labelled else None, ft))
                ctors.append(Ctor("%sC%d" % (name, j), fs))
        if rng.chance(12, 100):
            # explicit tags on some constructors; never colliding with the positions of the others
            used = set(range(len(ctors)))
            for c in ctors:
                if rng.chance(1, 2):
                    while True:
                        t = weighted(rng, [(3, rng.range(len(ctors), len(ctors) + 6)), (2, rng.range(120, 135)), (1, rng.range(1000, 70000)), (1, rng.range(2**32, 2**40))])
                        if t not in used:
                            break
                    used.add(t)
                    c.tag = t
            self.notes.add("ctor-tag")
        self.mod.add(Adt(name, params, ctors))

    # -- closed type expressions of interest

    def closed_arg(self, depth=1, avoid=frozenset()):
        return self.texpr(depth, [], None, "no", avoid)

    def interesting(self):
        rng = self.rng
        out = []
        for name in self.mod.order:
            d = self.mod.defs[name]
            insts = 1 if not d.params else weighted(rng, [(3, 2), (1, 3)])
            for _ in range(insts):
                args = tuple(self.closed_arg(rng.range(0, 1), frozenset() if self.allow_self_nested else frozenset([name])) for _ in d.params)
                t = ("app", name, args)
                if d.params and isinstance(d, Adt) and self.allow_self_nested and rng.chance(1, 3):
                    t = ("app", name, (t,) + args[1:])  # G<G<..>>
                    self.notes.add("self-nested")
                out.append(t)
        extra = rng.range(1, 3)
        for _ in range(extra):
            base = rng.pick(out) if out and rng.chance(3, 4) else self.closed_arg(1)
            wrap = weighted(rng, [(3, "list"), (3, "option"), (2, "tuple"), (2, "map"), (1, "bare"), (1 if self.allow_pair else 0, "pair")])
            if wrap == "list":
                out.append(("list", base))
            elif wrap == "option":
                out.append(("option", base))
            elif wrap == "tuple":
                out.append(("tuple", (self.closed_arg(0), base) if rng.chance(1, 2) else (base, self.closed_arg(0), self.closed_arg(1))))
            elif wrap == "map":
                out.append(("list", ("pair", self.closed_arg(0), base)))
            elif wrap == "pair":
                out.append(("pair", self.closed_arg(0), base))
            else:
                out.append(self.closed_arg(2))
        # de-duplicate on the surface syntax
        seen, res = set(), []
        for t in out:
            s = M.show(t)
            if s not in seen:
                seen.add(s)
                res.append(t)
        return res


def gen_types(rng, quirky=True, ndefs=None):
    g = TypeGen(rng, quirky)
    n = ndefs or rng.range(4, 10)
    for k in range(n):
        g.define(k)
    types = g.interesting()
    return g.mod, types, g.notes


# ----------------------------------------------------------------- values

_INTS = [0, 1, -1, 2, 23, 24, 255, 256, -256, 2**31, 2**63 - 1, 2**63, -(2**63), -(2**63) - 1, 2**64 - 1, 2**64, -(2**64), 2**64 + 1, 2**127, -(2**128), 10**30]
_BYTELENS = [0, 0, 1, 2, 4, 28, 32, 63, 64, 65, 130]


def gen_int(rng):
    r = rng.below(10)
    if r < 4:
        return rng.pick(_INTS)
    if r < 8:
        return rng.range(-20, 200)
    v = int.from_bytes(rng.bytes(rng.range(1, 20)), "big")
    return -v if rng.chance(1, 2) else v


def gen_bytes(rng):
    return rng.bytes(rng.pick(_BYTELENS) if rng.chance(2, 3) else rng.range(0, 8))


def base_position(mod, adt):
    """Position of a constructor that does not need a value of the type itself (outside List/Option)."""

    def mentions(t, guarded):
        k = t[0]
        if k == "app":
            if t[1] == adt.name:
                return not guarded
            return any(mentions(x, False) for x in t[2])
        if k in ("list", "option"):
            return mentions(t[1], True) if t[1][0] == "app" and t[1][1] == adt.name else mentions(t[1], False)
        if k == "tuple":
            return any(mentions(x, False) for x in t[1])
        if k == "pair":
            return mentions(t[1], False) or mentions(t[2], False)
        return False

    for pos, c in enumerate(adt.ctors):
        if not any(mentions(ft, False) for _, ft in c.fields):
            return pos
    return 0


_DATA_LEAF_TYPES = [INT, BYTES, BOOL, ("tuple", (INT, BYTES)), ("list", INT), ("option", INT), ("list", ("pair", INT, BYTES)), ORDERING]


def gen_value(mod, t, rng, fuel=4, for_literal=False):
    t = M.head(mod, t)
    k = t[0]
    if k == "int":
        return ("int", gen_int(rng))
    if k == "bytes":
        return ("bytes", gen_bytes(rng))
    if k == "bool":
        return ("bool", rng.chance(1, 2))
    if k == "void":
        return ("void",)
    if k == "ordering":
        return ("ord", rng.below(3))
    if k == "never":
        return ("never",)
    if k == "data":
        dt = rng.pick(_DATA_LEAF_TYPES)
        v = gen_value(mod, dt, rng, 1, True)
        # keep the expression's type inferable when rendered as `as_data(..)`
        if v[0] == "list" and not v[1]:
            v = ("list", [gen_value(mod, M.head(mod, dt)[1], rng, 0, True)])
        if v[0] == "none":
            v = ("some", ("int", 7))
        return ("data", dt, v)
    if k == "option":
        if fuel <= 0 or rng.chance(1, 3):
            return ("none",)
        return ("some", gen_value(mod, t[1], rng, fuel - 1, for_literal))
    if k == "list":
        if fuel <= 0 or rng.chance(1, 4):
            return ("list", [])
        n = weighted(rng, [(4, 1), (3, 2), (2, 3), (1, 5)])
        return ("list", [gen_value(mod, t[1], rng, fuel - 1, for_literal) for _ in range(n)])
    if k == "tuple":
        return ("tuple", [gen_value(mod, x, rng, fuel - 1, for_literal) for x in t[1]])
    if k == "pair":
        return ("pair", gen_value(mod, t[1], rng, fuel - 1, for_literal), gen_value(mod, t[2], rng, fuel - 1, for_literal))
    if k == "app":
        adt, env = M.adt_of(mod, t)
        pos = base_position(mod, adt) if fuel <= 0 else rng.below(len(adt.ctors))
        c = adt.ctors[pos]
        return ("con", pos, [gen_value(mod, M.subst(ft, env), rng, fuel - 1, for_literal) for _, ft in c.fields])
    raise M.ModelError("cannot generate " + repr(t))


def random_data(rng, depth=3):
    r = rng.below(10 if depth > 0 else 4)
    if r < 2:
        return M.I(gen_int(rng))
    if r < 4:
        return M.B(gen_bytes(rng))
    if r < 7:
        idx = weighted(rng, [(6, rng.below(4)), (2, rng.range(4, 12)), (1, rng.range(120, 130)), (1, rng.range(1000, 2**33))])
        return M.C(idx, [random_data(rng, depth - 1) for _ in range(rng.below(4))])
    if r < 9:
        return M.L([random_data(rng, depth - 1) for _ in range(rng.below(4))])
    return M.M([(random_data(rng, depth - 1), random_data(rng, depth - 1)) for _ in range(rng.below(3))])


# ----------------------------------------------------------------- near-misses


def nodes(mod, t, d, path=()):
    """(path, subtype, subdata) for every position of the conforming value `d`, following the model."""
    t = M.head(mod, t)
    yield path, t, d
    k = t[0]
    if k == "option":
        if d["c"] == "0":
            yield from nodes(mod, t[1], d["f"][0], path + (("f", 0),))
    elif k == "list":
        e = M.head(mod, t[1])
        if e[0] == "pair":
            for i, (kk, vv) in enumerate(d["m"]):
                yield from nodes(mod, e[1], kk, path + (("m", i, 0),))
                yield from nodes(mod, e[2], vv, path + (("m", i, 1),))
        else:
            for i, x in enumerate(d["l"]):
                yield from nodes(mod, e, x, path + (("l", i),))
    elif k == "tuple":
        for i, (a, x) in enumerate(zip(t[1], d["l"])):
            yield from nodes(mod, a, x, path + (("l", i),))
    elif k == "pair":
        yield from nodes(mod, t[1], d["l"][0], path + (("l", 0),))
        yield from nodes(mod, t[2], d["l"][1], path + (("l", 1),))
    elif k == "app":
        adt, env = M.adt_of(mod, t)
        if adt.list_deco:
            for i, ((_, ft), x) in enumerate(zip(adt.ctors[0].fields, d["l"])):
                yield from nodes(mod, M.subst(ft, env), x, path + (("l", i),))
        else:
            for pos, c in enumerate(adt.ctors):
                if str(adt.index(pos)) == d["c"]:
                    for i, ((_, ft), x) in enumerate(zip(c.fields, d["f"])):
                        yield from nodes(mod, M.subst(ft, env), x, path + (("f", i),))
                    break


def replace(d, path, new):
    if not path:
        return new
    step = path[0]
    if step[0] == "f":
        f = list(d["f"])
        f[step[1]] = replace(f[step[1]], path[1:], new)
        return {"c": d["c"], "f": f}
    if step[0] == "l":
        xs = list(d["l"])
        xs[step[1]] = replace(xs[step[1]], path[1:], new)
        return {"l": xs}
    m = [list(kv) for kv in d["m"]]
    m[step[1]][step[2]] = replace(m[step[1]][step[2]], path[1:], new)
    return {"m": m}


def _leaf_other(rng, d):
    opts = []
    if "i" not in d:
        opts.append(M.I(gen_int(rng)))
    if "b" not in d:
        opts.append(M.B(gen_bytes(rng)))
    if "l" not in d:
        opts.append(M.L([]))
    if "c" not in d:
        opts.append(M.C(rng.below(2)))
    if "m" not in d:
        opts.append(M.M([]))
    return rng.pick(opts)


def _indices(mod, t):
    """[(index, arity)] of a constructor-like type."""
    k = t[0]
    if k == "bool":
        return [(0, 0), (1, 0)]
    if k == "void":
        return [(0, 0)]
    if k == "ordering":
        return [(0, 0), (1, 0), (2, 0)]
    if k == "never":
        return [(1, 0)]
    if k == "option":
        return [(0, 1), (1, 0)]
    adt, _ = M.adt_of(mod, t)
    return [(adt.index(p), len(c.fields)) for p, c in enumerate(adt.ctors)]


def mutate_node(mod, t, d, rng):
    """One near-miss mutation of `d` (conforming to head-normal `t`). Returns (kind, new_data) or None."""
    k = t[0]
    generic = [(3, "leaf-kind"), (1, "wrap-some"), (1, "wrap-list"), (1, "random")]
    if "c" in d and (k in ("bool", "void", "ordering", "never", "option") or k == "app"):
        table = generic + [(4, "idx+1"), (3, "idx-1"), (3, "idx-unused"), (4, "idx-sibling"), (5, "field-add"), (5, "field-remove"), (3, "field-swap"), (2, "constr-to-list"), (1, "constr-to-taglist"), (1, "constr-to-map"), (1, "idx-big")]
    elif "l" in d and k == "list":
        table = generic + [(3, "list-to-constr"), (4, "list-to-map"), (4, "elem-wrong-kind"), (3, "nest"), (2, "unwrap")]
    elif "m" in d:
        table = generic + [(5, "map-to-list2"), (3, "map-to-constr-pairs"), (2, "map-swap-kv"), (3, "map-key-kind"), (2, "map-to-constr")]
    elif "l" in d:  # tuple, bare pair, @list record
        table = generic + [(6, "tuple-extra"), (5, "tuple-short"), (3, "field-swap"), (4, "list-to-constr"), (2, "list-to-map"), (2, "nest"), (2, "elem-wrong-kind")]
    elif "i" in d:
        table = generic + [(4, "int-to-bytes"), (2, "int-to-constr"), (2, "wrap-list")]
    elif "b" in d:
        table = generic + [(4, "bytes-to-int"), (2, "bytes-to-list"), (2, "wrap-list")]
    else:
        table = generic
    kind = weighted(rng, table)
    if kind == "leaf-kind":
        return kind, _leaf_other(rng, d)
    if kind == "wrap-some":
        return kind, M.C(0, [d])
    if kind == "wrap-list":
        return kind, M.L([d])
    if kind == "random":
        return kind, random_data(rng, 2)
    if kind in ("idx+1", "idx-1", "idx-unused", "idx-sibling", "idx-big"):
        i = int(d["c"])
        idxs = _indices(mod, t)
        if kind == "idx+1":
            j = i + 1
        elif kind == "idx-1":
            j = i - 1 if i > 0 else i + 2
        elif kind == "idx-big":
            j = i + rng.pick([7, 121, 128, 1280, 2**32, 2**63])
        elif kind == "idx-unused":
            used = {x for x, _ in idxs}
            j = max(used) + 1
            while j in used:
                j += 1
            if rng.chance(1, 3):
                j += rng.range(1, 200)
        else:
            sib = [x for x, a in idxs if x != i and a != len(d["f"])] or [x for x, _ in idxs if x != i]
            if not sib:
                return None
            j = rng.pick(sib)
        return kind, {"c": str(j), "f": d["f"]}
    if kind == "field-add":
        f = list(d["f"])
        extra = rng.pick(f) if f and rng.chance(1, 2) else random_data(rng, 1)
        f.insert(rng.below(len(f) + 1) if rng.chance(1, 2) else len(f), extra)
        return kind, {"c": d["c"], "f": f}
    if kind == "field-remove":
        if not d["f"]:
            return None
        f = list(d["f"])
        del f[rng.below(len(f)) if rng.chance(1, 2) else len(f) - 1]
        return kind, {"c": d["c"], "f": f}
    if kind == "field-swap":
        xs = list(d["f"] if "c" in d else d["l"])
        if len(xs) < 2:
            return None
        i = rng.below(len(xs) - 1)
        j = rng.range(i + 1, len(xs) - 1)
        xs[i], xs[j] = xs[j], xs[i]
        return kind, ({"c": d["c"], "f": xs} if "c" in d else {"l": xs})
    if kind == "constr-to-list":
        return kind, M.L(d["f"])
    if kind == "constr-to-taglist":
        return kind, M.L([M.I(int(d["c"]))] + list(d["f"]))
    if kind == "constr-to-map":
        return kind, M.M([(M.I(int(d["c"])), M.L(d["f"]))])
    if kind == "list-to-constr":
        return kind, M.C(0, d["l"])
    if kind == "list-to-map":
        xs = d["l"]
        if xs and all("l" in x and len(x["l"]) == 2 for x in xs):
            return kind, M.M([(x["l"][0], x["l"][1]) for x in xs])
        return kind, M.M([(M.I(i), x) for i, x in enumerate(xs)])
    if kind == "elem-wrong-kind":
        xs = list(d["l"])
        pos = rng.below(len(xs) + 1)
        ref = xs[pos - 1] if xs and pos > 0 else (xs[0] if xs else M.I(0))
        xs.insert(pos, _leaf_other(rng, ref))
        return kind, M.L(xs)
    if kind == "nest":
        return kind, M.L([d])
    if kind == "unwrap":
        if not d["l"]:
            return None
        return kind, d["l"][0]
    if kind == "map-to-list2":
        return kind, M.L([M.L([kk, vv]) for kk, vv in d["m"]])
    if kind == "map-to-constr-pairs":
        return kind, M.L([M.C(0, [kk, vv]) for kk, vv in d["m"]])
    if kind == "map-swap-kv":
        if not d["m"]:
            return None
        m = [list(kv) for kv in d["m"]]
        i = rng.below(len(m))
        m[i] = [m[i][1], m[i][0]]
        return kind, {"m": m}
    if kind == "map-key-kind":
        m = [list(kv) for kv in d["m"]]
        if not m:
            return kind, (M.M([(M.L([]), M.M([]))]) if rng.chance(1, 2) else M.M([(M.C(3), M.C(3))]))
        i = rng.below(len(m))
        side = rng.below(2)
        m[i][side] = _leaf_other(rng, m[i][side])
        return kind, {"m": m}
    if kind == "map-to-constr":
        return kind, M.C(0, [M.L([kk, vv]) for kk, vv in d["m"]])
    if kind == "tuple-extra":
        xs = list(d["l"])
        xs.append(rng.pick(xs) if xs and rng.chance(1, 2) else random_data(rng, 1))
        return kind, M.L(xs)
    if kind == "tuple-short":
        xs = list(d["l"])
        if not xs:
            return None
        del xs[rng.below(len(xs)) if rng.chance(1, 2) else len(xs) - 1]
        return kind, M.L(xs)
    if kind == "int-to-bytes":
        n = abs(int(d["i"]))
        return kind, M.B(n.to_bytes((n.bit_length() + 7) // 8 or 1, "big"))
    if kind == "int-to-constr":
        n = int(d["i"])
        return kind, M.C(n if 0 <= n < 2**63 else 0)
    if kind == "bytes-to-int":
        return kind, M.I(int(d["b"] or "00", 16))
    if kind == "bytes-to-list":
        return kind, M.L([M.I(b) for b in bytes.fromhex(d["b"])[:6]])
    return None


def near_miss(mod, t, d, rng):
    """A mutant of the conforming value `d` of type `t`: (kind, data) or None."""
    ns = list(nodes(mod, t, d))
    # prefer positions whose type is not Data (a mutated Data slot still conforms)
    cand = [n for n in ns if n[1][0] != "data"] or ns
    for _ in range(6):
        # bias towards the root and towards inner structure alike
        path, st, sd = cand[0] if rng.chance(1, 5) else rng.pick(cand)
        r = mutate_node(mod, st, sd, rng)
        if r is None:
            continue
        kind, nd = r
        out = replace(d, path, nd)
        if out != d:
            return kind + ("@root" if not path else ""), out
    return None


def values_for(mod, t, others, rng, n_conf=10, n_mut=24, n_cross=3, n_rand=3):
    """[(data, origin, abstract value or None)] de-duplicated."""
    out, seen = [], set()

    def push(d, origin, av=None):
        s = json.dumps(d, sort_keys=True)
        if s not in seen:
            seen.add(s)
            out.append((d, origin, av))

    confs = []
    for i in range(n_conf):
        fuel = 0 if i == 0 else (1 if i == 1 else rng.range(2, 5))
        av = gen_value(mod, t, rng, fuel)
        d = M.encode(mod, t, av)
        confs.append(d)
        push(d, "conf", av)
    for i in range(n_mut):
        base = confs[i % len(confs)] if rng.chance(1, 2) else rng.pick(confs)
        r = near_miss(mod, t, base, rng)
        if r is not None:
            push(r[1], "mut:" + r[0])
            if rng.chance(1, 6):  # second-order mutant (only if the first one still conforms)
                if M.conforms(mod, t, r[1]):
                    r2 = near_miss(mod, t, r[1], rng)
                    if r2 is not None:
                        push(r2[1], "mut:" + r2[0])
    for _ in range(n_cross):
        if others:
            o = rng.pick(others)
            push(M.encode(mod, o, gen_value(mod, o, rng, rng.range(0, 3))), "cross")
    for _ in range(n_rand):
        push(random_data(rng, 3), "random")
    return out


# ----------------------------------------------------------------- source


def triple(i, t):
    s = M.show(t)
    return (
        "pub fn probe_%d(x: %s) -> Bool {\n  True\n}\n\n" % (i, s)
        + "pub fn accept_%d(d: Data) -> Data {\n  expect _x: %s = d\n  let r: Data = True\n  r\n}\n\n" % (i, s)
        + "pub fn enc_%d(x: %s) -> Data {\n  let d: Data = x\n  d\n}\n\n" % (i, s)
        + "pub fn rt_%d(d: Data) -> Data {\n  expect x: %s = d\n  let r: Data = x\n  r\n}\n" % (i, s)
    )


def validator_src(i, t):
    """A real validator whose parameter, redeemer (mint) and datum (spend) have type `t`.
    mint succeeds iff the redeemer passes the compiler-inserted check; spend iff the datum does
    (the datum is scrutinised, so the check cannot be skipped as dead); withdraw compares the
    parameter, up-cast to Data, with the redeemer (parameters are trusted: cast without a check).
    The handlers deliberately do not up-cast the checked value again: `expect x: Int = d` followed
    by `let y: Data = x` is the business of the separate `rt_i` judge (see FINDINGS.md #7)."""
    s = M.show(t)
    return (
        "validator v_%d(p: %s) {\n" % (i, s)
        + "  mint(_r: %s, _pol: ByteArray, _tx: Data) {\n    True\n  }\n\n" % s
        + "  spend(d: Option<%s>, _r: Data, _o: Data, _tx: Data) {\n    when d is {\n      Some(_) -> True\n      None -> False\n    }\n  }\n\n" % s
        + "  withdraw(r: Data, _c: Data, _tx: Data) {\n    let pd: Data = p\n    pd == r\n  }\n\n"
        + "  else(_) {\n    fail\n  }\n}\n"
    )


def ctx_mint(redeemer):
    return M.C(0, [M.I(0), redeemer, M.C(0, [M.B("aa" * 28)])])


def ctx_spend(datum):
    return M.C(0, [M.I(0), M.I(0), M.C(1, [M.C(0, [M.B("00" * 32), M.I(0)]), M.C(0, [datum])])])


def ctx_withdraw(redeemer):
    return M.C(0, [M.I(0), redeemer, M.C(2, [M.C(0, [M.B("bb" * 28)])])])


def lit_fn(mod, i, j, t, av):
    return "pub fn lit_%d_%d() -> Data {\n  let v: %s = %s\n  let d: Data = v\n  d\n}\n" % (i, j, M.show(t), M.render_value(mod, t, av))


def build_source(mod, types, lits=None, validators=()):
    """lits: {i: [abstract values]}; validators: indices of the types that also get a real validator"""
    parts = [M.render_module(mod)]
    for i, t in enumerate(types):
        parts.append(triple(i, t))
        if i in validators:
            parts.append(validator_src(i, t))
        for j, av in enumerate((lits or {}).get(i, [])):
            parts.append(lit_fn(mod, i, j, t, av))
    return "\n".join(parts)


def reachable_defs(mod, t):
    seen = []

    def go(t):
        k = t[0]
        if k in ("option", "list"):
            go(t[1])
        elif k == "tuple":
            for x in t[1]:
                go(x)
        elif k == "pair":
            go(t[1])
            go(t[2])
        elif k == "app":
            for x in t[2]:
                go(x)
            if t[1] not in seen:
                seen.append(t[1])
                d = mod.defs[t[1]]
                if isinstance(d, Alias):
                    go(d.body)
                else:
                    for c in d.ctors:
                        for _, ft in c.fields:
                            go(ft)

    go(t)
    return [n for n in mod.order if n in seen]


def minimal_source(mod, t):
    """The definitions `t` needs + its probe/accept/enc triple (for witnesses)."""
    return "\n".join(M.render_def(mod.defs[n]) for n in reachable_defs(mod, t)) + "\n" + triple(0, t)


# ----------------------------------------------------------------- reuse by C18


def typed_values(seed, n, clean=True):
    """Yield `n` tuples (module_src, type_expr_str, [conforming data..], [nonconforming data..]).

    `module_src` holds only the (pub) type definitions the type needs, in a module meant to be
    named `m`; the type expression is closed.  With clean=True (default) the types avoid the
    features on which C12 has open findings (Pair outside a List, `@tag` on a record type, a
    generic type nested in itself, an alias of a recursive generic type), so that C18 does not re-report them; the non-conforming
    values still include "right tag, wrong number of fields" (known to panic in
    blueprint/parameter.rs)."""
    k = 0
    produced = 0
    while produced < n:
        rng = Rng(seed, stream=1000 + k)
        k += 1
        mod, types, _ = gen_types(rng, quirky=not clean)
        for t in types:
            if produced >= n:
                break
            if clean and M.features(mod, t) & {"bare-pair", "record-tag", "self-nested-generic", "alias-of-recursive-generic"}:
                continue
            vals = values_for(mod, t, [o for o in types if o != t], rng, n_conf=6, n_mut=12, n_cross=2, n_rand=2)
            conf = [d for d, _, _ in vals if M.conforms(mod, t, d)]
            bad = [d for d, _, _ in vals if not M.conforms(mod, t, d)]
            src = "\n".join(M.render_def(mod.defs[nm]) for nm in reachable_defs(mod, t))
            produced += 1
            yield src, M.show(t), conf, bad


if __name__ == "__main__":
    r = Rng(int(sys.argv[1]) if len(sys.argv) > 1 else 0)
    mod, types, notes = gen_types(r)
    print(build_source(mod, types))
    print("//", notes)
