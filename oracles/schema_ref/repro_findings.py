#!/usr/bin/env python3
"""Minimal reproductions of the C12 findings (see FINDINGS.md). Prints, for each, what the
blueprint validator (S), the compiled `expect` (K), the model (M) and the JSON reader (J) say."""
import json
import os
import subprocess
import sys

HERE = os.path.dirname(os.path.abspath(__file__))
sys.path.insert(0, os.path.dirname(HERE))
sys.path.insert(0, HERE)
from common import bin_path  # noqa: E402
import jsonschema_read as JS  # noqa: E402
import gen as G  # noqa: E402


def I(n):
    return {"i": str(n)}


def B(h):
    return {"b": h}


def C(i, *f):
    return {"c": str(i), "f": list(f)}


def L(*x):
    return {"l": list(x)}


def s(v):
    if not isinstance(v, dict):
        return repr(v)
    if "i" in v:
        return v["i"]
    if "b" in v:
        return "#" + v["b"]
    if "l" in v:
        return "[" + ",".join(map(s, v["l"])) + "]"
    if "m" in v:
        return "{" + ",".join(s(k) + ":" + s(x) for k, x in v["m"]) + "}"
    return "<" + v["c"] + ("|" + ",".join(map(s, v["f"])) if v["f"] else "") + ">"


def drive(job):
    p = subprocess.run([bin_path("aiken-run")], input=(json.dumps(job) + "\n").encode(), capture_output=True)
    if p.returncode != 0:
        return {"died": p.returncode, "stderr": p.stderr.decode()[-200:].strip()}
    return json.loads(p.stdout)


def short(r):
    if "ok" in r:
        v = r["ok"]
        return "ok " + (s(v[2]) if v[0] == "con" and v[1] == "data" else json.dumps(v))
    return "ERR " + str(r.get("err"))


def case(title, defs, ty, values, extra_fns="", extra_entries=()):
    print("=" * 100)
    print(title)
    print("-" * 100)
    src = defs + G.triple(0, ("var", ty)) + extra_fns  # ("var", text) prints the text as is
    print(defs.strip())
    print("type under test:", ty)
    mods = [{"name": "m", "kind": "validator", "src": src}]
    sr = drive({"id": "s", "op": "schema", "modules": mods, "probes": [{"module": "m", "fn": "probe_0", "values": values}]})
    entries = [{"kind": "fn", "module": "m", "name": "accept_0", "args": [[v] for v in values]}] + list(extra_entries)
    cr = drive({"id": "c", "op": "compile_eval", "plutus": "v3", "modules": mods, "tracings": ["silent-all"], "infer_tracing": "same", "entries": entries})
    if "died" in sr:
        print("  schema op: DRIVER DIED", sr)
        probe = {}
    elif "probes" not in sr:
        print("  schema op:", json.dumps(sr)[:300])
        probe = {}
    else:
        probe = sr["probes"][0]
        print("  reference:", json.dumps(probe.get("reference")))
        print("  definitions:", json.dumps(probe.get("definitions")))
    run = cr.get("runs", [{}])[0]
    if "entries" not in run:
        print("  compile_eval:", json.dumps(cr)[:400])
        return
    acc = run["entries"][0]
    for n, v in enumerate(values):
        sv = (probe.get("verdicts") or [None] * len(values))[n]
        jv = JS.verdict(probe["definitions"], probe["reference"], v) if probe.get("definitions") is not None else None
        print("  %-28s validate=%-40s expect=%-24s json-reader=%s" % (s(v), json.dumps(sv)[:40], short(acc["results"][n]), jv))
    for e, spec in zip(run["entries"][1:], extra_entries):
        for a, r in zip(spec["args"], e.get("results", [])):
            print("  %s(%s) -> %s" % (e["name"], ", ".join(s(x) for x in a)[:70], short(r) + (" (" + r.get("err_msg", "").replace("\n", " ")[:70] + ")" if "err" in r else "")))


def main():
    case(
        "F1 (known) validate panics on right tag / wrong number of fields",
        "pub type Foo {\n  A\n  B(Int, ByteArray)\n}\n\n",
        "Foo",
        [C(1, I(1), B("00")), C(1, I(1)), C(0, I(1)), C(1, I(1), B("00"), I(2))],
    )
    case(
        "F2 a Pair outside a List is published as `#pair`: no Data value validates, the compiled code wants [a, b]",
        "pub type PP {\n  p: Pair<Int, ByteArray>,\n  q: Int,\n}\n\n",
        "PP",
        [C(0, L(I(1), B("aa")), I(2)), C(0, I(1), I(2))],
        extra_fns="\npub fn lit() -> Data {\n  let v: PP = PP { p: Pair(1, #\"aa\"), q: 2 }\n  let d: Data = v\n  d\n}\n",
        extra_entries=[{"kind": "fn", "module": "m", "name": "lit", "args": [[]]}],
    )
    case("F2b the same at top level and under Option", "", "Option<Pair<Int, Int>>", [C(1), C(0, L(I(1), I(2)))])
    case(
        "F3 `@tag(n)` on a record: built with n, published with n, but `expect` (and a validator's redeemer check) wants 0",
        "@tag(5)\npub type Fin {\n  yes: Int,\n}\n\n",
        "Fin",
        [C(5, I(1)), C(0, I(1))],
        extra_fns="\npub fn lit() -> Data {\n  let d: Data = Fin { yes: 1 }\n  d\n}\n\npub fn own_value_roundtrip() -> Data {\n  let d: Data = Fin { yes: 1 }\n  expect x: Fin = d\n  let r: Data = x.yes\n  r\n}\n",
        extra_entries=[{"kind": "fn", "module": "m", "name": "lit", "args": [[]]}, {"kind": "fn", "module": "m", "name": "own_value_roundtrip", "args": [[]]}],
    )
    case(
        "F4 a generic type inside its own argument: the schema of G<G<Int>> gives the later `a` fields the type Int",
        "pub type G<a> {\n  G0\n  G1(List<a>)\n  G2(a, a)\n}\n\n",
        "G<G<Int>>",
        [C(2, C(0), C(1, L(I(1)))), C(2, I(1), I(1))],
    )
    case(
        "F5 an alias of a recursive generic type: schema generation overflows the stack (process abort)",
        "pub type R<a> {\n  N\n  C(a, R<a>)\n}\n\npub type A = R<Int>\n\n",
        "A",
        [C(0)],
    )
    case(
        "F6 a `@list` record cast (unchecked) from Data -- function argument / validator parameter: structural type error",
        "@list\npub type Dino {\n  food: Int,\n  name: ByteArray,\n}\n\n",
        "Dino",
        [L(I(1), B("aa"))],
        extra_fns="\n" + G.validator_src(0, ("var", "Dino")),
        extra_entries=[
            {"kind": "fn", "module": "m", "name": "enc_0", "args": [[L(I(1), B("aa"))]]},
            {"kind": "validator", "module": "m", "name": "v_0", "args": [[L(I(1), B("aa")), G.ctx_withdraw(L(I(1), B("aa")))]]},
        ],
    )
    foo = "pub type Foo {\n  A\n  B(Int, ByteArray)\n}\n\n"
    vsrc = (
        "\nvalidator v {\n  mint(_r: Foo, _pol: ByteArray, _tx: Data) {\n    True\n  }\n\n"
        "  spend(d: Option<Foo>, _r: Data, _o: Data, _tx: Data) {\n    when d is {\n      Some(A) -> True\n      Some(B(_, _)) -> True\n      None -> False\n    }\n  }\n\n  else(_) {\n    fail\n  }\n}\n"
    )
    bad = [C(0), C(1, I(1), B("")), C(2), C(1, I(1)), C(1, B(""), I(1)), I(3)]
    case(
        "F7 the datum of a `spend` handler is not checked against its type (the redeemer of `mint` is)",
        foo,
        "Foo",
        bad,
        extra_fns=vsrc,
        extra_entries=[
            {"kind": "validator", "module": "m", "name": "v", "args": [[G.ctx_mint(x)] for x in bad]},
            {"kind": "validator", "module": "m", "name": "v", "args": [[G.ctx_spend(x)] for x in bad]},
        ],
    )
    case(
        "F8 `expect x: Int = d` followed by `let r: Data = x`: the optimiser rewrites iData(unIData d) to d, the check is gone",
        "",
        "Int",
        [I(1), B("00"), L()],
        extra_entries=[{"kind": "fn", "module": "m", "name": "rt_0", "args": [[I(1)], [B("00")], [L()]]}],
    )
    print("=" * 100)
    print("F9 (type checker, not C12) an alias with two unused parameters, used by another alias: CyclicTypeDefinitions")
    r = drive({"id": "x", "op": "infer", "modules": [{"name": "m", "kind": "lib", "src": "pub type T1<a, b> = Data\npub type T4 = T1<Int, Int>\n"}], "tracing": "silent-all"})
    print("  pub type T1<a, b> = Data ; pub type T4 = T1<Int, Int>  ->", json.dumps(r)[:200])
    r = drive({"id": "x", "op": "infer", "modules": [{"name": "m", "kind": "lib", "src": "pub type T1<a> = Data\npub type T4 = T1<Int>\n"}], "tracing": "silent-all"})
    print("  pub type T1<a> = Data ; pub type T4 = T1<Int>             ->", json.dumps(r)[:200])


if __name__ == "__main__":
    main()
