#!/usr/bin/env python3
"""C12 -- blueprint schemas describe exactly what validators accept.

Four judges of "the Data value d is a value of type T" must agree on every (T, d):

    S  the blueprint schema of T judged by the repository's `Parameter::validate`   (driver op `schema`)
    K  the compiled `expect _x: T = d`                                              (driver op `compile_eval`)
    M  the independent Python model (model.py, written from the documentation)
    J  an independent reading of the published schema JSON (jsonschema_read.py)

plus:  rt_i(d)  (`expect x: T = d` then `let r: Data = x`) accepts exactly what the bare expect accepts, returns d,
       a real validator v_i(p: T) { mint(_r: T, ..)  spend(d: Option<T>, ..)  withdraw(..) }: redeemer and datum are
       checked like `expect`, the parameter (cast unchecked) comes back unchanged,
       enc_i(value) == M.encode(value)  (up-cast of an unchecked-cast value),
       lit_i_j()    == M.encode(value)  (the value written as an Aiken expression, then up-cast),
       `validate` never panics, the schema can be generated and read.

usage: run_c12.py --tier quick|thorough --seed S
"""
import argparse
import json
import os
import sys
import time

HERE = os.path.dirname(os.path.abspath(__file__))
sys.path.insert(0, os.path.dirname(HERE))
sys.path.insert(0, HERE)

from common import Rng, run_jobs, h  # noqa: E402
import model as M  # noqa: E402
import gen as G  # noqa: E402
import jsonschema_read as JS  # noqa: E402

TIERS = {
    # modules, values per type: (conforming, mutants, cross, random), literals per type
    # validators: how many of the module's types also get a real validator (parameter / redeemer / datum)
    "smoke": dict(modules=8, n_conf=8, n_mut=18, n_cross=2, n_rand=2, lits=2, validators=3),
    "quick": dict(modules=128, n_conf=10, n_mut=26, n_cross=3, n_rand=3, lits=3, validators=4),
    "thorough": dict(modules=1200, n_conf=12, n_mut=36, n_cross=4, n_rand=4, lits=3, validators=6),
}

REJECT_VARIANTS = {"SchemaMismatch", "TupleItemsMismatch"}
MAX_WITNESSES_PER_KEY = 3


def panic_message(p):
    """'fields length different @ /repo/.../parameter.rs:249' -> 'fields length different'"""
    p = str(p)
    return p.split(" @ ")[0].strip()[:120]


def make_case(seed, k, cfg):
    rng = Rng(seed, stream=k)
    mod, types, notes = G.gen_types(rng)
    per_type = []
    lits = {}
    for i, t in enumerate(types):
        vals = G.values_for(mod, t, [o for o in types if o != t], rng, cfg["n_conf"], cfg["n_mut"], cfg["n_cross"], cfg["n_rand"])
        per_type.append(vals)
        lits[i] = [av for _, origin, av in vals if origin == "conf"][: cfg["lits"]]
    vrng = Rng(seed, stream=(1 << 32) + k)
    validators = sorted(vrng.shuffle(list(range(len(types))))[: cfg.get("validators", 0)])
    src = G.build_source(mod, types, lits, validators)
    return dict(k=k, mod=mod, types=types, notes=notes, values=per_type, lits=lits, src=src, validators=validators)


def jobs_for(case):
    k = case["k"]
    modules = [{"name": "m", "kind": "validator", "src": case["src"]}]
    probes, entries = [], []
    for i, vals in enumerate(case["values"]):
        t = case["types"][i]
        data = [d for d, _, _ in vals]
        probes.append({"module": "m", "fn": "probe_%d" % i, "values": data})
        entries.append({"kind": "fn", "module": "m", "name": "accept_%d" % i, "args": [[d] for d in data]})
        entries.append({"kind": "fn", "module": "m", "name": "rt_%d" % i, "args": [[d] for d in data]})
        conf = [d for d in data if M.conforms(case["mod"], t, d)]
        entries.append({"kind": "fn", "module": "m", "name": "enc_%d" % i, "args": [[d] for d in conf]})
        for j, _ in enumerate(case["lits"][i]):
            entries.append({"kind": "fn", "module": "m", "name": "lit_%d_%d" % (i, j), "args": [[]]})
        if i in case["validators"] and conf:
            # [parameter, script context]; the parameter is a conforming value (it is cast unchecked)
            p0 = conf[0]
            args = [[p0, G.ctx_mint(d)] for d in data] + [[p0, G.ctx_spend(d)] for d in data] + [[d, G.ctx_withdraw(d)] for d in conf]
            entries.append({"kind": "validator", "module": "m", "name": "v_%d" % i, "args": args})
    sj = {"id": "s%d" % k, "op": "schema", "modules": modules, "probes": probes}
    cj = {"id": "c%d" % k, "op": "compile_eval", "plutus": "v3", "modules": modules, "tracings": ["silent-all"], "infer_tracing": "same", "entries": entries}
    return sj, cj


class Tally:
    def __init__(self):
        self.evaluations = 0
        self.distinct = set()
        self.samples = []
        self.violations = []
        self.violation_counts = {}
        self.inconclusive = {}
        self.counters = {}

    def count(self, name, n=1):
        self.counters[name] = self.counters.get(name, 0) + n

    def inconc(self, reason, n=1):
        self.evaluations += n
        self.inconclusive[reason] = self.inconclusive.get(reason, 0) + n

    def violation(self, key, witness):
        self.violation_counts[key] = self.violation_counts.get(key, 0) + 1
        if self.violation_counts[key] <= MAX_WITNESSES_PER_KEY:
            self.violations.append((key, witness() if callable(witness) else witness))


def b(x):
    return "?" if x is None else ("1" if x else "0")


def explain(mod, t, d, S, K, Mv, J, feats):
    """Name a disagreement with the help of the known divergences (model.Q_*). Never hides one."""
    mq = M.conforms(mod, t, d, frozenset([M.Q_RECORD_TAG_0]))
    mp = M.conforms(mod, t, d, frozenset([M.Q_BARE_PAIR_NOTHING]))
    names = []
    # compiled side
    if K is None or K == Mv:
        pass
    elif K == mq and "record-tag" in feats:
        names.append(M.Q_RECORD_TAG_0)
    else:
        return "unexplained"
    # schema side (validator + published JSON)
    sj = [x for x in (S, J) if x is not None]
    if all(x == Mv for x in sj):
        pass
    elif all(x == mp for x in sj) and "bare-pair" in feats:
        names.append(M.Q_BARE_PAIR_NOTHING)
    elif "self-nested-generic" in feats and len(set(sj)) == 1:
        # validator and JSON reader agree with each other on the (wrong) published schema
        names.append("self-nested-generic-schema")
    else:
        return "unexplained"
    return "+".join(names) if names else "unexplained"


def evaluate(case, sres, cres, T):
    mod, types = case["mod"], case["types"]
    nvals = sum(len(v) for v in case["values"])
    # ---- whole-module failures
    for res, what in ((sres, "schema"), (cres, "compile")):
        if res is None or "died" in res or "timeout" in res or "harness_error" in res:
            T.inconc("%s-job:%s" % (what, "died" if res and "died" in res else "timeout" if res and "timeout" in res else "harness"), nvals)
            return
    run = (cres.get("runs") or [{}])[0]
    rej = sres.get("rejected") or (run.get("rejected") or {}).get("rejected")
    if rej:
        detail = sres.get("variant") or (run.get("rejected") or {}).get("variant") or ""
        T.inconc("module-rejected:%s:%s" % (rej, detail), nvals)
        T.count("modules_rejected")
        if len(T.samples) < 8:
            T.samples.append({"rejected": rej, "detail": (sres.get("detail") or json.dumps(run.get("rejected")))[:400], "module": case["k"]})
        return
    T.count("modules")
    entries = {e["name"]: e for e in run.get("entries", [])}
    sprobes = {p["fn"]: p for p in sres.get("probes", [])}

    for i, t in enumerate(types):
        ts = M.show(t)
        vals = case["values"][i]
        feats = M.features(mod, t)
        T.count("types")
        for f in feats:
            T.count("types_with:" + f)
        T.count("types_head:" + M.head(mod, t)[0])
        p = sprobes.get("probe_%d" % i, {})
        acc = entries.get("accept_%d" % i, {})
        enc = entries.get("enc_%d" % i, {})

        def witness(d=None, extra=None, t=t, ts=ts, p=p):
            w = {"module": G.minimal_source(mod, t), "type": ts, "reference": p.get("reference"), "definitions": p.get("definitions"), "case": case["k"]}
            if d is not None:
                w["value"] = d
            if extra:
                w.update(extra)
            return w

        if "verdicts" not in p:
            if "schema_panic" in p:
                T.evaluations += 1
                T.violation("C12|schema-gen|panic|" + panic_message(p["schema_panic"]), lambda: witness(extra={"panic": p["schema_panic"]}))
            elif "schema_died" in p:
                T.evaluations += 1
                T.count("schema_generation_crashes")
                why = "alias-of-recursive-generic" if "alias-of-recursive-generic" in feats else "unexplained"
                T.violation("C12|schema-gen|died|" + why, lambda: witness(extra={"died": p["schema_died"], "note": "the driver process aborted (stack overflow) while generating the schema of this type"}))
            elif "schema_error" in p:
                T.evaluations += 1
                T.violation("C12|schema-gen|error|" + p["schema_error"].split("{")[0].split("(")[0].strip()[:60], lambda: witness(extra={"error": p["schema_error"]}))
            else:
                T.inconc("schema-probe:" + str(p.get("harness_error", "missing")), len(vals))
                continue
        if "compile_panic" in acc:
            T.evaluations += 1
            T.violation("C12|compile|panic|" + panic_message(acc["compile_panic"]), lambda: witness(extra={"panic": acc["compile_panic"]}))
        sver = p.get("verdicts") or [None] * len(vals)
        kres = acc.get("results") or [None] * len(vals)
        if len(sver) != len(vals) or len(kres) != len(vals):
            T.inconc("result-length-mismatch", len(vals))
            continue

        for (d, origin, _), sv, kr in zip(vals, sver, kres):
            Mv = M.conforms(mod, t, d)
            okind = origin.split("@")[0]
            T.count("values")
            T.count("origin:" + okind)
            T.count("conforming" if Mv else ("near_miss" if origin.startswith("mut:") else "other_nonconforming"))
            # --- S
            S = None
            if sv == "ok":
                S = True
            elif isinstance(sv, dict) and "err" in sv:
                if sv["err"] in REJECT_VARIANTS:
                    S = False
                    T.count("validate_err:" + sv["err"])
                else:
                    T.evaluations += 1
                    T.count("validate_err:" + sv["err"])
                    why = "bare-pair" if "bare-pair" in feats and sv["err"] == "UnresolvedSchemaReference" else "other"
                    T.violation("C12|validate|%s|%s" % (sv["err"], why), lambda d=d, sv=sv: witness(d, {"validate": sv, "model": Mv}))
            elif isinstance(sv, dict) and "panic" in sv:
                T.evaluations += 1
                T.count("validate_panics")
                T.violation("C12|validate|panic|" + panic_message(sv["panic"]), lambda d=d, sv=sv: witness(d, {"validate": sv, "model": Mv}))
            elif sv is not None:
                T.inconc("schema-verdict:" + json.dumps(sv)[:60])
            # --- K
            K = None
            if isinstance(kr, dict) and "ok" in kr:
                got = kr["ok"]
                if isinstance(got, list) and got[0] == "con" and got[1] == "data" and M.strip(got[2]) == M.C(1):
                    K = True
                else:
                    T.evaluations += 1
                    T.violation("C12|accept|unexpected-result", lambda d=d, kr=kr: witness(d, {"compiled": kr}))
            elif isinstance(kr, dict) and "err" in kr:
                if kr["err"] in ("OutOfExError",):
                    T.inconc("compiled:" + kr["err"])
                else:
                    K = False
                    T.count("expect_err:" + str(kr["err"]))
            # --- J
            J = None
            if p.get("reference") is not None and p.get("definitions") is not None:
                jv = JS.verdict(p["definitions"], p["reference"], d)
                if jv == "ok":
                    J = True
                elif jv == "reject":
                    J = False
                else:
                    T.evaluations += 1
                    T.violation("C12|json|unreadable|" + jv["problem"].split(" '")[0][:60], lambda d=d, jv=jv: witness(d, {"json": jv}))
            # --- the comparison
            T.evaluations += 1
            parties = {"S": S, "K": K, "J": J}
            known = [v for v in parties.values() if v is not None]
            if len(known) < 2 and S is None and K is None:
                T.inconclusive["no-implementation-verdict"] = T.inconclusive.get("no-implementation-verdict", 0) + 1
                continue
            if all(v == Mv for v in known):
                T.distinct.add(h([case["k"], ts, d]))
                T.count("accepted_by_all" if Mv else "rejected_by_all")
                if S is None or K is None or J is None:
                    T.count("agree_with_a_party_missing")
                if len(T.samples) < 6 and origin.startswith("mut:") and len(json.dumps(d)) < 300:
                    T.samples.append({"type": ts, "value": d, "origin": origin, "S": b(S), "K": b(K), "M": b(Mv), "J": b(J)})
            else:
                why = explain(mod, t, d, S, K, Mv, J, feats)
                key = "C12|disagree|" + why
                pattern = "S=%s,K=%s,M=%s,J=%s" % (b(S), b(K), b(Mv), b(J))
                T.count("disagreements")
                T.count("disagreement:%s:%s" % (why, pattern))
                T.violation(key, lambda d=d, sv=sv, kr=kr, origin=origin, pattern=pattern: witness(d, {"origin": origin, "pattern": pattern, "validate": sv, "compiled": {x: kr.get(x) for x in ("ok", "err", "err_msg") if kr and x in kr}, "model": Mv, "json": J, "features": sorted(feats)}))

        conf = [d for d, _, _ in vals if M.conforms(mod, t, d)]
        # ---- a real validator: redeemer (mint) and datum (spend) of type T must be checked exactly like
        #      `expect`; a parameter of type T (cast unchecked, it is trusted) must come back unchanged
        ve = entries.get("v_%d" % i)
        if ve is not None:
            T.count("validators")
            if "compile_panic" in ve:
                T.evaluations += 1
                T.violation("C12|compile|panic|" + panic_message(ve["compile_panic"]), lambda: witness(extra={"panic": ve["compile_panic"], "fn": "validator"}))
            vres = ve.get("results") or []
            n = len(vals)
            if len(vres) == 2 * n + len(conf):
                def vok(r):
                    if isinstance(r, dict) and "ok" in r:
                        return True
                    if isinstance(r, dict) and "err" in r and r["err"] != "OutOfExError":
                        return False
                    return None
                for role, rs in (("redeemer", vres[:n]), ("datum", vres[n : 2 * n])):
                    for (d, origin, _), kr, vr in zip(vals, kres, rs):
                        K = True if (isinstance(kr, dict) and "ok" in kr) else (False if isinstance(kr, dict) and "err" in kr else None)
                        V = vok(vr)
                        if K is None or V is None:
                            T.inconc("validator-%s:no-verdict" % role)
                            continue
                        T.evaluations += 1
                        T.count("validator_%s_checked" % role)
                        if V == K:
                            T.count("validator_%s_same_as_expect" % role)
                        else:
                            Mv = M.conforms(mod, t, d)
                            T.count("validator_%s_%s_%s" % (role, "accepts" if V else "rejects", "conforming" if Mv else "nonconforming"))
                            T.violation("C12|validator-%s|%s-what-expect-%s" % (role, "accepts" if V else "rejects", "accepts" if K else "rejects"), lambda d=d, vr=vr, origin=origin, role=role, Mv=Mv: witness(d, {"origin": origin, "validator": G.validator_src(0, t), "role": role, "validator_result": {x: vr.get(x) for x in ("ok", "err", "err_msg") if x in vr}, "model": Mv, "features": sorted(feats)}))
                for d, vr in zip(conf, vres[2 * n :]):
                    T.evaluations += 1
                    T.count("validator_param_checked")
                    if vok(vr):
                        T.count("validator_param_roundtrip")
                    else:
                        hd = M.head(mod, t)
                        why = "list-deco-argument-cast" if hd[0] == "app" and M.adt_of(mod, hd)[0].list_deco else "unexplained"
                        T.violation("C12|validator-param|failed|%s|%s" % ((vr or {}).get("err", "no-result"), why), lambda d=d, vr=vr: witness(d, {"validator": G.validator_src(0, t), "role": "parameter", "validator_result": {x: vr.get(x) for x in ("ok", "err", "err_msg") if vr and x in vr}}))
            elif "compile_panic" not in ve:
                T.inconc("validator-results-missing", 2 * n)
        # ---- rt: `expect x: T = d` then `let r: Data = x`: succeeds exactly when the bare expect does,
        #      and then returns d unchanged
        rt = entries.get("rt_%d" % i, {})
        if "compile_panic" in rt:
            T.evaluations += 1
            T.violation("C12|compile|panic|" + panic_message(rt["compile_panic"]), lambda: witness(extra={"panic": rt["compile_panic"], "fn": "rt"}))
        rres = rt.get("results") or []
        if len(rres) == len(vals):
            hd = M.head(mod, t)
            eh = M.head(mod, hd[1]) if hd[0] == "list" else None
            castable = hd[0] in ("int", "bytes") or (eh is not None and (eh[0] == "data" or (eh[0] == "pair" and M.head(mod, eh[1])[0] == "data" and M.head(mod, eh[2])[0] == "data")))
            for (d, origin, _), kr, rr in zip(vals, kres, rres):
                K = True if (isinstance(kr, dict) and "ok" in kr) else (False if isinstance(kr, dict) and "err" in kr else None)
                R = True if (isinstance(rr, dict) and "ok" in rr) else (False if isinstance(rr, dict) and "err" in rr and rr["err"] != "OutOfExError" else None)
                if K is None or R is None:
                    T.inconc("rt:no-verdict")
                    continue
                T.evaluations += 1
                T.count("rt_checked")
                if R != K:
                    why = "cast-roundtrip-elimination" if (R and castable) else "unexplained"
                    T.violation("C12|expect-then-upcast|%s-what-expect-%s|%s" % ("accepts" if R else "rejects", "accepts" if K else "rejects", why), lambda d=d, rr=rr, origin=origin: witness(d, {"origin": origin, "fn": "rt", "rt_result": {x: rr.get(x) for x in ("ok", "err", "err_msg") if x in rr}}))
                elif R and not (rr["ok"][0] == "con" and rr["ok"][1] == "data" and M.strip(rr["ok"][2]) == d):
                    T.violation("C12|expect-then-upcast|changes-the-value", lambda d=d, rr=rr: witness(d, {"fn": "rt", "rt_result": rr.get("ok")}))
                else:
                    T.count("rt_same_as_expect")
        elif "compile_panic" not in rt:
            T.inconc("rt-results-missing", len(vals))
        # ---- enc: unchecked cast to T, then up-cast to Data == identity on model-conforming values
        if "compile_panic" in enc:
            T.evaluations += 1
            T.violation("C12|compile|panic|" + panic_message(enc["compile_panic"]), lambda: witness(extra={"panic": enc["compile_panic"], "fn": "enc"}))
        eres = enc.get("results") or []
        if len(eres) == len(conf):
            for d, er in zip(conf, eres):
                T.evaluations += 1
                T.count("enc_checked")
                if isinstance(er, dict) and "ok" in er and er["ok"][0] == "con" and er["ok"][1] == "data":
                    got = M.strip(er["ok"][2])
                    if got == d:
                        T.count("enc_equal")
                    else:
                        T.violation("C12|enc|mismatch", lambda d=d, got=got: witness(d, {"enc_result": got}))
                else:
                    hd = M.head(mod, t)
                    why = "list-deco-argument-cast" if hd[0] == "app" and M.adt_of(mod, hd)[0].list_deco else "unexplained"
                    T.violation("C12|enc|failed|%s|%s" % ((er or {}).get("err", "no-result"), why), lambda d=d, er=er: witness(d, {"enc_result": er}))
        elif conf:
            T.inconc("enc-results-missing", len(conf))
        # ---- literals: the value as an Aiken expression, up-cast, must be the model's encoding
        for j, av in enumerate(case["lits"][i]):
            e = entries.get("lit_%d_%d" % (i, j), {})
            T.evaluations += 1
            T.count("lit_checked")
            want = M.encode(mod, t, av)
            expr = M.render_value(mod, t, av)
            if "compile_panic" in e:
                T.violation("C12|compile|panic|" + panic_message(e["compile_panic"]), lambda e=e, expr=expr: witness(want, {"panic": e["compile_panic"], "expr": expr}))
                continue
            r = (e.get("results") or [None])[0]
            if isinstance(r, dict) and "ok" in r and r["ok"][0] == "con" and r["ok"][1] == "data":
                got = M.strip(r["ok"][2])
                if got == want:
                    T.count("lit_equal")
                else:
                    why = "record-tag" if "record-tag" in feats else "unexplained"
                    T.violation("C12|lit|mismatch|" + why, lambda want=want, got=got, expr=expr: witness(want, {"expr": expr, "lit_result": got}))
            else:
                T.violation("C12|lit|failed|" + str((r or {}).get("err", "no-result")), lambda want=want, r=r, expr=expr: witness(want, {"expr": expr, "lit_result": r}))


def run(tier="quick", seed=0, modules=None):
    cfg = dict(TIERS.get(tier, TIERS["quick"]))
    if modules:
        cfg["modules"] = modules
    t0 = time.time()
    T = Tally()
    chunk = 400  # bound memory in the thorough tier
    k0 = 0
    while k0 < cfg["modules"]:
        cases = [make_case(seed, k, cfg) for k in range(k0, min(cfg["modules"], k0 + chunk))]
        jobs = []
        for c in cases:
            sj, cj = jobs_for(c)
            jobs += [cj, sj]
        res = run_jobs("aiken-run", jobs, per_job_timeout=180.0)
        # a schema job that killed the driver (abort / stack overflow) is re-run probe by probe, so
        # that the crash is attributed to one type and the other types of the module are still judged
        retry = []
        for c in cases:
            r = res.get("s%d" % c["k"]) or {}
            if "died" in r or "timeout" in r:
                sj, _ = jobs_for(c)
                for i, p in enumerate(sj["probes"]):
                    retry.append(dict(sj, id="s%dp%d" % (c["k"], i), probes=[p]))
        if retry:
            res2 = run_jobs("aiken-run", retry, per_job_timeout=180.0)
            for c in cases:
                r = res.get("s%d" % c["k"]) or {}
                if "died" in r or "timeout" in r:
                    probes = []
                    for i in range(len(c["types"])):
                        r2 = res2.get("s%dp%d" % (c["k"], i)) or {}
                        if r2.get("probes"):
                            probes.append(r2["probes"][0])
                        elif "died" in r2:
                            probes.append({"fn": "probe_%d" % i, "schema_died": r2["died"]})
                        else:
                            probes.append({"fn": "probe_%d" % i, "harness_error": "timeout" if "timeout" in r2 else "no result"})
                    res["s%d" % c["k"]] = {"id": "s%d" % c["k"], "probes": probes}
                    T.count("schema_jobs_rerun_per_probe")
        for c in cases:
            evaluate(c, res.get("s%d" % c["k"]), res.get("c%d" % c["k"]), T)
        k0 += chunk
    out = dict(
        evaluations=T.evaluations,
        distinct=len(T.distinct),
        samples=T.samples,
        violations=T.violations,
        violation_counts=dict(sorted(T.violation_counts.items())),
        inconclusive=dict(sorted(T.inconclusive.items())),
        counters=dict(sorted(T.counters.items())),
        wall_s=round(time.time() - t0, 1),
        tier=tier,
        seed=seed,
    )
    return out


def main(argv=None):
    ap = argparse.ArgumentParser()
    ap.add_argument("--tier", default=os.environ.get("VERIF_TIER", "quick"))
    ap.add_argument("--seed", type=int, default=int(os.environ.get("VERIF_SEED", "0") or 0))
    ap.add_argument("--modules", type=int, default=None)
    ap.add_argument("--json", default=None, help="write the full result (with witnesses) to this file")
    a = ap.parse_args(argv)
    r = run(a.tier, a.seed, a.modules)
    inc = sum(r["inconclusive"].values())
    print("C12 tier=%s seed=%d evaluations=%d distinct=%d inconclusive=%d (%.1f%%) wall=%.1fs" % (r["tier"], r["seed"], r["evaluations"], r["distinct"], inc, 100.0 * inc / max(1, r["evaluations"]), r["wall_s"]))
    c = r["counters"]
    print("  modules=%d types=%d values=%d conforming=%d near_miss=%d other_nonconforming=%d" % (c.get("modules", 0), c.get("types", 0), c.get("values", 0), c.get("conforming", 0), c.get("near_miss", 0), c.get("other_nonconforming", 0)))
    print("  accepted_by_all=%d rejected_by_all=%d disagreements=%d validate_panics=%d enc=%d/%d lit=%d/%d" % (c.get("accepted_by_all", 0), c.get("rejected_by_all", 0), c.get("disagreements", 0), c.get("validate_panics", 0), c.get("enc_equal", 0), c.get("enc_checked", 0), c.get("lit_equal", 0), c.get("lit_checked", 0)))
    print("  validators=%d redeemer same-as-expect=%d/%d datum same-as-expect=%d/%d parameter round-trip=%d/%d" % (c.get("validators", 0), c.get("validator_redeemer_same_as_expect", 0), c.get("validator_redeemer_checked", 0), c.get("validator_datum_same_as_expect", 0), c.get("validator_datum_checked", 0), c.get("validator_param_roundtrip", 0), c.get("validator_param_checked", 0)))
    print("  expect-then-upcast same-as-expect=%d/%d" % (c.get("rt_same_as_expect", 0), c.get("rt_checked", 0)))
    print("  types_with: " + ", ".join("%s=%d" % (k.split(":", 1)[1], v) for k, v in c.items() if k.startswith("types_with:")))
    print("  types_head: " + ", ".join("%s=%d" % (k.split(":", 1)[1], v) for k, v in c.items() if k.startswith("types_head:")))
    print("  origins: " + ", ".join("%s=%d" % (k.split(":", 1)[1], v) for k, v in c.items() if k.startswith("origin:")))
    print("  expect errors: " + ", ".join("%s=%d" % (k.split(":", 1)[1], v) for k, v in c.items() if k.startswith("expect_err:")))
    for k_, v_ in c.items():
        if k_.startswith("disagreement:"):
            print("  disagreement %-60s %d" % (k_.split(":", 1)[1], v_))
    if r["inconclusive"]:
        print("  inconclusive: " + json.dumps(r["inconclusive"]))
    for key, n in r["violation_counts"].items():
        print("  VIOLATION x%-5d %s" % (n, key))
    if a.json:
        with open(a.json, "w") as f:
            json.dump(r, f, indent=1, default=str)
    return 1 if r["violations"] else (2 if inc * 20 > r["evaluations"] else 0)


if __name__ == "__main__":
    sys.exit(main())
