"""C12: an independent reading of the blueprint JSON that is actually published.

Off-chain tools never see the compiler's Rust structures, only the JSON
(`{"$ref": ...}` + `definitions`).  This is a small validator for the CIP-57
"plutus data schema" language as it appears in Aiken blueprints:

    {}                                         opaque: any Plutus data
    {"dataType": "integer"} / {"dataType": "bytes"}
    {"dataType": "list", "items": S}           homogeneous list
    {"dataType": "list", "items": [S1, .., Sn]} tuple: a list of exactly n items
    {"dataType": "map", "keys": S, "values": S}
    {"dataType": "constructor", "index": i, "fields": [S..]}   exact number of fields
    {"anyOf": [S..]} (also "oneOf")            at least one alternative
    {"$ref": "#/definitions/<key>"}            JSON pointer: "~1" = "/", "~0" = "~"
    {"dataType": "#pair" | "#unit" | "#boolean" | "#integer" | "#bytes" | "#string" | "#list"}
                                               builtin (non-Data) types: no *Data* value inhabits them

`title`, `description`, `$comment` are annotations.  Anything else is reported
as a broken schema (`SchemaProblem`), which the caller treats as a finding of
its own -- never as an accept or a reject.
"""


class SchemaProblem(Exception):
    pass


BUILTIN = {"#pair", "#unit", "#boolean", "#integer", "#bytes", "#string", "#list"}


def resolve(definitions, ref):
    if not isinstance(ref, str) or not ref.startswith("#/definitions/"):
        raise SchemaProblem("unsupported $ref " + repr(ref))
    key = ref[len("#/definitions/"):].replace("~1", "/").replace("~0", "~")
    if key not in definitions:
        raise SchemaProblem("dangling $ref " + repr(ref))
    return definitions[key]


def accepts(definitions, schema, d, depth=0):
    """True / False: does the Data value `d` satisfy `schema`?  Raises SchemaProblem on a schema
    that cannot be read."""
    if depth > 2000:
        raise SchemaProblem("reference cycle without progress")
    if not isinstance(schema, dict):
        raise SchemaProblem("schema is not an object: " + repr(schema)[:80])
    if "$ref" in schema:
        return accepts(definitions, resolve(definitions, schema["$ref"]), d, depth + 1)
    for alt in ("anyOf", "oneOf"):
        if alt in schema:
            if not isinstance(schema[alt], list):
                raise SchemaProblem(alt + " is not a list")
            # every alternative is read (a broken one is a problem even if another one matches)
            return any([accepts(definitions, s, d, depth + 1) for s in schema[alt]])
    dt = schema.get("dataType")
    if dt is None:
        extra = set(schema) - {"title", "description", "$comment"}
        if extra:
            raise SchemaProblem("keywords without dataType: " + ",".join(sorted(extra)))
        return True
    if dt == "integer":
        return "i" in d
    if dt == "bytes":
        return "b" in d
    if dt == "list":
        items = schema.get("items")
        if isinstance(items, dict):
            return "l" in d and all([accepts(definitions, items, x, depth + 1) for x in d["l"]])
        if isinstance(items, list):
            if "l" not in d or len(d["l"]) != len(items):
                return False
            return all([accepts(definitions, s, x, depth + 1) for s, x in zip(items, d["l"])])
        raise SchemaProblem("list without items")
    if dt == "map":
        if "keys" not in schema or "values" not in schema:
            raise SchemaProblem("map without keys/values")
        if "m" not in d:
            return False
        return all([accepts(definitions, schema["keys"], k, depth + 1) and accepts(definitions, schema["values"], v, depth + 1) for k, v in d["m"]])
    if dt == "constructor":
        idx, fields = schema.get("index"), schema.get("fields")
        if not isinstance(idx, int) or isinstance(idx, bool) or idx < 0 or not isinstance(fields, list):
            raise SchemaProblem("constructor without index/fields")
        if "c" not in d or int(d["c"]) != idx or len(d["f"]) != len(fields):
            return False
        return all([accepts(definitions, s, x, depth + 1) for s, x in zip(fields, d["f"])])
    if dt in BUILTIN:
        return False
    raise SchemaProblem("unknown dataType " + repr(dt))


def verdict(definitions, reference, d):
    """'ok' | 'reject' | {'problem': text}"""
    try:
        return "ok" if accepts(definitions, reference, d) else "reject"
    except SchemaProblem as e:
        return {"problem": str(e)}
    except RecursionError:
        return {"problem": "recursion"}
