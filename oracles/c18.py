#!/usr/bin/env python3
"""C18 — applying a parameter means applying the function.

Generated validators with 1-4 parameters (types and conforming / non-conforming values
from the C12 type model). Probe body: the `withdraw` handler returns `(p1, .., pn) as
Data == redeemer`, so the applied validator's behaviour reveals which values were bound to
which parameter. Application histories: one parameter at a time through
`Blueprint::apply_parameter` with a JSON save/load between the steps, vs the original
program applied to the same Data through plain term application, vs
`uplc::tx::apply_params_to_script` on the raw bytes. After every step: remaining
parameters = tail; the new compiledCode decodes to `[old_program (con data p)]`; the
published hash is recomputed in Python (blake2b-224 over tag || code); the applied
validator behaves like the original applied to the parameters on generated contexts;
a non-conforming parameter is rejected with an error (never a panic) and leaves the
blueprint unchanged; applying to a validator without parameters is an error."""
import hashlib
import json
import os
import sys

sys.path.insert(0, os.path.join(os.path.dirname(os.path.abspath(__file__)), "schema_ref"))
import common
from common import Check, Rng, h, norm
import gen as SG  # noqa: E402  (schema_ref/gen.py; must be the same module objects its own imports use)
import model as M  # noqa: E402

BAD = {"bare-pair", "record-tag", "self-nested-generic", "alias-of-recursive-generic", "list-deco"}


def ctx_withdraw(redeemer):
    return {"c": "0", "f": [{"i": "0"}, redeemer, {"c": "2", "f": [{"c": "0", "f": [{"b": "bb" * 28}]}]}]}


def subjects(seed, n):
    """-> [(source of module m, [type strings], [[conforming..] per param], [[nonconforming..] per param])]"""
    out = []
    k = 0
    while len(out) < n and k < n * 6:
        rng = Rng(seed, stream=18000 + k)
        k += 1
        mod, types, _ = SG.gen_types(rng, quirky=False)
        good = [t for t in types if not (M.features(mod, t) & BAD)]
        if not good:
            continue
        nparams = 1 + rng.below(min(4, len(good)))
        ts = [rng.pick(good) for _ in range(nparams)]
        defs = []
        for t in ts:
            for nm in SG.reachable_defs(mod, t):
                if nm not in defs:
                    defs.append(nm)
        src = "\n".join(M.render_def(mod.defs[nm]) for nm in defs)
        conf, bad = [], []
        for t in ts:
            vals = SG.values_for(mod, t, [o for o in types if o != t], rng, n_conf=4, n_mut=8, n_cross=1, n_rand=1)
            conf.append([d for d, _, _ in vals if M.conforms(mod, t, d)])
            bad.append([d for d, _, _ in vals if not M.conforms(mod, t, d)])
        if any(not c for c in conf):
            continue
        params = ", ".join(f"p{i}: {M.show(t)}" for i, t in enumerate(ts))
        tup = ", ".join(f"p{i}" for i in range(len(ts)))
        body = f"let d: Data = [{', '.join('as_data(p%d)' % i for i in range(len(ts)))}]" if len(ts) == 1 else f"let d: Data = ({tup})"
        if len(ts) == 1:
            body = "let d0: Data = p0\n    let d: Data = [d0]"
        vsrc = src + f"\n\nvalidator probe({params}) {{\n  withdraw(r: Data, _c: Data, _tx: Data) {{\n    {body}\n    d == r\n  }}\n\n  else(_) {{\n    fail\n  }}\n}}\n"
        # siblings in the same module whose names share a prefix with the target (`probe_v2` extends it,
        # `pro` is a prefix of it): applying a parameter to `probe` must leave them exactly as they were
        vsrc += "\nvalidator probe_v2(q0: Int, q1: ByteArray) {\n  withdraw(r: Data, _c: Data, _tx: Data) {\n    let d: Data = (q0, q1)\n    d == r\n  }\n\n  mint(_r: Data, _p: ByteArray, _tx: Data) {\n    q0 > 0\n  }\n\n  else(_) {\n    fail\n  }\n}\n\nvalidator pro(z: Int) {\n  withdraw(r: Data, _c: Data, _tx: Data) {\n    let d: Data = z\n    d == r\n  }\n\n  else(_) {\n    fail\n  }\n}\n"
        out.append((vsrc, [M.show(t) for t in ts], conf, bad))
    return out


def main():
    a = common.parse_args(sys.argv[1:])
    if not a.no_build:
        common.build(["aiken-run", "uplc-run"])
    chk = Check("C18", "exploration", a.tier)
    rng = Rng(chk.seed, 18)
    quick = a.tier != "thorough"
    subs = subjects(chk.seed, 180 if quick else 1200)
    # the ledger language of the project cycles v3, v3, v2, v1: applying a parameter must keep it
    # (the hash published after each step is the hash of the new code *for the declared language*)
    PLUTUS = ["v3", "v3", "v2", "v1"]
    bjobs = [{"id": i, "op": "blueprint", "plutus": PLUTUS[i % 4], "modules": [{"name": "m", "kind": "validator", "src": s[0]}]} for i, s in enumerate(subs)]
    bres = common.run_jobs("aiken-run", bjobs, per_job_timeout=300)
    work = []
    for i, s in enumerate(subs):
        r = bres.get(i, {})
        if "blueprint" not in r:
            if r.get("rejected") or r.get("blueprint_error"):
                chk.inconc("subject-not-built:" + str(r.get("variant") or r.get("blueprint_error") or r.get("rejected")))
            elif "blueprint_panic" in r or "panic" in r or "died" in r:
                chk.violation("C18|blueprint-build-crash", {"source": s[0], "observed": {k: v for k, v in r.items() if k != "blueprint"}})
            else:
                chk.inconc("subject-not-built")
            continue
        work.append((s, r["blueprint"]))
    chk.count("parameterised_validators", len(work))
    ajobs = []
    meta = {}
    for wi, (s, bp) in enumerate(work):
        src, tstrs, conf, bad = s
        n = len(tstrs)
        # history A: all parameters one by one (with save/load), then one more (must fail)
        chosen = [rng.pick(c) for c in conf]
        steps = [{"module": "m", "validator": "probe", "param": p} for p in chosen] + [{"module": "m", "validator": "probe", "param": {"i": "0"}}]
        j = {"id": len(ajobs), "op": "apply", "blueprint": bp, "steps": steps, "save_load": True}
        meta[j["id"]] = ("all", wi, chosen)
        ajobs.append(j)
        # history B: a non-conforming value at every position (after conforming ones before it)
        for pos in range(n):
            for bv in bad[pos][: (3 if quick else 8)]:
                steps = [{"module": "m", "validator": "probe", "param": p} for p in chosen[:pos]] + [{"module": "m", "validator": "probe", "param": bv}]
                j = {"id": len(ajobs), "op": "apply", "blueprint": bp, "steps": steps, "save_load": False}
                meta[j["id"]] = ("bad", wi, pos, bv)
                ajobs.append(j)
    ares = common.run_jobs("aiken-run", ajobs, per_job_timeout=300)
    # collect programs to decode / evaluate
    ejobs = []
    emeta = {}
    rjobs = []
    rmeta = {}
    for j in ajobs:
        r = ares.get(j["id"], {})
        m = meta[j["id"]]
        s, bp = work[m[1]]
        src, tstrs, conf, bad = s
        orig = next(v for v in bp["validators"] if v["title"] == "m.probe.withdraw")
        w0 = {"source": src, "parameter_types": tstrs}
        if "steps" not in r:
            if "panic" in r or "died" in r:
                chk.violation("C18|apply-crash", {**w0, "observed": r})
            else:
                chk.inconc("harness_error")
            continue
        if m[0] == "bad":
            st = r["steps"][-1]
            w = {**w0, "position": m[2], "non_conforming_value": m[3], "observed": {k: v for k, v in st.items() if k != "ok"}}
            for prev in r["steps"][:-1]:
                if "ok" not in prev:
                    chk.violation("C18|conforming-parameter-rejected", {**w0, "observed": {k: v for k, v in prev.items() if k != "ok"}})
            if "panic" in st:
                chk.violation("C18|non-conforming-parameter|panic|" + st["panic"].split(" @ ")[-1], w)
            elif "ok" in st:
                chk.violation("C18|non-conforming-parameter-accepted", w)
            elif st.get("unchanged") is not True:
                chk.violation("C18|blueprint-changed-by-a-rejected-application", w)
            else:
                chk.held(h(["bad", src, m[2], m[3]]))
                chk.count("non_conforming_rejected")
            continue
        chosen = m[2]
        steps = r["steps"]
        prev_code = orig["compiledCode"]
        prev_params = [p.get("title") for p in orig.get("parameters", [])]
        ok = True
        for k, st in enumerate(steps[:-1]):
            w = {**w0, "step": k, "parameter": chosen[k]}
            if "ok" not in st:
                chk.violation("C18|conforming-parameter-rejected" + ("|panic" if "panic" in st else ""), {**w, "observed": st})
                ok = False
                break
            if st.get("reload_eq") is not True:
                chk.violation("C18|save-load-between-steps-changes-blueprint", {**w, "observed": {k2: v for k2, v in st.items() if k2 != "ok"}})
            val = next(v for v in st["ok"]["validators"] if v["title"] == "m.probe.withdraw")
            now_params = [p.get("title") for p in val.get("parameters", [])]
            if now_params != prev_params[1:]:
                chk.violation("C18|remaining-parameters-are-not-the-tail", {**w, "before": prev_params, "after": now_params})
            declared = bp["preamble"].get("plutusVersion", "v3")
            chk.count("application_steps_under_" + declared)
            if st["ok"]["preamble"].get("plutusVersion", "v3") != declared:
                chk.violation("C18|declared-plutus-version-changed-by-apply", {**w, "before": declared, "after": st["ok"]["preamble"].get("plutusVersion")})
            want_hash = hashlib.blake2b(bytes([int(declared[1:])]) + bytes.fromhex(val["compiledCode"]), digest_size=28).hexdigest()
            if val["hash"] != want_hash:
                chk.violation("C18|published-hash-is-not-the-hash-of-the-new-code", {**w, "declared_plutus_version": declared, "published": val["hash"], "recomputed": want_hash})
            # every entry of every *other* validator is exactly what it was before the application
            before = {v["title"]: v for v in bp["validators"]}
            for other in st["ok"]["validators"]:
                if other["title"].split(".")[:2] != ["m", "probe"]:
                    chk.count("sibling_entries_checked")
                    if other != before.get(other["title"]):
                        chk.violation("C18|apply-changes-another-validator", {**w, "target": "m.probe", "changed": other["title"], "before": {k2: (v2 if k2 != "compiledCode" else v2[:40] + "...") for k2, v2 in (before.get(other["title"]) or {}).items() if k2 in ("hash", "parameters", "compiledCode")}, "after": {k2: (v2 if k2 != "compiledCode" else v2[:40] + "...") for k2, v2 in other.items() if k2 in ("hash", "parameters", "compiledCode")}})
            # all handlers of one validator share code and hash
            for other in st["ok"]["validators"]:
                if other["title"].split(".")[:2] == val["title"].split(".")[:2] and (other["compiledCode"] != val["compiledCode"] or other["hash"] != val["hash"]):
                    chk.violation("C18|handlers-of-one-validator-diverge-after-apply", {**w, "titles": [val["title"], other["title"]]})
            rj = {"id": len(rjobs), "op": "recode", "hex": val["compiledCode"]}
            rmeta[rj["id"]] = (w, prev_code, chosen[k])
            rjobs.append(rj)
            prev_code = val["compiledCode"]
            prev_params = now_params
            chk.count("application_steps")
        if not ok:
            continue
        last = steps[-1]
        if "ok" in last or last.get("err") != "NoParametersToApply":
            chk.violation("C18|apply-to-validator-without-parameters-not-rejected", {**w0, "observed": {k2: v for k2, v in last.items() if k2 != "ok"}})
        # behaviour: fully applied (history A) vs original applied by plain application vs raw apply
        expected_list = {"l": chosen}
        ctxs = [ctx_withdraw(expected_list), ctx_withdraw({"l": list(reversed(chosen))} if len(chosen) > 1 else {"l": [{"i": "424242"}]}), ctx_withdraw({"l": chosen[:-1]}), {"i": "1"}]
        ej = {"id": len(ejobs), "op": "eval_hex", "hex": prev_code, "argsets": [[c] for c in ctxs]}
        emeta[ej["id"]] = ("applied", j["id"])
        ejobs.append(ej)
        ej = {"id": len(ejobs), "op": "eval_hex", "hex": orig["compiledCode"], "argsets": [chosen + [c] for c in ctxs]}
        emeta[ej["id"]] = ("original", j["id"])
        ejobs.append(ej)
        ej = {"id": len(ejobs), "op": "apply_raw", "script": orig["compiledCode"], "params": chosen}
        emeta[ej["id"]] = ("raw", j["id"])
        ejobs.append(ej)
    eres = common.run_jobs("aiken-run", ejobs, per_job_timeout=300)
    rres = common.run_jobs("uplc-run", rjobs, per_job_timeout=120)
    # structure: new code = [old (con data p)]
    old_trees = {}
    tj = [{"id": i, "op": "recode", "hex": hx} for i, hx in enumerate(sorted({m[1] for m in rmeta.values()}))]
    tres = common.run_jobs("uplc-run", tj, per_job_timeout=120)
    for t in tj:
        old_trees[t["hex"]] = tres.get(t["id"], {}).get("tree")
    for rj in rjobs:
        w, prev_code, p = rmeta[rj["id"]]
        r = rres.get(rj["id"], {})
        tree = r.get("tree")
        old = old_trees.get(prev_code)
        if tree is None or old is None:
            chk.inconc("no-tree")
            continue
        want = ["app", old, ["con", "data", p]]
        if norm(tree) != norm(want):
            chk.violation("C18|new-code-is-not-old-code-applied-to-the-parameter", {**w, "top_level": norm(tree)[:1]})
        else:
            chk.held(h(["struct", rj["hex"]]))
    # behaviour
    by_apply = {}
    for ej in ejobs:
        kind, aj = emeta[ej["id"]]
        by_apply.setdefault(aj, {})[kind] = (ej, eres.get(ej["id"], {}))
    raw_eval = []
    for aj, d in by_apply.items():
        s, bp = work[meta[aj][1]]
        w0 = {"source": s[0], "parameter_types": s[1], "parameters": meta[aj][2]}
        applied = d.get("applied", (None, {}))[1].get("results")
        original = d.get("original", (None, {}))[1].get("results")
        if applied is None or original is None:
            chk.inconc("no-eval")
            continue
        simp = lambda rs: [("ok", json.dumps(norm(x.get("ok")), sort_keys=True)) if "ok" in x else ("panic" if "panic" in x else "abort") for x in rs]
        if simp(applied) != simp(original):
            chk.violation("C18|applied-validator-behaves-differently-from-original-applied-to-parameters", {**w0, "applied": applied, "original": original})
        # a V3 validator that accepts returns unit; one that rejects aborts
        elif simp(applied)[0] != ("ok", json.dumps(["con", "unit", None])):
            chk.violation("C18|applied-validator-does-not-see-the-applied-parameters", {**w0, "applied": applied})
        elif simp(applied)[1][0] == "ok" and len(meta[aj][2]) > 1 and meta[aj][2] != list(reversed(meta[aj][2])):
            chk.violation("C18|applied-validator-accepts-permuted-parameters", {**w0, "applied": applied})
        else:
            chk.held(h(["behaviour", s[0], meta[aj][2]]), sample={"validator": s[0][-400:], "parameters": meta[aj][2], "applied_results": applied} if len(chk.samples) < 3 else None)
            chk.count("behaviour_equal")
        raw = d.get("raw", (None, {}))[1]
        if "ok" in raw:
            ctxs = [a[0] for a in d["applied"][0]["argsets"]]
            raw_eval.append(({"id": len(raw_eval), "op": "eval_hex", "hex": raw["ok"], "argsets": [[c] for c in ctxs]}, simp(applied), w0))
        elif "panic" in raw:
            chk.violation("C18|apply_params_to_script-panic", {**w0, "observed": raw})
        else:
            chk.violation("C18|apply_params_to_script-rejects-conforming-parameters", {**w0, "observed": raw})
    rr = common.run_jobs("aiken-run", [x[0] for x in raw_eval], per_job_timeout=300)
    for ej, want, w0 in raw_eval:
        got = rr.get(ej["id"], {}).get("results")
        simp = lambda rs: [("ok", json.dumps(norm(x.get("ok")), sort_keys=True)) if "ok" in x else ("panic" if "panic" in x else "abort") for x in rs]
        if got is None:
            chk.inconc("no-eval")
        elif simp(got) != want:
            chk.violation("C18|apply_params_to_script-result-behaves-differently", {**w0, "raw_applied": got, "blueprint_applied": want})
        else:
            chk.held(h(["raw", ej["hex"]]))
            chk.count("raw_apply_equal")
    chk.assumptions = [
        "parameter types avoid the features with open C12 findings (bare Pair, @tag on records, self-nested generics, alias of recursive generic, @list), so that those are not re-reported here",
        "conformance of a value to a type is decided by the independent model of oracles/schema_ref",
    ]
    chk.finish(
        rule="generated validators with 1-4 parameters of generated serialisable types; histories: step-by-step apply with JSON save/load, plain term application, apply_params_to_script; per step: tail of parameters, [old p] structure, recomputed hash, behaviour on 4 contexts; non-conforming values at every parameter position; distinct = (validator source, history)",
        floor={"parameterised_validators": 20, "application_steps": 30, "non_conforming_rejected": 50, "behaviour_equal": 15},
    )


if __name__ == "__main__":
    main()
