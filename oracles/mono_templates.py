"""Monomorphisation invariance (C01 / C06): a generic function instantiated at several types in
one program must behave, at each instantiation, like its hand-monomorphised copy.

The code generator keeps one specialised copy of a generic function per *variant name* derived
from the instantiation's representation (int / bytearray / list / map / pair / data ...). Two
instantiations whose representations differ but whose variant names collide silently share one
body. The random G-aiken stream almost never instantiates one generic function at two such types
inside one program, so this module writes those programs systematically:

  template (a representation-sensitive generic body) x ordered pair of instantiation types
  (T1, T2) -> entry(x1: T1, x2: T2) = [g(x1), g_T1(x1), g(x2), g_T2(x2)]  (all as Data)

Oracle: the value at 2k must equal the value at 2k+1 (the monomorphic copy is ordinary,
non-generic code), and the program must not abort: every template is total on the arguments
sent. No reference interpreter is involved."""
import common

I = lambda n: {"i": str(n)}
B = lambda hx: {"b": hx}
L = lambda *xs: {"l": list(xs)}
C = lambda i, *fs: {"c": str(i), "f": list(fs)}
M = lambda *kv: {"m": [list(p) for p in kv]}

# type text, tag for names, sample values (Data as the compiler represents the type)
TYPES = [
    ("Int", "int", [I(5), I(-1)]),
    ("ByteArray", "bytes", [B("00ff"), B("")]),
    ("Bool", "bool", [C(1), C(0)]),
    ("Data", "data", [I(7), L(I(1), B("aa")), C(3, I(1))]),
    ("List<Int>", "list_int", [L(I(1), I(2)), L()]),
    ("List<Pair<Int, Int>>", "pairs", [M((I(1), I(2)), (I(3), I(4))), M()]),
    ("List<Pair<ByteArray, List<Int>>>", "pairs2", [M((B("01"), L(I(1)))), M()]),
    ("List<(Int, Int)>", "list_tuple", [L(L(I(1), I(2)), L(I(3), I(4))), L()]),
    ("List<List<Int>>", "list_list", [L(L(I(1)), L()), L()]),
    ("List<Bool>", "list_bool", [L(C(1), C(0)), L()]),
    ("(Int, ByteArray)", "tuple", [L(I(1), B("00")), L(I(-5), B(""))]),
    ("Option<Int>", "option", [C(0, I(1)), C(1)]),
    ("Option<List<Pair<Int, Int>>>", "opt_pairs", [C(0, M((I(1), I(2)))), C(1)]),
    ("Rec", "rec", [C(0, I(1), B("00")), C(0, I(0), B("ffff"))]),
]
PRELUDE = "pub type Rec {\n  a: Int,\n  b: ByteArray,\n}\n\npub type Box<t> {\n  inner: t,\n}\n\n"

# name, parameters [(name, type with {A})], result type with {A}, body, extra monomorphic parameter values
TEMPLATES = [
    ("wrap", [("x", "{A}")], "List<{A}>", "[x]"),
    ("some", [("x", "{A}")], "Option<{A}>", "Some(x)"),
    ("same", [("x", "{A}"), ("y", "{A}")], "Bool", "x == y"),
    ("pick", [("b", "Bool"), ("x", "{A}"), ("y", "{A}")], "{A}", "if b {\n    x\n  } else {\n    y\n  }"),
    ("tup", [("x", "{A}"), ("n", "Int")], "({A}, Int)", "(x, n)"),
    ("twice", [("x", "{A}")], "List<{A}>", "[x, x]"),
    ("box", [("x", "{A}")], "Box<{A}>", "Box { inner: x }"),
    ("unbox", [("x", "{A}")], "{A}", "{\n    let bx = Box { inner: x }\n    bx.inner\n  }"),
    ("head_or", [("xs", "List<{A}>"), ("d", "{A}")], "{A}", "when xs is {\n    [] -> d\n    [h, ..] -> h\n  }"),
    ("rep", [("x", "{A}"), ("n", "Int")], "List<{A}>", "if n <= 0 {\n    []\n  } else {\n    [x, ..{SELF}(x, n - 1)]\n  }"),
    ("opt_or", [("o", "Option<{A}>"), ("d", "{A}")], "{A}", "when o is {\n    Some(v) -> v\n    None -> d\n  }"),
    ("elem", [("xs", "List<{A}>"), ("x", "{A}")], "Bool", "when xs is {\n    [] -> False\n    [h, ..t] -> h == x || {SELF}(t, x)\n  }"),
]


def fn_src(tmpl, name, a):
    tname, params, ret, body = tmpl
    sig = ", ".join(f"{p}: {t.replace('{A}', a)}" for p, t in params)
    return f"fn {name}({sig}) -> {ret.replace('{A}', a)} {{\n  {body.replace('{SELF}', name)}\n}}\n"


CALL_ARGS = {
    "wrap": ["{x}"], "some": ["{x}"], "same": ["{x}", "{y}"], "pick": ["flag", "{x}", "{y}"], "tup": ["{x}", "2"],
    "twice": ["{x}"], "box": ["{x}"], "unbox": ["{x}"], "rep": ["{x}", "2"], "to_data": ["{x}"],
    "head_or": ["if flag {{ [] }} else {{ [{y}, {x}] }}", "{x}"],
    "opt_or": ["if flag {{ Some({y}) }} else {{ None }}", "{x}"],
    "elem": ["[{y}, {y}]", "{x}"],
}


def call(tmpl, fname, xvar, yvar):
    """argument expressions for one instantiation: x / y are entry parameters of type A"""
    return f"{fname}({', '.join(a.format(x=xvar, y=yvar) for a in CALL_ARGS[tmpl[0]])})"


def cases(seed, quick=True, per_module=4):
    rng = common.Rng(seed, 303)
    combos = []
    for tmpl in TEMPLATES:
        for i, t1 in enumerate(TYPES):
            for j, t2 in enumerate(TYPES):
                if i != j:
                    combos.append((tmpl, t1, t2))
    if quick:
        # all ordered pairs that contain a list-like type for every template, a sample of the rest
        listy = lambda t: t[0].startswith("List<") or t[0].startswith("Option<List")
        keep = [c for c in combos if listy(c[1]) and listy(c[2])]
        rest = [c for c in combos if not (listy(c[1]) and listy(c[2]))]
        combos = keep + rng.shuffle(rest)[:300]
    out = []
    group = []
    for k, (tmpl, (ty1, tag1, vals1), (ty2, tag2, vals2)) in enumerate(combos):
        g = f"{tmpl[0]}_{k}"
        src = fn_src(tmpl, g, "a") + "\n" + fn_src(tmpl, f"{g}_{tag1}", ty1) + "\n" + fn_src(tmpl, f"{g}_{tag2}", ty2) + "\n"
        parts = []
        for n, (tag, xv, yv) in enumerate(((tag1, "x1", "y1"), (tag2, "x2", "y2"))):
            parts.append(f"  let g{n}: Data = {call(tmpl, g, xv, yv)}\n  let m{n}: Data = {call(tmpl, g + '_' + tag, xv, yv)}\n")
        src += f"pub fn entry_{k}(flag: Bool, x1: {ty1}, y1: {ty1}, x2: {ty2}, y2: {ty2}) -> Data {{\n" + "".join(parts) + "  let result: Data = [g0, m0, g1, m1]\n  result\n}\n"
        tuples = []
        for flag in (1, 0):
            for a in range(2):
                tuples.append([C(flag), vals1[a % len(vals1)], vals1[(a + flag) % len(vals1)], vals2[a % len(vals2)], vals2[(a + 1 - flag) % len(vals2)]])
        group.append((k, src, tuples, f"{tmpl[0]}|{ty1}|{ty2}"))
        if len(group) == per_module:
            out.append(group)
            group = []
    if group:
        out.append(group)
    res = []
    for mi, grp in enumerate(out):
        src = PRELUDE + "\n".join(s for _, s, _, _ in grp)
        res.append({
            "index": mi, "modules": [{"name": "m", "kind": "lib", "src": src}], "src": src,
            "features": sorted({"mono:" + l.split("|")[0] for _, _, _, l in grp}),
            "labels": {f"entry_{k}": l for k, _, _, l in grp},
            "entries": [{"name": f"entry_{k}", "args": t, "expected": [["ok", None]] * len(t)} for k, _, t, _ in grp],
        })
    return res


def judge(chk, prop, cases_, res, structural):
    """book the results of jobs built by aiken_checks.jobs_for_generated(cases_) into `chk`.
    prop == "C01": value of the generic instance == value of the monomorphic copy;
    prop == "C06": no structural machine error / no abort at all (the templates are total)."""
    import drv

    for c in cases_:
        r = res.get(c.get("job"), {})
        if "runs" not in r:
            chk.inconc("mono-template-no-runs")
            continue
        for run in r["runs"]:
            if "rejected" in run:
                chk.inconc("mono-template-module-rejected")
                continue
            for e, er in zip(c["entries"], run["entries"]):
                label = c["labels"][e["name"]]
                tname = label.split("|")[0]
                w = {"origin": "monomorphisation-template:" + label, "source": c["src"], "entry": e["name"], "tracing": run["tracing"]}
                if "compile_panic" in er:
                    chk.violation(f"{prop}|generic-instantiation|compile-panic|{tname}", {**w, "panic": er["compile_panic"]})
                    continue
                for pos, got in enumerate(er.get("results") or []):
                    chk.count("monomorphisation_cases")
                    o = drv.outcome(got)
                    ww = {**w, "args": e["args"][pos], "observed": str(got)[:400]}
                    if o[0] == "abort":
                        if prop == "C06" and o[1] in structural:
                            chk.violation(f"C06|structural-error|{o[1]}|generic-instantiation|{tname}", ww)
                        elif prop == "C01":
                            chk.violation(f"C01|generic-instantiation|aborts|{tname}", ww)
                        else:
                            chk.count("mono_template_aborts_non_structural")
                        continue
                    if o[0] != "ok":
                        chk.inconc("mono-template-no-verdict")
                        continue
                    if prop == "C01":
                        v = o[1]
                        items = v.get("l") if isinstance(v, dict) else None
                        if not items or len(items) != 4 or items[0] != items[1] or items[2] != items[3]:
                            chk.violation(f"C01|generic-instantiation|differs-from-monomorphic-copy|{tname}", ww)
                            continue
                    chk.held(common.h(["mono", label, run["tracing"], pos]), sample={**ww, "types": label} if (pos == 0 and chk.counters.get("monomorphisation_cases", 0) % 1500 == 1) else None)
