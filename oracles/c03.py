#!/usr/bin/env python3
"""C03 — the evaluator implements UPLC's operational semantics.

Oracle: oracles/uplc_ref (big-step CEK written from the Plutus Core specification;
read-back with full substitution under every binder and under constr/case), which
must first reproduce the upstream conformance goldens (self-test) before it is
allowed to judge anything. Workload: exhaustive enumeration of closed terms up to a
node bound over a reduced alphabet (per-shard builtin palettes), seeded random
machine terms (closures, constr/case, case on constants, partial builtins surviving
into the result), and the conformance corpus itself under every language/protocol
configuration. Results are compared as closed de Bruijn trees."""
import sys

import common
import uplc_checks as U
from common import Check
from uplc_ref import cek, variant_for
from uplc_ref import term as T


def selftest(chk, limit):
    """oracle vs upstream goldens (v3 = variant E): a mismatch is a harness error."""
    bad = 0
    n = 0
    for f, prog, exp, _ in U.conformance_terms("v3", limit):
        if exp is None:
            continue
        r = cek.evaluate_verdict(prog[1], variant="E", fuel=2_000_000)
        if "inconclusive" in r:
            continue
        n += 1
        e = exp.strip()
        if e in ("evaluation failure", "parse error"):
            if "ok" in r:
                bad += 1
        else:
            try:
                want = T.parse_program(e)
                want = want[1]
            except Exception:
                continue
            if "ok" not in r or not T.term_json_equal(r["ok"], want):
                bad += 1
    chk.count("oracle_selftest_goldens", n)
    return bad


def main():
    a = common.parse_args(sys.argv[1:])
    if not a.no_build:
        common.build(["uplc-run"])
    chk = Check("C03", "exploration", a.tier)
    quick = a.tier != "thorough"
    bad = selftest(chk, 250 if quick else None)
    if bad:
        print(f"INCONCLUSIVE property=C03 the reference evaluator disagrees with {bad} upstream goldens (harness error)")
        sys.exit(2)
    configs = U.CONFIGS_ALL
    tasks = U.exhaustive_tasks(4 if quick else 5, chk.seed, configs)
    n_exh = sum(len(t[5]) for t in tasks)
    per = 1500 if quick else 40000
    for i in range(common.NCPU * (2 if quick else 6)):
        tasks.append(("machine", f"shard{i}", per, chk.seed + 1000 * i, configs, None))
    # conformance corpus under every configuration (values only; budgets belong to C05)
    corpus = []
    for f, prog, exp, _ in U.conformance_terms("v3", 300 if quick else None):
        corpus.append(prog[1])
    CH = 200
    for i in range(0, len(corpus), CH):
        tasks.append(("corpus", f"conformance-{i // CH}", 0, chk.seed + i, configs, corpus[i:i + CH]))
    results = U.run_tasks(tasks)
    totals = U.collect(results, chk, props={"C03"})
    chk.count("exhaustive_slice_terms", n_exh)
    chk.count("cases_total", totals["cases"])
    chk.count("no_verdict_budget", totals["nobudget"])
    chk.count("configurations", len(configs))
    chk.assumptions = [
        "reference evaluator oracles/uplc_ref (spec CEK, builtins, discharge) is the trusted base; it reproduces the upstream conformance goldens (checked at the start of every run)",
        "constr/case are generated in 1.1.0 programs; availability of builtins per ledger language is enforced by the ledger's deserialiser, not by the machine, and is not judged",
        "a term whose evaluation the reference cannot finish within its fuel is inconclusive",
    ]
    chk.finish(
        rule="exhaustive: every closed term with <= %d nodes over {var, lam, app, delay, force, constr, case, error, 4 constants, 2-builtin palettes (6 shards)}; random: machine terms (closures captured under lam/delay/constr/case, case on constants, partial builtin applications in results, open variables) and the upstream conformance programs; all under V1/V2/V3 x protocol versions 8-11; distinct = hash(term, configuration); non-trivial = all" % (4 if quick else 5),
        floor={"evaluations": 20000, "exhaustive_slice_terms": 5000},
        extra_coverage={"exhaustive_bound_nodes": 4 if quick else 5},
    )


if __name__ == "__main__":
    main()
