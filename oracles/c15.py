#!/usr/bin/env python3
"""C15 — UPLC text round-trips: pretty(p) parses back to p (as de Bruijn trees with
constants by value) and re-prints identically. Oracle: structural equality of the
JSON trees produced by the harness' own (de)serialiser, which shares nothing with
the repository's printer or parser."""
import json
import sys

import common
import gen_uplc as G
from common import Check, Rng, h


def string_class(s):
    cls = set()
    for ch in s:
        o = ord(ch)
        if o > 0xFFFF:
            cls.add("astral")
        elif o > 0xFF:
            cls.add("bmp")
        elif o > 0x7E:
            cls.add("latin1/del")
        elif o < 0x20:
            cls.add("control")
        elif ch in '"\\':
            cls.add("quote/backslash")
    return "+".join(sorted(cls)) or "plain"


def type_str(t):
    return t if isinstance(t, str) else "(" + " ".join(type_str(x) if i else x for i, x in enumerate(t)) + ")"


def strings_in(t, v, out):
    if t == "string":
        out.append(v)
    elif isinstance(t, list) and t[0] == "list":
        for x in v:
            strings_in(t[1], x, out)
    elif isinstance(t, list) and t[0] == "pair":
        strings_in(t[1], v[0], out)
        strings_in(t[2], v[1], out)


def atom_signature(atom):
    if atom[0] == "builtin":
        return "builtin:" + atom[1]
    if atom[0] == "con":
        ss = []
        strings_in(atom[1], atom[2], ss)
        if ss:
            classes = sorted({string_class(s) for s in ss})
            return "con:string[" + ",".join(classes) + "]"
        return "con:" + type_str(atom[1])
    return atom[0]


def atoms(t):
    out = []
    stack = [t]
    while stack:
        x = stack.pop()
        tag = x[0]
        if tag in ("con", "builtin"):
            out.append(x)
        elif tag in ("lam", "delay", "force"):
            stack.append(x[1])
        elif tag == "app":
            stack += [x[1], x[2]]
        elif tag == "constr":
            stack += x[2]
        elif tag == "case":
            stack += [x[1]] + x[2]
    return out


def failure_of(res):
    """None if the round trip held, else a short failure kind."""
    if "panic" in res:
        return "panic"
    if "harness_error" in res or "died" in res or "timeout" in res:
        return None
    for p in res.get("paths", []):
        if p["path"] != "name":
            continue
        if "parse_panic" in p:
            return "parse_panic"
        if "parse_err" in p:
            return "parse_err"
        if "conv_err" in p:
            return "conv_err"
        if p.get("tree_eq") is False:
            return "tree_neq"
        if p.get("version_eq") is False:
            return "version_neq"
        if p.get("reprint_eq") is False:
            return "reprint_neq"
    return None


def main():
    a = common.parse_args(sys.argv[1:])
    if not a.no_build:
        common.build(["uplc-run"])
    chk = Check("C15", "exploration", a.tier)
    rng = Rng(chk.seed, 15)
    table = G.builtin_table()
    names = [b["name"] for b in table]
    quick = a.tier != "thorough"
    jobs = []

    def add(term, version=(1, 1, 0), tag=""):
        jobs.append({"id": len(jobs), "op": "pretty", "term": term, "version": list(version), "_tag": tag})

    # (1) every builtin, bare and applied/forced
    for n in names:
        add(["builtin", n], tag="builtin")
        add(["app", ["force", ["builtin", n]], ["con", "integer", "1"]], tag="builtin")
    # (2) every constant type nesting to depth 3 (+ BLS element lists/pairs)
    base = G.BASE_TYPES + ["g1", "g2"]
    types = list(base)
    for t in base:
        types.append(["list", t])
        for u in ["integer", "data", "g2", "string"]:
            types.append(["pair", t, u])
    for t in list(types[len(base):]):
        types.append(["list", t])
        types.append(["pair", "bool", t])
    for t in types:
        for _ in range(4 if quick else 6):
            add(["con", t, G.gen_value(rng, t, 2, encodings=True)], tag="type")
    # (3) strings over all of Unicode
    for s in G.STRINGS:
        add(["con", "string", s], tag="string")
    for _ in range(1000 if quick else 5000):
        add(["con", "string", G.gen_string(rng)], tag="string")
    for cp in list(range(0, 0x100)) + [0x100, 0x7FF, 0x800, 0xD7FF, 0xE000, 0xFFFD, 0xFFFF, 0x10000, 0x10FFFF]:
        add(["con", "string", "a" + chr(cp) + "b"], tag="string")
    # (4) data with every constructor-tag range, nested
    for tag in G.CONSTR_TAGS:
        add(["con", "data", {"c": str(tag), "f": [{"i": "1"}, {"b": "ff"}]}], tag="data")
    for _ in range(1000 if quick else 5000):
        add(["con", "data", G.gen_data(rng, 3, encodings=True)], tag="data")
    # (5) random programs over all constructors, versions 1.0.0 and 1.1.0
    n_random = 12000 if quick else 60000
    for i in range(n_random):
        v = (1, 1, 0) if i % 3 else (1, 0, 0)
        add(G.gen_term(rng, 2 + rng.below(40), names, 0, allow_constr=(v == (1, 1, 0)), bls=True, encodings=True), v, tag="random")
    # version triples
    for v in [(0, 0, 0), (1, 0, 0), (1, 1, 0), (2, 3, 4), (10, 200, 3000)]:
        add(["con", "unit", None], v, tag="version")

    for j in jobs:
        j["keep_text"] = True
    res = common.run_jobs("uplc-run", [{k: v for k, v in j.items() if k != "_tag"} for j in jobs])
    failing = []
    feats = set()
    for j in jobs:
        r = res.get(j["id"], {})
        if "harness_error" in r:
            chk.inconc("harness_error:" + str(r["harness_error"])[:60])
            continue
        if "died" in r or "timeout" in r:
            chk.violation("C15|driver-died-or-hung", {"term": j["term"], "result": r})
            continue
        f = failure_of(r)
        G.term_features(j["term"], feats)
        chk.count("tag:" + j["_tag"])
        if f is None:
            chk.held(h(j["term"]), nontrivial=G.term_size(j["term"]) >= 1, sample={"term": j["term"], "text": next((p.get("text") for p in r.get("paths", []) if p["path"] == "name"), None)} if j["id"] % 997 == 0 else None)
        else:
            failing.append((j, r, f))
    # attribute failures to atoms (second pass on the atoms alone)
    atom_jobs = {}
    for j, r, f in failing:
        for at in atoms(j["term"]):
            key = json.dumps(at, sort_keys=True)
            if key not in atom_jobs:
                atom_jobs[key] = {"id": len(atom_jobs), "op": "pretty", "term": at, "version": [1, 1, 0]}
    ares = common.run_jobs("uplc-run", list(atom_jobs.values())) if atom_jobs else {}
    atom_fail = {}
    for key, aj in atom_jobs.items():
        f = failure_of(ares.get(aj["id"], {}))
        if f:
            atom_fail[key] = f
    for j, r, f in failing:
        sigs = set()
        for at in atoms(j["term"]):
            key = json.dumps(at, sort_keys=True)
            if key in atom_fail:
                sigs.add(f"C15|{atom_signature(at)}|{atom_fail[key]}")
        if not sigs:
            sigs.add(f"C15|composite|{f}")
        bad_path = next((p for p in r.get("paths", []) if p["path"] == "name"), r)
        for s in sorted(sigs):
            chk.violation(s, {"term": j["term"], "version": j["version"], "failure": f, "observed": {k: v for k, v in bad_path.items() if k != "got"}})
    chk.count("builtins_covered", len([x for x in feats if x.startswith("b:")]))
    chk.count("constant_types_covered", len([x for x in feats if x.startswith("t:")]))
    chk.count("builtins_total", len(names))
    chk.assumptions = [
        "equality is decided on the harness' own JSON rendering of the de Bruijn tree (constants by value)",
        "programs are generated in de Bruijn form and printed after the repository's DeBruijn->Name conversion (what `aiken uplc decode/fmt` print)",
    ]
    chk.finish(
        rule="every builtin (bare and applied), every constant type nesting to depth 3, strings over control/ASCII/Latin-1/BMP/astral code points, data with every constructor-tag range, and seeded random closed programs over all 10 term constructors; distinct = structural hash of the program; non-trivial = all",
        floor={"evaluations": 1000, "builtins_covered": len(names)},
    )


if __name__ == "__main__":
    main()
