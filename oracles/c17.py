#!/usr/bin/env python3
"""C17 — parallel test runs are isolated and schedule-independent.

 1. Structural audit at hook H5 (right before `into_par_iter`): for every Test about to run
    on a worker, walk everything it owns (program, fuzzer/sampler program: Rc<Term>,
    Rc<Name>, Rc<Constant>, Rc<Type>), collecting Rc addresses and strong counts.
    Invariants: (a) no allocation is reachable from two tests; (b) every allocation's
    strong_count equals its in-degree inside that test's own graph (an extra owner means
    the compiler cache, a module AST or another structure still holds it); (c) no
    UnitTest still carries its (Rc-sharing) assertion.
 2. Schedule differential: the FinishedTests event (order, verdicts, budgets, iteration
    counts, labels, counterexamples) under RAYON_NUM_THREADS in {1, 2, 4, 16} and repeated
    runs at 16 must be identical to the single-threaded run.
 3. ThreadSanitizer lane (thorough tier, when the nightly toolchain can build it)."""
import json
import os
import sys

import common
import projgen
from common import Check, Rng, h


def main():
    a = common.parse_args(sys.argv[1:])
    if not a.no_build:
        common.build(["project-run"])
    chk = Check("C17", "exploration", a.tier)
    rng = Rng(chk.seed, 17)
    quick = a.tier != "thorough"
    root = projgen.scratch_root()
    try:
        projects = []
        for n in range(6 if quick else 12):
            files = projgen.generated_project(rng, n, modules=3 + rng.below(4), unit=4 + rng.below(6), prop=2 + rng.below(4))
            projects.append((f"gen{n}", projgen.materialise(files, os.path.join(root, f"gen{n}"))))
        acc = projgen.acceptance_projects()
        if quick:
            # a fixed third of the acceptance projects per seed (all of them in the thorough tier)
            acc = [p for i, p in enumerate(acc) if i % 3 == chk.seed % 3]
        for name, files in acc:
            projects.append((f"acceptance_{name}", projgen.materialise(files, os.path.join(root, f"acc_{name}"))))
        chk.count("projects", len(projects))
        thread_counts = [1, 2, 4, 16]
        reps16 = 4 if quick else 20
        baseline = {}
        for threads in thread_counts + [16] * (reps16 - 1):
            jobs = [{"id": i, "op": "check", "root": path, "audit": True, "seed": 1234 + chk.seed, "max_success": 40 if quick else 100, "tracing": "verbose-all"} for i, (name, path) in enumerate(projects)]
            # one process per project so that every run has its own rayon pool of `threads` workers
            res = common.run_jobs("project-run", jobs, shards=min(len(jobs), max(1, common.NCPU // max(1, min(threads, 4)))), env={"RAYON_NUM_THREADS": str(threads)}, per_job_timeout=600)
            for j in jobs:
                name, path = projects[j["id"]]
                r = res.get(j["id"], {})
                w = {"project": name, "threads": threads}
                if "harness_error" in r:
                    chk.inconc("harness_error:" + str(r["harness_error"])[:40])
                    continue
                if "timeout" in r:
                    chk.inconc("watchdog")
                    continue
                if "died" in r or "panic" in r:
                    chk.violation(f"C17|crash-while-running-tests|{name}", {**w, "observed": {k: v for k, v in r.items() if k != "events"}})
                    continue
                if r.get("threads") not in (None, threads):
                    chk.inconc("rayon-pool-size-not-as-requested")
                events = r.get("events") or []
                tests = events[0]["tests"] if events else []
                # The order of *modules* in the raw event follows a HashMap iteration and differs
                # from process to process whatever the thread count; every consumer of the event
                # (terminal and JSON reporters) groups results by module name first. Results are
                # therefore compared the way users see them: grouped by module (stable), tests of
                # one module in their reported order.
                tests = sorted(tests, key=lambda t: t.get("module", ""))
                chk.count("tests_run", len(tests))
                # ---- audit
                au = r.get("audit")
                if au is None:
                    if tests:
                        chk.inconc("hook-H5-not-reached")
                else:
                    chk.count("audited_tests", au["tests"])
                    chk.count("audited_allocations", au["allocations"])
                    if au["shared_between_tests"]:
                        chk.violation("C17|audit|allocation-reachable-from-two-tests", {**w, "examples": au["shared_between_tests"]})
                    if au["owners_outside_the_test"]:
                        chk.violation("C17|audit|allocation-has-an-owner-outside-its-test", {**w, "examples": au["owners_outside_the_test"]})
                    if au["assertions_left_on_tests"]:
                        chk.violation("C17|audit|assertion-crosses-into-parallel-section", {**w, "count": au["assertions_left_on_tests"]})
                # ---- schedule differential
                digest = json.dumps({"errors": r.get("errors"), "tests": tests}, sort_keys=True)
                if threads == 1 and name not in baseline:
                    baseline[name] = (digest, tests)
                    chk.held(h(["base", name]), sample={"project": name, "tests": len(tests), "first": tests[:2]} if len(chk.samples) < 3 and tests else None)
                    continue
                base = baseline.get(name)
                if base is None:
                    chk.inconc("no-single-thread-baseline")
                    continue
                if digest != base[0]:
                    bt = base[1]
                    diff = None
                    if [(t.get("module"), t.get("name")) for t in bt] != [(t.get("module"), t.get("name")) for t in tests]:
                        diff = "order-or-set-of-tests"
                    else:
                        for x, y in zip(bt, tests):
                            if x != y:
                                fields = [k for k in x if x.get(k) != y.get(k)]
                                diff = "fields:" + "+".join(sorted(fields))
                                w["first_difference"] = {"single_thread": x, "this_run": y}
                                break
                    chk.violation(f"C17|schedule-dependent-result|{diff}", w)
                else:
                    chk.held(h([name, threads, len(chk.distinct)]))
                    chk.count(f"identical_to_single_thread@{threads}")
        if not quick or os.environ.get("C17_TSAN") == "1":
            # sanitizer lane: the same `Project::check` runs under ThreadSanitizer (everything
            # rebuilt instrumented, std included) with 8 workers; the audit is switched off so that
            # only the repository's own parallel section is observed
            import lanes

            tj = [{"id": i, "op": "check", "root": path, "audit": False, "seed": 99 + chk.seed, "max_success": 20, "tracing": "verbose-all"} for i, (name, path) in enumerate(projects)]
            lanes.tsan(chk, "C17", tj if not quick else tj[:6], threads=8)
    finally:
        projgen.cleanup()
    chk.assumptions = [
        "the audit covers what `Test::run` reads, clones or drops on the worker (programs); `type_info` of fuzzers/samplers is recorded but exempt: `run` never touches it on the worker",
        "'no schedule can corrupt a count' is decided as: no shared allocation exists in the observed test sets, and results are identical over the observed thread counts and repetitions",
    ]
    chk.finish(
        rule="generated projects (3-6 test modules, 4-9 unit and 2-5 property tests each, all referring to the same list/pair/nested/ADT constants, the same generic hoisted functions and types) and the dependency-free acceptance projects; each run with 1, 2, 4, 16 rayon workers and repeated at 16; distinct = (project, thread count, repetition)",
        floor={"audited_tests": 50, "audited_allocations": 5000, "tests_run": 200},
    )


if __name__ == "__main__":
    main()
