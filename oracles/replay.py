#!/usr/bin/env python3
"""./check <ID> --replay <witness.json>: show a recorded witness and re-run its input
through the drivers built from the current working tree (so one can see whether the
violation is still there)."""
import json
import sys

import common


def main(path):
    w = json.load(open(path))
    wit = w.get("witness", {})
    print(json.dumps({k: v for k, v in w.items() if k != "witness"}, indent=1))
    print("witness:", json.dumps(wit, indent=1)[:6000])
    common.build(["uplc-run", "aiken-run"])
    if isinstance(wit, dict) and "term" in wit and isinstance(wit["term"], list):
        job = {"id": 0, "op": "eval", "term": wit["term"], "lang": wit.get("lang", "v3"), "pv": wit.get("pv", 11), "events": True}
        if wit.get("budget"):
            job["budget"] = wit["budget"]
        if wit.get("slippage"):
            job["slippage"] = wit["slippage"]
        r = common.run_jobs("uplc-run", [job])
        print("replayed through uplc-run (eval):", json.dumps(r.get(0), indent=1)[:4000])
        for op in ("pretty", "codec"):
            r = common.run_jobs("uplc-run", [{"id": 0, "op": op, "term": wit["term"], "version": wit.get("version", [1, 1, 0])}])
            print(f"replayed through uplc-run ({op}):", json.dumps(r.get(0))[:2000])
    elif isinstance(wit, dict) and "source" in wit and wit.get("entry"):
        args = wit.get("args")
        argsets = [args] if args and not (isinstance(args[0], list)) else (args or [[]])
        kind = "test" if wit.get("origin", "").startswith("harvest") else "fn"
        job = {"id": 0, "op": "compile_eval", "modules": [{"name": "m", "kind": "lib" if kind == "fn" else "validator", "src": wit["source"]}], "tracings": [wit.get("tracing", "verbose-all")], "snapshots": True, "entries": [{"kind": kind, "module": "m", "name": wit["entry"], "args": argsets}]}
        r = common.run_jobs("aiken-run", [job], per_job_timeout=300)
        print("replayed through aiken-run (compile_eval):", json.dumps(r.get(0), indent=1)[:6000])
    elif isinstance(wit, dict) and "input" in wit and isinstance(wit["input"], dict) and "op" in wit["input"]:
        job = dict(wit["input"], id=0)
        binary = "aiken-run" if job["op"] in ("fmt", "json_load", "apply", "schema", "blueprint") else "uplc-run"
        r = common.run_jobs(binary, [job], per_job_timeout=300)
        print(f"replayed through {binary}:", json.dumps(r.get(0), indent=1)[:4000])
    else:
        print("(no generic replay for this witness shape: the input above is complete, re-run the check to re-test it)")


if __name__ == "__main__":
    main(sys.argv[1])
