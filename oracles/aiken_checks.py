"""Shared engine of the compile-and-run checks (C01, C02, C06, C14): typed modules from
the G-aiken generator (oracles/aiken_ref, with its definitional interpreter as oracle) and
the modules harvested from the repository's own test sources are compiled and evaluated by
the real toolchain through the aiken-run driver."""
import multiprocessing
import os
import sys

HERE = os.path.dirname(os.path.abspath(__file__))
sys.path.insert(0, os.path.join(HERE, "aiken_ref"))
sys.path.insert(0, HERE)

import common  # noqa: E402
import harvest  # noqa: E402

ALL_TRACINGS = ["silent-all", "compact-all", "verbose-all", "silent-user", "compact-user", "verbose-user", "silent-compiler", "compact-compiler", "verbose-compiler"]

STRUCTURAL = {
    "TypeMismatch", "ListTypeMismatch", "PairTypeMismatch", "NotAConstant", "NonFunctionalApplication",
    "NonPolymorphicInstantiation", "BuiltinTermArgumentExpected", "UnexpectedBuiltinTermArgument",
    "OpenTermEvaluated", "MissingCaseBranch", "NonConstrScrutinized", "InvalidStepKind", "MachineNeverReachedDone",
}


def _gen_chunk(task):
    """worker: build cases [lo, hi) and return their JSON-able parts only"""
    seed, lo, hi, n_args, opts = task
    import run_c01  # aiken_ref
    import threading

    out = []

    def work():
        for i in range(lo, hi):
            try:
                c = run_c01.build_case(seed, i, n_args, None, opts)
            except Exception as e:  # a generator/interpreter crash must not take the run down
                out.append({"index": i, "gen_error": repr(e)[:200]})
                continue
            out.append({
                "index": i, "modules": c["modules"], "src": c["src"], "features": sorted(c["features"]),
                "entries": [{"name": e["name"], "args": e["args"], "expected": [list(x) for x in e["expected"]]} for e in c["entries"]],
            })

    threading.stack_size(256 * 1024 * 1024)
    t = threading.Thread(target=work)
    t.start()
    t.join()
    return out


def generated_cases(seed, n_modules, n_args, opts=None, first_index=0):
    """G-aiken cases (JSON-able), generated in parallel; deterministic per (seed, index)."""
    chunk = max(5, n_modules // (common.NCPU * 4))
    tasks = [(seed, lo, min(first_index + n_modules, lo + chunk), n_args, opts) for lo in range(first_index, first_index + n_modules, chunk)]
    with multiprocessing.Pool(common.NCPU) as pool:
        parts = pool.map(_gen_chunk, tasks, chunksize=1)
    return [c for p in parts for c in p]


def lazy_outcome(seed, index, n_args, opts, entry_name, k):
    """re-derive a case and evaluate one entry call-by-need (classification only)"""
    import run_c01
    import threading

    res = []

    def work():
        c = run_c01.build_case(seed, index, n_args, None, opts)
        e = [x for x in c["entries"] if x["name"] == entry_name][0]
        res.append(run_c01.classify(c, e, k))

    threading.stack_size(256 * 1024 * 1024)
    t = threading.Thread(target=work)
    t.start()
    t.join()
    return res[0] if res else ("error", "no result")


def jobs_for_generated(cases, tracings, snapshots=False, detailed=False, infer_tracing="same", reuse=True):
    import drv

    jobs = []
    for c in cases:
        if "gen_error" in c:
            continue
        ents = []
        for e in c["entries"]:
            keep = [i for i, x in enumerate(e["expected"]) if x[0] != "fuel"]
            e["sent"] = keep
            ents.append({"name": e["name"], "args": [e["args"][i] for i in keep]})
        t = tracings(c) if callable(tracings) else tracings
        j = drv.make_job(("g", c["index"]), c["modules"], ents, tracings=t, detailed=detailed, snapshots=snapshots)
        j["infer_tracing"] = infer_tracing
        j["reuse_generator"] = reuse
        j["id"] = len(jobs)
        c["job"] = j["id"]
        jobs.append(j)
    return jobs


def jobs_for_harvested(tracings, snapshots=False, detailed=False, limit=None, first_id=0, infer_tracing="same"):
    """one job per harvested module: its unit tests (and validators, compiled only)"""
    mods = harvest.typechecking_modules()
    jobs = []
    meta = {}
    for origin, src, tests, vals in mods[:limit]:
        entries = [{"kind": "test", "module": "m", "name": t} for t in tests]
        entries += [{"kind": "validator", "module": "m", "name": v, "args": []} for v in vals]
        if not entries:
            continue
        t = tracings if not callable(tracings) else tracings({"index": len(jobs)})
        j = {"id": first_id + len(jobs), "op": "compile_eval", "plutus": "v3", "modules": [{"name": "m", "kind": "validator", "src": src}], "tracings": list(t), "detailed": detailed, "snapshots": snapshots, "entries": entries, "infer_tracing": infer_tracing}
        meta[j["id"]] = {"origin": origin, "src": src, "tests": tests, "validators": vals}
        jobs.append(j)
    return jobs, meta


def run(jobs, timeout=300):
    return common.run_jobs("aiken-run", jobs, per_job_timeout=timeout)


def in_big_thread(fn):
    """aiken_ref's interpreter and JSON (de)serialisation of deep trees need a big stack"""
    import threading

    threading.stack_size(512 * 1024 * 1024)
    rc = []

    def body():
        try:
            rc.append(fn())
        except SystemExit as e:  # Check.finish exits: carry the code to the main thread
            rc.append(e.code if isinstance(e.code, int) else (0 if e.code is None else 2))
        except BaseException:
            import traceback

            traceback.print_exc()
            rc.append(2)

    t = threading.Thread(target=body)
    t.start()
    t.join()
    sys.stdout.flush()
    os._exit(rc[0] if rc and isinstance(rc[0], int) else 0)
