"""Adapter: a component exposing run(tier, seed) -> dict(evaluations, distinct, samples,
violations:[(key, witness)], inconclusive:{reason:n}, counters:{..}) is turned into a
registered check (known findings, replay files, evidence, exit codes)."""
import sys

import common
from common import Check


def run_component(prop, level, component_run, rule, floor=None, assumptions=None, bins=("aiken-run",), extra=None, argv=None, demote=None, rekey=None, **finish_kw):
    a = common.parse_args(argv if argv is not None else sys.argv[1:])
    if not a.no_build:
        common.build(list(bins))
    chk = Check(prop, level, a.tier)
    r = component_run(a.tier if a.tier in ("quick", "thorough") else "quick", chk.seed)
    seen = {}
    def canon(key):
        """a combined key `prefix|a+b` (one case showing two independent findings) is known
        iff every component `prefix|a`, `prefix|b` is known; it is then booked on the first."""
        import re

        if rekey:
            key = rekey(key)
        key = re.sub(r"(\.rs):\d+(:\d+)?", r"\1", key)
        if key in chk.known or "+" not in key:
            return key
        prefix, _, last = key.rpartition("|")
        parts = [f"{prefix}|{x}" for x in last.split("+")]
        return parts[0] if all(x in chk.known for x in parts) else key

    counts = {}
    for key, n in r.get("violation_counts", {}).items():
        if demote and demote(canon(key)):
            continue
        counts[canon(key)] = counts.get(canon(key), 0) + n
    for key, witness in r.get("violations", []):
        key = canon(key)
        if demote and demote(key):
            # an observation the oracle cannot confirm in this sandbox: reported, never a verdict
            chk.inconc("unconfirmed:" + key)
            continue
        seen[key] = seen.get(key, 0) + 1
        chk.violation(key, witness)
    # violations beyond the witnesses kept by the component still count for known keys
    for key, n in counts.items():
        extra_n = n - seen.get(key, 0)
        if extra_n > 0 and key in chk.known:
            chk.known_hits[key] = chk.known_hits.get(key, 0) + extra_n
    nviol = sum(counts.values()) if counts else len(r.get("violations", []))
    chk.evaluations = max(chk.evaluations, int(r.get("evaluations", 0)))
    d = r.get("distinct", 0)
    chk.distinct = set(range(d)) if isinstance(d, int) else set(d)
    chk.samples = list(r.get("samples", []))[:8]
    for k, v in r.get("inconclusive", {}).items():
        chk.inconclusive[k] = chk.inconclusive.get(k, 0) + v
    for k, v in r.get("counters", {}).items():
        if isinstance(v, (int, float)):
            chk.counters[k] = v
    chk.counters["violating_cases"] = nviol
    chk.assumptions = assumptions or []
    ec = dict(extra or {})
    if "exhaustive" in r:
        finish_kw.setdefault("exhaustive", bool(r["exhaustive"]))
    for k in ("coverage_extra",):
        if k in r:
            ec.update(r[k])
    chk.finish(rule=rule, floor=floor, extra_coverage=ec or None, **finish_kw)
