"""Shared engine of the evaluator-side checks (C03, C04, C05, C10): generate terms,
evaluate them with the real machine (driver uplc-run) and with the independent
reference evaluator (oracles/uplc_ref), and turn every disagreement into a finding
with an exact signature.

A finding is (property, key, witness). Which property a finding belongs to:
  * value / ok-vs-fail disagreement on a *machine* term (closures, constr/case,
    partial builtins, read-back) -> C03
  * value / ok-vs-fail disagreement on a saturated builtin application          -> C04
  * step / builtin-cost accounting, budgets, slippage                            -> C05
  * panic, dead driver                                                            -> C10 (and the
    family's own property: a builtin that panics also violates C04)
"""
import hashlib
import json
import multiprocessing
import os
import subprocess

import common
from common import Rng
from uplc_ref import builtins as B
from uplc_ref import cek, exmem, variant_for
from uplc_ref import difftest as D
from uplc_ref import term as T

CONFIGS_ALL = [(l, pv) for l in ("v1", "v2", "v3") for pv in (8, 9, 10, 11)]
BIG_BUDGET = D.BIG_BUDGET
MACHINE_BUDGET = [10**12, 10**10]  # [cpu, mem]
INT_EDGES = [-(1 << 63), -(1 << 63) - 1, -(1 << 63) + 1, (1 << 63) - 1, 1 << 63, (1 << 63) + 1, (1 << 64) - 1, 1 << 64, -(1 << 64), -(1 << 64) + 1, (1 << 31) - 1, 1 << 31, -(1 << 31), -(1 << 31) - 1, (1 << 32) - 1, 1 << 32, -(1 << 127), (1 << 127) - 1, 1 << 128]
STEP_CPU, STEP_MEM, START_CPU, START_MEM = D.STEP_CPU, D.STEP_MEM, D.START_CPU, D.START_MEM


def driver_path():
    return common.bin_path("uplc-run")


def run_driver(jobs, env=None):
    """one driver process for a batch (run inside pool workers)"""
    p = subprocess.Popen([driver_path()], stdin=subprocess.PIPE, stdout=subprocess.PIPE, stderr=subprocess.DEVNULL, env=dict(os.environ, **(env or {})))
    data = "".join(json.dumps(j) + "\n" for j in jobs).encode()
    out, _ = p.communicate(data)
    res = {}
    lines = out.splitlines()
    for line in lines:
        try:
            j = json.loads(line)
        except ValueError:
            continue
        res[j.get("id")] = j
    if p.returncode != 0:
        # the driver died: the first job without an answer was in flight
        for j in jobs:
            if j["id"] not in res:
                res[j["id"]] = {"died": p.returncode}
                break
    return res


# ------------------------------------------------------------------ argument classes (for exact keys)
def _ints_in(t, out):
    tag = t[0]
    if tag == "con":
        if t[1] == "integer":
            out.append(int(t[2]))
        return
    if tag in ("lam", "delay", "force"):
        _ints_in(t[1], out)
    elif tag == "app":
        _ints_in(t[1], out)
        _ints_in(t[2], out)
    elif tag == "constr":
        for x in t[2]:
            _ints_in(x, out)
    elif tag == "case":
        _ints_in(t[1], out)
        for x in t[2]:
            _ints_in(x, out)


def int_class(term):
    xs = []
    _ints_in(term, xs)
    m = max([abs(x) if x >= 0 else abs(x + 1) for x in xs] or [0])
    if m < 2**63:
        return "ints<2^63"
    if m < 2**64:
        return "ints<2^64"
    if m < 2**127:
        return "ints<2^127"
    return "ints>=2^127"


def has_bignum_encoded_data(term):
    return '"enc": "big"' in json.dumps(term)


def ed25519_edge_class(term):
    """for a saturated verifyEd25519Signature on constants: which libsodium-only acceptance rule
    the arguments touch ("" if none): exact attribution for the known-finding key"""
    args = []
    t = term
    while t[0] == "app":
        args.append(t[2])
        t = t[1]
    if t != ["builtin", "verifyEd25519Signature"] or len(args) != 3:
        return ""
    pk, _msg, sig = [a[2] if a[0] == "con" and a[1] == "bytestring" else None for a in reversed(args)]
    if pk is None or sig is None or len(pk) != 64 or len(sig) != 128:
        return ""
    pkb, sigb = bytes.fromhex(pk), bytes.fromhex(sig)
    tags = []
    if (int.from_bytes(pkb, "little") & ((1 << 255) - 1)) >= B._P25519:
        tags.append("non-canonical-key")
    if B._ed_small_order(pkb):
        tags.append("small-order-key")
    if B._ed_small_order(sigb[:32]):
        tags.append("small-order-R")
    return "|" + "+".join(tags) if tags else ""


def head_builtin(term):
    """the builtin at the head of an application spine (through forces), if any"""
    t = term
    while True:
        if t[0] in ("app", "force"):
            t = t[1]
        elif t[0] == "builtin":
            return t[1]
        else:
            break
    # not a plain spine (result captured in a closure, ...): the only builtin mentioned, if unique
    names = set()
    stack = [term]
    while stack:
        x = stack.pop()
        tag = x[0]
        if tag == "builtin":
            names.add(x[1])
        elif tag in ("lam", "delay", "force"):
            stack.append(x[1])
        elif tag == "app":
            stack += [x[1], x[2]]
        elif tag == "constr":
            stack += x[2]
        elif tag == "case":
            stack += [x[1]] + x[2]
    return names.pop() if len(names) == 1 else None


# ------------------------------------------------------------------ classification
def classify(term, lang, pv, rust, family):
    """-> list of (property, key, detail) ; empty when both sides agree"""
    variant = variant_for(lang, pv)
    mine = cek.evaluate_verdict(term, variant=variant, fuel=300_000, calls_as_json=False, keep_value=True)
    cfg = f"{lang}:{pv}"
    hb = head_builtin(term) or "machine"
    base = "C04" if family == "builtin" else "C03"
    out = []
    if rust is None or "harness_error" in rust:
        return [("inconclusive", "harness_error", str(rust)[:100])]
    if "died" in rust or "timeout" in rust:
        return [("C10", f"C10|eval|driver-died|{hb}", f"{cfg} driver died/hung: {rust}")]
    if "panic" in rust:
        loc = rust["panic"].split(" @ ")[-1]
        if "src/bin/uplc-run.rs" in loc or "/verif/harness" in loc:
            return [("inconclusive", "driver-panic", rust["panic"][:120])]
        key_tail = f"{hb}|panic|{loc}"
        out.append(("C10", f"C10|eval|{key_tail}", rust["panic"][:200]))
        out.append((base, f"{base}|{key_tail}", rust["panic"][:200]))
        return out
    if "cost_api_panic" in rust:
        # `EvalResult::cost()` (initial - remaining) overflows: reported before any value comparison
        out.append(("C10", f"C10|eval|{hb}|reported-cost-overflows", f"{cfg} {rust['cost_api_panic'][:160]} remaining={rust.get('remaining')}"))
    if "inconclusive" in mine:
        return out + [("inconclusive", "oracle:" + str(mine.get("kind")), "")]
    if "ok" in rust:
        if "fail" in mine:
            return [(base, f"{base}|{hb}|rust-ok/oracle-fail|{int_class(term)}", f"{cfg} rust={json.dumps(rust['ok'])[:200]} oracle fail: {mine['fail'][:100]}")]
        if not T.term_json_equal(rust["ok"], mine["ok"]):
            if T.term_json_equal(rust["ok"], cek.discharge(mine["value"], _stop_at_constr_case=True)):
                return [("C03", "C03|readback|no-substitution-under-constr/case", f"{cfg} rust={json.dumps(rust['ok'])[:200]} oracle={json.dumps(mine['ok'])[:200]}")]
            extra = "|bignum-encoded-data" if has_bignum_encoded_data(term) else ""
            extra += ed25519_edge_class(term)
            return [(base, f"{base}|{hb}|value-differs|{int_class(term)}{extra}", f"{cfg} rust={json.dumps(rust['ok'])[:300]} oracle={json.dumps(mine['ok'])[:300]}")]
        # ---- C05 accounting identity: cost = startup + steps x unit + sum(charged builtin costs)
        if "builtins" in rust and "cost" in rust:
            bc = sum(e["c"][0] for e in rust["builtins"])
            bm = sum(e["c"][1] for e in rust["builtins"])
            n = sum(mine["steps"].values())
            if rust["cost"][0] - bc - START_CPU != STEP_CPU * n or rust["cost"][1] - bm - START_MEM != STEP_MEM * n:
                out.append(("C05", "C05|accounting|cost!=startup+steps*unit+builtins", f"{cfg} oracle steps={n} rust cost={rust['cost']} builtin cost=({bc},{bm})"))
            rc = [e["f"] for e in rust["builtins"]]
            mc = [B.lookup(c[0]).hname for c in mine["calls"]]
            if rc != mc:
                out.append(("C05", "C05|accounting|charged-builtin-calls-differ", f"{cfg} rust={rc} oracle={mc}"))
            # per-kind totals of the machine's own counters (debug machine)
            if "spend" in rust:
                sp = rust["spend"]
                kinds = cek.STEP_KINDS
                # machine order of step kinds: constant, var, lambda, apply, delay, force, builtin, constr, case
                order = ["const", "var", "lam", "apply", "delay", "force", "builtin", "constr", "case"]
                for i, k in enumerate(order):
                    cnt = mine["steps"].get(k)
                    if cnt is None:
                        continue
                    if sp[2 * i] != cnt * STEP_MEM or sp[2 * i + 1] != cnt * STEP_CPU:
                        out.append(("C05", f"C05|accounting|step-kind-{k}-charged-wrongly", f"{cfg} kind={k} oracle count={cnt} machine counter=({sp[2*i]},{sp[2*i+1]})"))
                        break
        mylogs = [l[1:] if l.startswith("\0") else l for l in mine.get("logs", [])]
        if rust.get("logs") is not None and list(rust["logs"]) != mylogs:
            out.append(("C03", f"C03|{hb}|trace-log-differs", f"{cfg} rust={rust['logs']} oracle={mine.get('logs')}"))
        return out
    if "err" in rust:
        if rust["err"] == "OutOfExError":
            return out + [("nobudget", "", "")]
        if "ok" in mine:
            return [(base, f"{base}|{hb}|rust-fail/oracle-ok|{rust['err']}", f"{cfg} rust err={rust['err']} oracle={json.dumps(mine['ok'])[:200]}")]
        return []
    return [("inconclusive", "driver-error", str(rust)[:100])]


# ------------------------------------------------------------------ exhaustive small closed terms
EXH_CONSTS = [["con", "integer", "0"], ["con", "unit", None], ["con", "bool", True], ["con", ["list", "integer"], ["1"]]]


def enum_terms(n, depth, palette):
    """all terms with exactly n nodes, closed under `depth` binders, over the reduced alphabet"""
    if n == 1:
        for i in range(1, depth + 1):
            yield ["var", i]
        for c in EXH_CONSTS:
            yield c
        for b in palette:
            yield ["builtin", b]
        yield ["error"]
        yield ["constr", 0, []]
        yield ["constr", 1, []]
        return
    for b in enum_terms(n - 1, depth + 1, palette):
        yield ["lam", b]
    for b in enum_terms(n - 1, depth, palette):
        yield ["delay", b]
        yield ["force", b]
        yield ["constr", 0, [b]]
        yield ["case", b, []]
    for k in range(1, n - 1):
        for f in enum_terms(k, depth, palette):
            for x in enum_terms(n - 1 - k, depth, palette):
                yield ["app", f, x]
                yield ["case", f, [x]]
                yield ["constr", 1, [f, x]]
    # case with two branches
    for k in range(1, n - 2):
        for s in enum_terms(k, depth, palette):
            for j in range(1, n - 1 - k):
                for b0 in enum_terms(j, depth, palette):
                    for b1 in enum_terms(n - 1 - k - j, depth, palette):
                        yield ["case", s, [b0, b1]]


PALETTES = [["addInteger", "ifThenElse"], ["headList", "chooseList"], ["trace", "fstPair"], ["mkCons", "nullList"], ["chooseUnit", "equalsInteger"], ["tailList", "iData"]]


# ------------------------------------------------------------------ pool workers
def _work(task):
    kind, name, n, seed, configs, extra = task
    r = Rng(seed, int.from_bytes(hashlib.sha256((kind + name).encode()).digest()[:4], "big"))
    family = "builtin" if kind == "builtin" else "machine"
    if kind == "machine":
        terms = [D.gen_machine_case(r) for _ in range(n)]
    elif kind == "builtin":
        b = B.lookup(name)
        slow = D.SLOW.get(b.name, 8 if b.name.startswith("bls12_381") else 1)
        n = max(20, n // slow)
        terms = [D.gen_builtin_case(r, b) for _ in range(n)]
    elif kind == "builtin-edges":
        # every Integer argument position x every machine-word edge, the other arguments as generated:
        # literal-costed counts / widths / indices are converted to i64 / u64 / usize by hand in the
        # costing and in the implementation, and the edges (i64::MIN, u64::MAX + 1 ...) are where that breaks
        b = B.lookup(name)
        family = "builtin"
        terms = []
        for pos, t in enumerate(b.argtypes):
            if t != "integer":
                continue
            for edge in INT_EDGES:
                for _ in range(max(1, n)):
                    args = D.gen_args(r, b)
                    args[pos] = ["con", "integer", str(edge)]
                    terms.append(D.apply_builtin(b, args))
    elif kind == "exhaustive":
        terms = extra
    elif kind == "corpus":
        terms = extra
    else:
        raise ValueError(kind)
    jobs = []
    for i, t in enumerate(terms):
        lang, pv = configs[(i + (seed % 7)) % len(configs)]
        # machine-family terms may diverge (the reference runs out of fuel after 300 000 steps: inconclusive);
        # the real machine gets a finite budget worth ~6e7 steps so that it stops too (OutOfEx: no verdict)
        jobs.append({"id": i, "op": "eval", "term": t, "version": [1, 1, 0], "lang": lang, "pv": pv, "budget": BIG_BUDGET if kind == "builtin" else MACHINE_BUDGET, "events": True, "debug": True})
    rust = run_driver(list(reversed(jobs)) if extra == "reverse" else jobs)
    outcomes = [common.h({k: v for k, v in (rust.get(j["id"]) or {}).items() if k in ("ok", "err", "cost", "logs", "panic")}) for j in jobs]
    if extra == "reverse":
        # determinism probe only: no oracle work
        return {"kind": kind, "name": name, "n": len(jobs), "agree": 0, "nobudget": 0, "findings": [], "feats": {}, "samples": [], "hashes": [], "outcomes": outcomes, "terms": None}
    findings = []
    agree = 0
    nobudget = 0
    feats = {}
    samples = []
    for j in jobs:
        try:
            cs = classify(j["term"], j["lang"], j["pv"], rust.get(j["id"]), family)
        except Exception as e:  # the oracle must never crash the run
            cs = [("inconclusive", "oracle-crash:" + type(e).__name__, str(e)[:100])]
        real = [c for c in cs if c[0] not in ("nobudget",)]
        if any(c[0] == "nobudget" for c in cs):
            nobudget += 1
        if not real:
            agree += 1
            if len(samples) < 1 and j["id"] % 37 == 5:
                samples.append({"term": j["term"], "config": f"{j['lang']}:{j['pv']}", "machine": {k: v for k, v in (rust.get(j["id"]) or {}).items() if k in ("ok", "err", "cost")}})
        for c in real:
            findings.append((c[0], c[1], {"term": j["term"], "lang": j["lang"], "pv": j["pv"], "detail": c[2], "family": kind, "builtin": name}))
        feats[f"cfg:{j['lang']}:{j['pv']}"] = feats.get(f"cfg:{j['lang']}:{j['pv']}", 0) + 1
        rr = rust.get(j["id"]) or {}
        for e in rr.get("builtins", []) or []:
            feats["b:" + e["f"]] = feats.get("b:" + e["f"], 0) + 1
        if "err" in rr:
            feats["err:" + rr["err"]] = feats.get("err:" + rr["err"], 0) + 1
    hashes = [common.h([j["term"], j["lang"], j["pv"]]) for j in jobs]
    return {"kind": kind, "name": name, "n": len(jobs), "agree": agree, "nobudget": nobudget, "findings": findings, "feats": feats, "samples": samples, "hashes": hashes, "outcomes": outcomes}


def run_tasks(tasks, procs=None):
    with multiprocessing.Pool(procs or common.NCPU) as pool:
        return pool.map(_work, tasks, chunksize=1)


def builtin_names():
    return [b.name for b in B.BUILTINS.values()]


def exhaustive_tasks(max_nodes, seed, configs):
    tasks = []
    for pi, pal in enumerate(PALETTES):
        terms = []
        for n in range(1, max_nodes + 1):
            # the full palette only for small sizes, then just the first builtin of the palette
            p = pal if n <= max_nodes - 1 else pal[:1]
            terms.extend(enum_terms(n, 0, p))
        # split into chunks for the pool
        CH = 6000
        for i in range(0, len(terms), CH):
            tasks.append(("exhaustive", f"palette{pi}-{i // CH}", 0, seed, configs, terms[i:i + CH]))
    return tasks


def conformance_terms(version="v3", limit=None):
    """the upstream conformance programs as JSON trees (own parser), with expectations"""
    import harvest

    out = []
    for f in harvest.conformance_files(version)[:limit]:
        try:
            src = open(f).read()
            prog = T.parse_program(src)
        except Exception:
            continue
        exp = None
        try:
            exp = open(f + ".expected").read()
        except OSError:
            pass
        bud = None
        try:
            bud = open(f + ".budget.expected").read()
        except OSError:
            pass
        out.append((f, prog, exp, bud))
    return out


def collect(results, chk, props, sample_every=1):
    """book results of run_tasks into a Check for the properties in `props`"""
    totals = {"cases": 0, "agree": 0, "nobudget": 0}
    for r in results:
        totals["cases"] += r["n"]
        totals["agree"] += r["agree"]
        totals["nobudget"] += r["nobudget"]
        for k, v in r["feats"].items():
            chk.counters[k] = chk.counters.get(k, 0) + v
        for hsh in r["hashes"]:
            chk.distinct.add(hsh)
        chk.evaluations += r["agree"]
        for s in r["samples"]:
            if len(chk.samples) < 8:
                chk.samples.append(s)
        for prop, key, witness in r["findings"]:
            if prop == "inconclusive":
                chk.inconc(key)
            elif prop in props:
                chk.violation(key, witness)
            else:
                chk.count("findings_of_other_properties:" + prop)
    return totals
