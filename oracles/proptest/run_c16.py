#!/usr/bin/env python3
"""C16 monitor: a property test's verdict, iteration count, labels and counterexample are a
function of the seed and the code alone; counterexamples falsify, replay and never grow; the
`fail` / `fail once` expectations invert the verdict as documented.

run(tier, seed) -> dict(evaluations, distinct, samples, violations, violation_counts,
inconclusive, counters). CLI: run_c16.py --tier quick|thorough --seed S
"""
import argparse
import json
import os
import sys
import time
from collections import Counter

HERE = os.path.dirname(os.path.abspath(__file__))
sys.path.insert(0, os.path.dirname(HERE))
sys.path.insert(0, HERE)
import common  # noqa: E402
import gen  # noqa: E402
import model  # noqa: E402

DRIVER = "prop-run"

TIERS = {
    # repeat: in-process repetitions (+1 rebuilt from scratch); threads: parallel std threads;
    # dup_every: every k-th job is also sent to another driver process
    # det_seeds: repetitions / threads only on the runs of the first d seeds of a job
    "quick": dict(repeat=2, threads=2, det_seeds=5, dup_every=4, timeout=180.0),
    "thorough": dict(repeat=3, threads=3, det_seeds=8, dup_every=3, timeout=900.0),
}


class Tally:
    def __init__(self):
        self.evaluations = 0
        self.distinct = set()
        self.samples = []
        self.violations = []
        self.violation_counts = Counter()
        self.inconclusive = Counter()
        self.counters = Counter()
        self.maxima = {}
        self.timeouts = []

    def top(self, name, v):
        if v > self.maxima.get(name, -1):
            self.maxima[name] = v

    def violate(self, key, witness):
        self.violation_counts[key] += 1
        if self.violation_counts[key] <= 3:
            self.violations.append((key, witness))


def make_jobs(tier, seed):
    cfg = TIERS[tier]
    fuzz = gen.fuzz_src()
    seeds = gen.seeds(tier, seed)
    ns = gen.max_successes(tier)
    jobs, meta = [], {}
    k = 0
    for fz, spec in gen.properties(tier, seed):
        # expensive fuzzers: several smaller jobs (the time-out is per job)
        slow = "slow" in gen.FUZZERS[fz][3]
        chunks = [seeds[i : i + 6] for i in range(0, len(seeds), 6)] if slow else [seeds]
        for exp in gen.EXPECTATIONS:
            src = gen.source(fz, spec, exp)
            for chunk in chunks:
                jid = f"p{k}"
                job = {
                    "id": jid,
                    "modules": [{"name": "fuzz", "kind": "lib", "src": fuzz}, {"name": "m", "kind": "lib", "src": src}],
                    "test": {"module": "m", "name": "prop"},
                    "seeds": chunk,
                    "max_successes": ns,
                    "repeat": cfg["repeat"],
                    "threads": cfg["threads"],
                    "det_seeds": max(2, cfg["det_seeds"] // len(chunks)),
                    # C16 is stated for the default language version; C16_PLUTUS=v2 reproduces NOTES.md observation O1
                    "plutus": os.environ.get("C16_PLUTUS", "v3"),
                }
                jobs.append(job)
                meta[jid] = dict(fuzzer=fz, spec=spec, expectation=exp, src=src, mode=model.MODES[exp])
                k += 1
    # cross-process determinism: a copy of some jobs, run without in-process repetitions
    dups = []
    for i, j in enumerate(jobs):
        if i % cfg["dup_every"] == 0:
            d = dict(j, id=j["id"] + "#dup", repeat=1, threads=0)
            dups.append(d)
            meta[d["id"]] = dict(meta[j["id"]], dup_of=j["id"])
    # rotate so that a copy rarely lands in the same shard (= process) as its original
    half = len(dups) // 2
    return jobs + dups[half:] + dups[:half], meta


def witness(m, run=None, **kw):
    w = {"module_source": m["src"], "test": "m.prop", "fuzzer": m["fuzzer"], "property": m["spec"], "expectation": m["expectation"] or "(none)", "mode": m["mode"]}
    if run is not None:
        w["seed"] = run.get("seed")
        w["max_success"] = run.get("max_success")
    w.update(kw)
    return w


def trim(o, n=1500):
    s = json.dumps(o, default=str)
    return o if len(s) <= n else s[:n] + "..."


def check_loop(T, m, seed, loop):
    """(b) the independent sample -> eval loop of one seed: per-iteration outcomes 'P'/'F'/'E',
    and the checks that concern single iterations. -> (outcomes, usable)"""
    spec, ty = m["spec"], gen.FUZZERS[m["fuzzer"]][1]

    def V(key, **kw):
        T.violate(key, witness(m, {"seed": seed, "max_success": len(loop)}, **kw))

    outcomes, usable = [], True
    for it in loop:
        if "stop" in it:
            if it["stop"] == "fuzzer-error":
                outcomes.append("E")
                T.counters["fuzzer_errors"] += 1
            elif it["stop"] == "none":
                # a Seeded PRNG answered None: the fuzzer is ill-formed by the framework's own
                # definition (it panics on purpose); not a subject of C16
                T.inconclusive["workload-fuzzer-returns-none-when-seeded"] += 1
                usable = False
            else:
                V("C16|crash|sample", panic=it.get("panic"))
                usable = False
            break
        if "eval_panic" in it:
            V("C16|crash|eval", panic=it["eval_panic"], value=it["value"])
            usable = False
            break
        outcomes.append("F" if it["failed"] else "P")
        T.counters["iterations_sampled"] += 1
        # every sampled value is regenerated by its own recorded choices
        if "replay_eq" in it:
            T.counters["replays"] += 1
            if it["replay_eq"] is not True:
                V("C16|sample-not-regenerated-by-its-choices", choices=it["choices"], value=it["value"], replay=it["replay_eq"])
        if not it.get("seeded", True):
            V("C16|seeded-prng-became-replayed", choices=it["choices"])
        # ground truth of the generated property (keeps "failed" honest)
        v = model.decode(ty, it["value"])
        h = model.holds(spec, v)
        if h is not None and h == it["failed"]:
            V("C16|eval-differs-from-python-predicate", value=it["value"], eval_failed=it["failed"], python_holds=h)
        ls = model.labels(spec, v)
        if ls is not None and ls != it["labels"]:
            V("C16|eval-labels-differ-from-python-predicate", value=it["value"], eval_labels=it["labels"], python_labels=ls)
    return outcomes, usable


def judge_run(T, m, run):
    """all checks on one (property, expectation, seed, max_success) run"""
    mode, n = m["mode"], run["max_success"]
    spec, ty = m["spec"], gen.FUZZERS[m["fuzzer"]][1]
    out, loop = run["outcome"], run["loop"]
    rn = out["run_n_times"]
    T.evaluations += 1
    T.counters["runs"] += 1
    simp = run.get("simplify") or {}
    if simp.get("events"):
        # simplification terminated, after this many steps (the framework's own count, read off its stderr)
        T.counters["simplifications_observed"] += simp["events"]
        T.counters["simplify_steps_total"] += simp["steps"]
        T.top("simplify_steps_max", simp["steps"])
    T.top("run_ms_max", run.get("ms", 0))
    T.distinct.add(common.h([m["fuzzer"], spec, mode, run["seed"], n]))
    bad = False

    def V(key, **kw):
        nonlocal bad
        bad = True
        T.violate(key, witness(m, run, **kw))

    # ---- determinism (same process: repeated, rebuilt, parallel threads)
    for o in run["others"]:
        T.counters["determinism_comparisons"] += 1
        if not o["same"]:
            place = o["where"].split("#")[0]
            V(f"C16|nondeterministic|{place}", first=trim(out[o["part"]]), other=trim(o["outcome"]), where=o["where"], part=o["part"])

    # ---- crashes
    r = out["run"]
    if "panic" in r:
        V("C16|crash|run", panic=r["panic"])
    if "panic" in rn:
        V("C16|crash|run_n_times", panic=rn["panic"])
    chk = rn.get("check")
    if chk:
        if "panic" in chk["reeval"]:
            V("C16|crash|reeval", panic=chk["reeval"]["panic"])
        if chk["replay"]["kind"] == "panic":
            V("C16|crash|replay", panic=chk["replay"]["panic"])

    # ---- the independent loop -> per-iteration outcomes (judged once per seed: check_loop)
    outcomes, usable = run["loop_outcomes"]
    if "E" in outcomes[:n]:
        T.counters["fuzzer_error_runs"] += 1
    if not usable or "panic" in r or "panic" in rn:
        return bad
    if len(outcomes) < n and (not outcomes or outcomes[-1] != "E"):
        T.inconclusive["loop-shorter-than-max-success"] += 1
        return bad

    # ---- the model of the three expectations
    exp = model.expected(mode, outcomes, n)
    if r["success"] != exp["success"]:
        V(f"C16|verdict-differs-from-model|{mode}", observed=r["success"], expected=exp["success"], outcomes="".join(outcomes[: exp["iterations"] + 2]))
    if r["iterations"] != exp["iterations"]:
        V(f"C16|iterations-differ|{mode}", observed=r["iterations"], expected=exp["iterations"], outcomes="".join(outcomes[: max(exp["iterations"], r["iterations"]) + 2]))
    kind = r["counterexample"]["kind"]
    want_kind = "err" if exp["err"] else ("some" if exp["kept"] is not None else "none")
    if kind != want_kind:
        V(f"C16|counterexample-presence-differs|{mode}", observed=kind, expected=want_kind)
    want_labels = model.expected_labels(loop, exp)
    if want_labels:
        T.counters["label_runs"] += 1
    if r["labels"] != want_labels:
        V("C16|labels-differ", observed=r["labels"], expected=want_labels, iterations=exp["iterations"])

    # ---- PropertyTest::run and run_n_times tell the same story
    cxn = rn["counterexample"]
    its_n = n - rn["remaining"] + (1 if cxn["kind"] == "err" else 0)
    if cxn["kind"] != kind or its_n != r["iterations"] or rn["labels"] != r["labels"] or (kind == "some" and cxn["value"] != r["counterexample"]["value"]):
        V("C16|nondeterministic|run-vs-run_n_times", run=trim(r), run_n_times=trim(rn))

    # ---- the reported counterexample
    if kind == "some" and cxn["kind"] == "some" and chk and exp["kept"] is not None:
        T.counters["counterexamples_checked"] += 1
        must_fail = model.counterexample_must_fail(mode)
        cxv = model.decode(ty, cxn["value"])
        py = model.holds(spec, cxv)
        if chk["reeval"].get("failed") != must_fail or (py is not None and py == must_fail):
            V("C16|counterexample-does-not-falsify", counterexample=cxn["value"], choices=cxn["choices"], reeval_failed=chk["reeval"].get("failed"), python_holds=py, must_fail=must_fail)
        rp = chk["replay"]
        if rp["kind"] != "some" or rp["value"] != cxn["value"] or rp.get("eq") is not True:
            V("C16|counterexample-not-regenerated-by-its-choices", counterexample=cxn["value"], choices=cxn["choices"], replay=trim(rp))
        c0 = loop[exp["kept"]]["choices"]
        if not model.shortlex_le(cxn["choices"], c0):
            V("C16|counterexample-larger-than-first-failure", choices=cxn["choices"], first_failure_choices=c0, counterexample=cxn["value"], first_failure=loop[exp["kept"]]["value"])
        elif cxn["choices"] != c0:
            T.counters["shrunk_strictly_smaller"] += 1
        else:
            T.counters["shrunk_not_at_all"] += 1
            if cxn["value"] != loop[exp["kept"]]["value"]:
                V("C16|counterexample-not-regenerated-by-its-choices", counterexample=cxn["value"], choices=cxn["choices"], first_failure=loop[exp["kept"]]["value"], note="same choices as the first failing case, different value")
    T.counters["verdict_pass" if r["success"] else "verdict_fail"] += 1
    return bad


def judge_job(T, m, res, index):
    if res.get("timeout"):
        # simplification (or anything else) did not finish in the generous per-job budget
        T.inconclusive["timeout"] += 1
        T.evaluations += 1
        T.timeouts.append({"fuzzer": m["fuzzer"], "property": m["spec"], "expectation": m["expectation"], "seeds": res.get("seeds"), "cross_process_copy": "dup_of" in m})
        return
    if "died" in res:
        T.evaluations += 1
        T.violate("C16|crash|died", witness(m, signal=res["died"]))
        return
    if "rejected" in res or "harness_error" in res:
        T.evaluations += 1
        T.inconclusive["workload-rejected:" + str(res.get("rejected") or "harness")] += 1
        if len(T.samples) < 8:
            T.samples.append({"rejected": trim(res, 600), "src": m["src"]})
        return
    if "panic" in res:
        T.evaluations += 1
        T.violate("C16|crash|" + str(res.get("where", "job")), witness(m, panic=res["panic"]))
        return
    if res["mode"] != m["mode"]:
        T.violate("C16|expectation-keyword-maps-to-wrong-mode", witness(m, observed=res["mode"]))
    if "dup_of" in m:
        # second process: only the outcomes are compared with the original's, run by run
        orig = index.get(m["dup_of"], {"runs": {}, "loops": {}})
        for b in res.get("runs", []):
            a = orig["runs"].get((b["seed"], b["max_success"]))
            if a is None:
                continue
            T.counters["determinism_comparisons"] += 1
            T.counters["cross_process_comparisons"] += 1
            if a["outcome"] != b["outcome"]:
                T.violate("C16|nondeterministic|process", witness(m, a, first=trim(a["outcome"]), other=trim(b["outcome"])))
        for k, lp in res.get("loops", {}).items():
            if k in orig["loops"] and orig["loops"][k] != lp:
                T.violate("C16|nondeterministic|process", witness(m, {"seed": int(k)}, what="the independent sample/eval loops differ between two processes"))
        return
    T.counters["property_expectation_pairs"] += 1
    judged = {k: check_loop(T, m, int(k), lp) for k, lp in res["loops"].items()}
    for run in res["runs"]:
        # the loop of the longest run of a seed; a shorter run sees its prefix
        n = run["max_success"]
        run["loop"] = res["loops"][str(run["seed"])][:n]
        outcomes, usable = judged[str(run["seed"])]
        run["loop_outcomes"] = (outcomes[:n], usable or len(outcomes) >= n)
        bad = judge_run(T, m, run)
        cx = run["outcome"]["run_n_times"].get("counterexample", {})
        if not bad and len(T.samples) < 8 and cx.get("kind") == "some" and run["max_success"] >= 10 and len(run["loop"][0].get("choices", [])) > 2 and len(T.samples) <= T.counters["property_expectation_pairs"] // 8:
            T.samples.append({"fuzzer": m["fuzzer"], "property": m["spec"], "expectation": m["expectation"], "seed": run["seed"], "max_success": run["max_success"], "run": trim(run["outcome"]["run"], 500), "counterexample_choices": cx.get("choices")})


def run(tier="quick", seed=0, only=None):
    t0 = time.time()
    tier = tier if tier in TIERS else "quick"
    jobs, meta = make_jobs(tier, seed)
    if only:
        jobs = [j for j in jobs if meta[j["id"]]["fuzzer"] in only]
    T = Tally()
    timeout = float(os.environ.get("C16_TIMEOUT", TIERS[tier]["timeout"]))
    results = common.run_jobs(DRIVER, jobs, shards=min(common.NCPU, max(1, len(jobs))), per_job_timeout=timeout)
    # a job that produced nothing within the time-out is run again, one seed per job and without the
    # parallel threads: a loaded machine or one expensive seed must not hide the other seeds, and a
    # genuine non-termination is pinned to its seed. Only what times out again stays inconclusive.
    parts = {j["id"]: [j["id"]] for j in jobs}
    retry = []
    for j in jobs:
        if results.get(j["id"], {}).get("timeout") and len(j["seeds"]) > 1:
            parts[j["id"]] = []
            for sd in j["seeds"]:
                rid = f"{j['id']}~{sd}"
                retry.append(dict(j, id=rid, seeds=[sd], det_seeds=1, threads=min(1, j["threads"])))
                meta[rid] = meta[j["id"]]
                parts[j["id"]].append(rid)
    if retry:
        T.counters["jobs_retried_per_seed_after_timeout"] = len(retry)
        results.update(common.run_jobs(DRIVER, retry, shards=min(common.NCPU, len(retry)), per_job_timeout=timeout))
    for j in jobs + retry:
        r = results.get(j["id"])
        if isinstance(r, dict) and r.get("timeout"):
            r["seeds"] = j["seeds"]
    # originals indexed by run, for the cross-process copies
    index = {}
    for j in jobs:
        if "dup_of" in meta[j["id"]]:
            continue
        ix = index.setdefault(j["id"], {"runs": {}, "loops": {}})
        for pid in parts[j["id"]]:
            r = results.get(pid, {})
            for run_ in r.get("runs", []):
                ix["runs"][(run_["seed"], run_["max_success"])] = run_
            ix["loops"].update(r.get("loops", {}))
    for j in jobs:
        for pid in parts[j["id"]]:
            judge_job(T, meta[j["id"]], results.get(pid, {"harness_error": "no result"}), index)
    props = {(m["fuzzer"], json.dumps(m["spec"], sort_keys=True)) for m in meta.values()}
    T.counters["properties"] = len(props)
    T.counters["fuzzers"] = len({m["fuzzer"] for m in meta.values()})
    T.counters["seeds"] = len(gen.seeds(tier, seed))
    T.counters["modes"] = len({m["mode"] for m in meta.values()})
    T.counters["max_success_values"] = len(gen.max_successes(tier))
    T.counters["jobs"] = len(jobs)
    T.counters.update(T.maxima)
    return {
        "evaluations": T.evaluations,
        "distinct": len(T.distinct),
        "samples": T.samples,
        "violations": T.violations,
        "violation_counts": dict(T.violation_counts),
        "inconclusive": dict(T.inconclusive),
        "counters": dict(T.counters),
        "timeouts": T.timeouts[:50],
        "wall_s": round(time.time() - t0, 1),
    }


def main(argv=None):
    ap = argparse.ArgumentParser()
    ap.add_argument("--tier", default="quick", choices=list(TIERS))
    ap.add_argument("--seed", type=int, default=0)
    ap.add_argument("--only", default=None, help="comma-separated fuzzer names")
    ap.add_argument("--no-build", action="store_true")
    ap.add_argument("--json", action="store_true", help="print the whole result dict")
    a = ap.parse_args(argv)
    if not a.no_build:
        common.build([DRIVER])
    r = run(a.tier, a.seed, only=set(a.only.split(",")) if a.only else None)
    if a.json:
        print(json.dumps(r, indent=1, default=str))
    else:
        print(json.dumps({k: r[k] for k in ("evaluations", "distinct", "violation_counts", "inconclusive", "counters", "wall_s")}, indent=1))
    for key, w in r["violations"]:
        print(f"VIOLATION property=C16 [{key}] {json.dumps(w, default=str)[:1200]}")
    if r["violations"]:
        return 1
    if r["inconclusive"]:
        print("INCONCLUSIVE", r["inconclusive"], json.dumps(r.get("timeouts", [])[:10]))
        return 2
    print(f"OK property=C16 tier={a.tier} seed={a.seed} evaluations={r['evaluations']} wall={r['wall_s']}s")
    return 0


if __name__ == "__main__":
    sys.exit(main())
