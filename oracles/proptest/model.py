"""C16 reference model: what a property test must report, given what each iteration does.

Syntax -> mode -> meaning (parser/definition/test_like.rs, CHANGELOG "fail once"):
    test p(x via f) { .. }            FailImmediately     passes iff no iteration fails
    test p(x via f) fail { .. }       SucceedEventually   passes iff EVERY iteration fails
    test p(x via f) fail once { .. }  SucceedImmediately  passes iff SOME iteration fails
The value a run reports as "counterexample" is the first iteration that decides the
verdict early: the first failing one (plain, `fail once`), the first PASSING one (`fail`).
"""
from collections import Counter

MODES = {"": "FailImmediately", "fail": "SucceedEventually", "fail once": "SucceedImmediately"}


def expected(mode, outcomes, n):
    """outcomes[i] in 'P' (property holds), 'F' (fails), 'E' (the fuzzer itself crashed).
    -> dict(success, iterations, kept = index of the reported iteration | None, err)"""
    stop_on = "P" if mode == "SucceedEventually" else "F"
    for i, o in enumerate(outcomes[:n]):
        if o == "E":  # a crashing fuzzer fails the test whatever the expectation
            return dict(success=False, iterations=i + 1, kept=None, err=True)
        if o == stop_on:
            return dict(success=mode == "SucceedImmediately", iterations=i + 1, kept=i, err=False)
    return dict(success=mode != "SucceedImmediately", iterations=n, kept=None, err=False)


def expected_labels(loop, exp):
    """labels = multiset of the labels of the iterations actually run (shrinking re-runs
    the property many times; none of that may be counted)."""
    c = Counter()
    for it in loop[: exp["iterations"]]:
        c.update(it.get("labels", []))
    return dict(c)


def counterexample_must_fail(mode):
    """re-applying the property to the reported value: it fails, except under `fail`
    (SucceedEventually) where the reported value is one on which the property HOLDS."""
    return mode != "SucceedEventually"


def shortlex_le(a, b):
    return (len(a), list(a)) <= (len(b), list(b))


# ------------------------------------------------------------------ ground truth for the
# generated properties (so that "fails" does not rest on the evaluator alone)


def decode(ty, j):
    """plain Data JSON -> Python value, by fuzzer value type"""
    if ty == "int":
        return int(j["i"])
    if ty == "bool":
        return j["c"] == "1"
    if ty == "list_int":
        return [int(x["i"]) for x in j["l"]]
    if ty == "pair_int":
        return tuple(int(x["i"]) for x in j["l"])
    if ty == "opt_int":
        return None if j["c"] == "1" else int(j["f"][0]["i"])
    raise ValueError(ty)


def _neigh(xs):
    return all(a != b for a, b in zip(xs, xs[1:]))


def holds(spec, v):
    """does the property hold on value v? (None = this model does not know)"""
    k = spec["kind"]
    a = spec.get("k")
    if k in ("true",):
        return True
    if k in ("false",):
        return False
    if k in ("lt", "crash_ge", "expect_lt", "label_lt", "label_stmt", "trace_label", "label_then_crash"):
        return v < a
    if k == "ne":
        return v != a
    if k == "neigh":
        return _neigh(v)
    if k in ("sum_lt", "label_len_sum"):
        return sum(v) < a
    if k == "len_lt":
        return len(v) < a
    if k == "all_below":
        return all(x < a for x in v)
    if k == "pair_sum_lt":
        return v[0] + v[1] < a
    if k == "pair_le":
        return v[0] <= v[1]
    if k == "is_true":
        return v is True
    if k == "is_false":
        return v is False
    if k == "opt_lt":
        return True if v is None else v < a
    return None


def labels(spec, v):
    """labels one evaluation of the property emits, in order (None = no model)"""
    k = spec["kind"]
    if k in ("label_lt", "trace_label"):
        return ["small" if v < spec["t"] else "large"]
    if k == "label_stmt":
        return ["small" if v < spec["t"] else "large", "any"]
    if k == "label_then_crash":
        return ["seen"]
    if k == "label_len_sum":
        return ["empty" if len(v) == 0 else ("short" if len(v) < 3 else "long")]
    return []
