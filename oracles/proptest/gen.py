"""C16 workload: fuzzers x properties with known failure regions x the three expectations.

A case = (fuzzer, property spec, expectation keyword); its module source is
    use fuzz
    test prop(x via <fuzzer>) <expectation> { <body> }
compiled against /verif/corpus/fuzzlib/fuzz.ak (own mini fuzz library, module `fuzz`).
"""
import os
import sys

sys.path.insert(0, os.path.dirname(os.path.dirname(os.path.abspath(__file__))))
from common import VERIF, Rng  # noqa: E402

FUZZ_SRC_PATH = os.path.join(VERIF, "corpus", "fuzzlib", "fuzz.ak")


def fuzz_src():
    with open(FUZZ_SRC_PATH) as f:
        return f.read()


# name -> (Aiken expression, value type, thresholds worth probing, traits)
# traits: const (ignores the PRNG), dep (data-dependent number of choices), none_on_replay
# (a shrunk choice sequence may be rejected with None), err (the fuzzer may crash), lenient,
# slow (thorough tier only)
FUZZERS = {
    "int200": ("fuzz.int_between(0, 200)", "int", [0, 1, 10, 50, 150, 200, 201], ""),
    "int_wide": ("fuzz.int_between(-50, 1000)", "int", [-50, -49, 0, 300, 999, 1001], ""),
    "byte": ("fuzz.byte()", "int", [1, 2, 128, 255, 256], ""),
    "byte_or_zero": ("fuzz.byte_or_zero()", "int", [1, 100, 255], "lenient"),
    "const7": ("fuzz.constant(7)", "int", [7, 8], "const"),
    "int_single": ("fuzz.int_between(5, 5)", "int", [5, 6], "const"),
    "skip7": ("fuzz.skip_then(7)", "int", [7, 8], "discard"),
    "either": ("fuzz.either(fuzz.constant(3), fuzz.int_between(0, 100))", "int", [3, 4, 50, 100], "dep"),
    "such_that_mod3": ("fuzz.such_that(fuzz.byte(), fn(b) { b % 3 == 0 }, 60)", "int", [1, 3, 90, 253], "none_on_replay"),
    "such_that_big": ("fuzz.such_that(fuzz.int_between(0, 200), fn(n) { n >= 40 }, 60)", "int", [40, 41, 120, 200], "none_on_replay"),
    "retry_mod3": ("fuzz.such_that_retry(fuzz.byte(), fn(b) { b % 3 == 0 }, 60)", "int", [1, 3, 90, 253], "dep"),
    "such_that_hard": ("fuzz.such_that(fuzz.byte(), fn(b) { b >= 236 }, 30)", "int", [236, 245, 255], "none_on_replay err"),
    "crashing200": ("fuzz.crashing(200)", "int", [1, 100, 199], "err"),
    "crashing250": ("fuzz.crashing(250)", "int", [100, 249, 250], "err"),
    "map_double": ("fuzz.map(fuzz.byte(), fn(b) { b * 2 })", "int", [2, 100, 509, 511], ""),
    "and_then_dep": ("fuzz.and_then(fuzz.int_between(0, 5), fn(n) { fuzz.int_between(0, n * 10) })", "int", [1, 10, 30, 50], "dep"),
    "and_then_wide": ("fuzz.and_then(fuzz.bool(), fn(w) { if w { fuzz.int_between(0, 5000) } else { fuzz.constant(0) } })", "int", [1, 256, 2500], "dep"),
    # lists
    "list_small": ("fuzz.list_of(fuzz.int_between(0, 5), 7)", "list_int", [1, 3, 5, 10, 20], "dep"),
    "list_byte": ("fuzz.list_of(fuzz.byte(), 10)", "list_int", [1, 4, 100, 300, 1000], "dep"),
    "list_while": ("fuzz.list_while(fuzz.int_between(0, 50), 64, 12)", "list_int", [1, 3, 6, 40, 120], "dep"),
    "list_lenient": ("fuzz.list_of(fuzz.byte_or_zero(), 6)", "list_int", [1, 3, 100, 400], "dep lenient"),
    "list_such_that": ("fuzz.list_of(fuzz.such_that(fuzz.byte(), fn(b) { b % 2 == 0 }, 60), 6)", "list_int", [1, 3, 100, 400], "dep none_on_replay"),
    "list_long": ("fuzz.list_of(fuzz.int_between(0, 1000), 20)", "list_int", [1, 12, 1000, 5000], "dep slow"),
    "list_const": ("fuzz.constant([1, 1, 2])", "list_int", [3, 4, 5], "const"),
    "list_crashing": ("fuzz.list_of(fuzz.crashing(240), 5)", "list_int", [2, 4, 200], "dep err"),
    # pairs, bool, option
    "pair": ("fuzz.both(fuzz.int_between(0, 100), fuzz.int_between(0, 100))", "pair_int", [1, 50, 100, 200], ""),
    "pair_dep": ("fuzz.and_then(fuzz.byte(), fn(a) { fuzz.map(fuzz.int_between(0, a), fn(b) { (a, b) }) })", "pair_int", [1, 100, 300], "dep"),
    "pair_from3": ("fuzz.map(fuzz.tuple3(fuzz.byte(), fuzz.bool(), fuzz.byte()), fn(t) { let (a, s, b) = t\n if s { (a, b) } else { (b, a) } })", "pair_int", [1, 100, 400], ""),
    "bool": ("fuzz.bool()", "bool", [0], ""),
    "opt": ("fuzz.option(fuzz.int_between(0, 200))", "opt_int", [0, 1, 100, 200, 201], "dep"),
}


def body(spec):
    k, a, t = spec["kind"], spec.get("k"), spec.get("t")
    return {
        "true": lambda: "True",
        "false": lambda: "False",
        "lt": lambda: f"x < {a}",
        "ne": lambda: f"x != {a}",
        "crash_ge": lambda: f'if x >= {a} {{\n    fail @"boom"\n  }} else {{\n    True\n  }}',
        "expect_lt": lambda: f"expect x < {a}\n  True",
        "label_lt": lambda: f'fuzz.labelled(if x < {t} {{ @"small" }} else {{ @"large" }}, x < {a})',
        "label_stmt": lambda: f'fuzz.label(if x < {t} {{ @"small" }} else {{ @"large" }})\n  fuzz.label(@"any")\n  x < {a}',
        "trace_label": lambda: f'fuzz.trace_label(if x < {t} {{ @"small" }} else {{ @"large" }}, x < {a})',
        "label_then_crash": lambda: f'fuzz.label(@"seen")\n  if x >= {a} {{\n    fail @"boom"\n  }} else {{\n    True\n  }}',
        "neigh": lambda: "fuzz.no_equal_neighbours(x)",
        "sum_lt": lambda: f"fuzz.sum(x) < {a}",
        "len_lt": lambda: f"fuzz.length(x) < {a}",
        "all_below": lambda: f"fuzz.all_below(x, {a})",
        "label_len_sum": lambda: (
            'let n = fuzz.length(x)\n  fuzz.label(if n == 0 { @"empty" } else if n < 3 { @"short" } else { @"long" })\n'
            f"  fuzz.sum(x) < {a}"
        ),
        "pair_sum_lt": lambda: f"let (a, b) = x\n  a + b < {a}",
        "pair_le": lambda: "let (a, b) = x\n  a <= b",
        "is_true": lambda: "x",
        "is_false": lambda: "!x",
        "opt_lt": lambda: f"when x is {{\n    Some(n) -> n < {a}\n    None -> True\n  }}",
    }[k]()


KINDS = {
    "int": ["lt", "ne", "crash_ge", "expect_lt", "label_lt", "label_stmt", "trace_label", "label_then_crash"],
    "list_int": ["neigh", "sum_lt", "len_lt", "all_below", "label_len_sum"],
    "pair_int": ["pair_sum_lt", "pair_le"],
    "bool": ["is_true", "is_false"],
    "opt_int": ["opt_lt"],
}
NO_PARAM = {"neigh", "pair_le", "is_true", "is_false", "true", "false"}
EXPECTATIONS = ["", "fail", "fail once"]


def source(fuzzer, spec, expectation):
    expr = FUZZERS[fuzzer][0]
    kw = f" {expectation}" if expectation else ""
    pre = ""
    if "fn(" in expr:
        # the `via` grammar has no anonymous functions: name the fuzzer
        pre = f"fn the_fuzzer() {{\n  {expr}\n}}\n\n"
        expr = "the_fuzzer()"
    return f"use fuzz\n\n{pre}test prop(x via {expr}){kw} {{\n  {body(spec)}\n}}\n"


def all_specs(fuzzer):
    """every property spec this generator knows for a fuzzer"""
    _, ty, ks, _ = FUZZERS[fuzzer]
    out = [{"kind": "true"}, {"kind": "false"}]
    for kind in KINDS[ty]:
        if kind in NO_PARAM:
            out.append({"kind": kind})
            continue
        for a in ks:
            s = {"kind": kind, "k": a}
            if kind in ("label_lt", "label_stmt", "trace_label"):
                s["t"] = ks[len(ks) // 2]
            out.append(s)
    return out


def properties(tier, seed):
    """[(fuzzer, spec)]: thorough = everything; quick = per fuzzer always-true, always-false and a
    seed-dependent handful of the rest (every kind of the type is hit at least once)."""
    rng = Rng(seed, 16)
    out = []
    rot = {}  # value type -> running index: kinds are dealt round-robin so that all are hit
    for fz in FUZZERS:
        specs = all_specs(fz)
        if tier != "thorough" and "slow" in FUZZERS[fz][3]:
            continue
        if tier == "thorough":
            out += [(fz, s) for s in specs]
            continue
        fixed = specs[:2] if rng.chance(1, 2) or "const" in FUZZERS[fz][3] else [rng.pick(specs[:2])]
        by_kind = {}
        for s in specs[2:]:
            by_kind.setdefault(s["kind"], []).append(s)
        ty = FUZZERS[fz][1]
        kinds = KINDS[ty]
        budget = min(len(kinds), 2 if ty == "int" else 3)
        chosen = []
        for _ in range(budget):
            i = rot.get(ty, seed)
            rot[ty] = i + 1
            chosen.append(rng.pick(by_kind[kinds[i % len(kinds)]]))
        out += [(fz, s) for s in fixed + chosen]
    return out


def seeds(tier, seed):
    rng = Rng(seed, 17)
    fixed = [0, 1, 42, 0xFFFFFFFF]
    n = 20 if tier == "quick" else 24
    return fixed + [rng.below(1 << 32) for _ in range(n - len(fixed))]


def max_successes(tier):
    return [1, 10, 100] if tier == "quick" else [0, 1, 2, 10, 100, 150]


if __name__ == "__main__":
    ps = properties(sys.argv[1] if len(sys.argv) > 1 else "quick", 0)
    print(len(ps), "properties")
    fz, sp = ps[3]
    print(source(fz, sp, "fail once"))
