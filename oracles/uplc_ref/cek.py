"""Iterative CEK machine for Untyped Plutus Core, following the Plutus Core
specification (section "The CEK machine", figures for compute/return states,
the treatment of builtins by signature, constr/case from the 1.1.0 language
version, and the discharge function `U`).

  evaluate(term_json, variant="E", fuel=...) ->
      {"ok": term_json, ...} | {"fail": reason, ...}
      plus "steps" (dict kind -> count), "calls" [(name, [values])], "logs"
  raises OutOfFuel / Unsupported (callers: inconclusive); `evaluate_verdict`
  never raises and reports {"inconclusive": reason} instead.

Step accounting: exactly one step of the term's kind is charged each time the
machine enters a compute state `s ; rho |> M` (spec: "cost of a machine step").
The reference cost of a run is startup + sum(steps) * step_cost + builtin costs.
"""
from . import term as T
from .builtins import (BUILTINS, BuiltinError, Unsupported, Ctx, lookup,
                       V_CON, V_DELAY, V_LAM, V_CONSTR, V_BUILTIN, VARIANTS)

# internal term tags
T_VAR, T_LAM, T_APP, T_DELAY, T_FORCE, T_CON, T_BUILTIN, T_ERROR, T_CONSTR, T_CASE = range(10)
# step kinds, in the order of the cost model's machine parameters
STEP_KINDS = ("const", "var", "lam", "apply", "delay", "force", "builtin", "constr", "case")
_STEP_OF_TAG = {T_CON: 0, T_VAR: 1, T_LAM: 2, T_APP: 3, T_DELAY: 4, T_FORCE: 5, T_BUILTIN: 6,
                T_CONSTR: 7, T_CASE: 8}
# frames
F_ARG_TERM, F_FUN, F_ARG_VAL, F_FORCE, F_CONSTR, F_CASE = range(6)

DEFAULT_FUEL = 1_000_000
MAX_DISCHARGE_NODES = 2_000_000
MAX_RECORDED_CALLS = 100_000


class OutOfFuel(Exception):
    pass


class EvalFailure(Exception):
    """the machine reached the error state"""


# ----------------------------------------------------------------- compile JSON -> internal

def compile_term(j):
    """JSON tree -> internal tuples (iterative).  Raises T.BadTerm on malformed input."""
    out = []
    work = [(j, 0, None)]
    while work:
        x, mode, extra = work.pop()
        if mode == 1:       # build unary
            out.append((extra, out.pop()))
            continue
        if mode == 2:       # app
            a = out.pop()
            f = out.pop()
            out.append((T_APP, f, a))
            continue
        if mode == 3:       # constr: extra = (tag, n)
            tag, n = extra
            items = tuple(out[-n:]) if n else ()
            if n:
                del out[-n:]
            out.append((T_CONSTR, tag, items))
            continue
        if mode == 4:       # case: extra = n branches
            n = extra
            items = tuple(out[-n:]) if n else ()
            if n:
                del out[-n:]
            scrut = out.pop()
            out.append((T_CASE, scrut, items))
            continue
        if not isinstance(x, (list, tuple)) or not x or not isinstance(x[0], str):
            raise T.BadTerm("bad term node %r" % (x,))
        k = x[0]
        n = len(x)
        if k == "var" and n == 2:
            i = x[1]
            if isinstance(i, bool) or not isinstance(i, int):
                raise T.BadTerm("bad index %r" % (i,))
            out.append((T_VAR, i))
        elif k == "lam" and n == 2:
            work.append((None, 1, T_LAM))
            work.append((x[1], 0, None))
        elif k == "delay" and n == 2:
            work.append((None, 1, T_DELAY))
            work.append((x[1], 0, None))
        elif k == "force" and n == 2:
            work.append((None, 1, T_FORCE))
            work.append((x[1], 0, None))
        elif k == "app" and n == 3:
            work.append((None, 2, None))
            work.append((x[2], 0, None))
            work.append((x[1], 0, None))
        elif k == "con" and n == 3:
            ty = T.type_from_json(x[1])
            out.append((T_CON, ty, T.value_from_json(ty, x[2])))
        elif k == "builtin" and n == 2:
            b = lookup(x[1]) if isinstance(x[1], str) else None
            if b is None:
                raise T.BadTerm("unknown builtin %r" % (x[1],))
            out.append((T_BUILTIN, b))
        elif k == "error" and n == 1:
            out.append((T_ERROR,))
        elif k == "constr" and n == 3 and isinstance(x[2], (list, tuple)):
            tag = x[1]
            if isinstance(tag, str) and tag.isdigit():
                tag = int(tag)
            if isinstance(tag, bool) or not isinstance(tag, int) or tag < 0:
                raise T.BadTerm("bad constr tag %r" % (x[1],))
            work.append((None, 3, (tag, len(x[2]))))
            for f in reversed(x[2]):
                work.append((f, 0, None))
        elif k == "case" and n == 3 and isinstance(x[2], (list, tuple)):
            work.append((None, 4, len(x[2])))
            for f in reversed(x[2]):
                work.append((f, 0, None))
            work.append((x[1], 0, None))
        else:
            raise T.BadTerm("bad term node %r" % (k,))
    return out[0]


# ----------------------------------------------------------------- discharge (read-back)

def _builtin_head(v):
    """partial builtin application value -> (bdef, number of forces already applied, args)"""
    return v[1], v[1].forces - v[2], v[3]


def discharge(value, limit=MAX_DISCHARGE_NODES, _stop_at_constr_case=False):
    """The spec's discharge: value -> closed term (JSON tree).  Captured variables are
    substituted *everywhere* in closure bodies: under lam, delay, and inside
    constr / case sub-terms.  Values taken from an environment are closed, so no
    index shifting is needed; indices of variables bound inside the body are kept.

    `_stop_at_constr_case=True` is NOT part of the oracle: it reproduces a known defect of
    the Rust implementation (no substitution inside constr/case sub-terms of a closure
    body) and is used by difftest.py only to put such disagreements into their own bucket."""
    INF = float("inf")
    out = []
    # work items: (0, value) | (1, term, env, depth) | (2, kind, n/extra)
    work = [(0, value)]
    nodes = 0
    while work:
        w = work.pop()
        nodes += 1
        if nodes > limit:
            raise OutOfFuel("discharged term too large")
        m = w[0]
        if m == 0:
            v = w[1]
            k = v[0]
            if k == V_CON:
                out.append(["con", T.type_to_json(v[1]), T.value_to_json(v[1], v[2])])
            elif k == V_DELAY:
                work.append((2, "delay", None))
                work.append((1, v[1], v[2], 0))
            elif k == V_LAM:
                work.append((2, "lam", None))
                work.append((1, v[1], v[2], 1))
            elif k == V_CONSTR:
                work.append((2, "constr", (v[1], len(v[2]))))
                for f in reversed(v[2]):
                    work.append((0, f))
            else:
                b, forced, args = _builtin_head(v)
                work.append((2, "bapp", (b.hname, forced, len(args))))
                for a in reversed(args):
                    work.append((0, a))
        elif m == 1:
            t, env, depth = w[1], w[2], w[3]
            k = t[0]
            if k == T_VAR:
                i = t[1]
                if i <= depth:
                    out.append(["var", i])
                else:
                    e = env
                    j = i - depth
                    while j > 1 and e is not None:
                        e = e[1]
                        j -= 1
                    if e is None or j < 1:
                        out.append(["var", i])   # free variable: left alone
                    else:
                        work.append((0, e[0]))
            elif k == T_LAM:
                work.append((2, "lam", None))
                work.append((1, t[1], env, depth + 1))
            elif k == T_DELAY:
                work.append((2, "delay", None))
                work.append((1, t[1], env, depth))
            elif k == T_FORCE:
                work.append((2, "force", None))
                work.append((1, t[1], env, depth))
            elif k == T_APP:
                work.append((2, "app", None))
                work.append((1, t[2], env, depth))
                work.append((1, t[1], env, depth))
            elif k == T_CON:
                out.append(["con", T.type_to_json(t[1]), T.value_to_json(t[1], t[2])])
            elif k == T_BUILTIN:
                out.append(["builtin", t[1].hname])
            elif k == T_ERROR:
                out.append(["error"])
            elif k == T_CONSTR:
                if _stop_at_constr_case:
                    depth = INF
                work.append((2, "constr", (t[1], len(t[2]))))
                for f in reversed(t[2]):
                    work.append((1, f, env, depth))
            else:
                if _stop_at_constr_case:
                    depth = INF
                work.append((2, "case", len(t[2])))
                for f in reversed(t[2]):
                    work.append((1, f, env, depth))
                work.append((1, t[1], env, depth))
        else:
            kind, extra = w[1], w[2]
            if kind == "lam" or kind == "delay" or kind == "force":
                out.append([kind, out.pop()])
            elif kind == "app":
                a = out.pop()
                f = out.pop()
                out.append(["app", f, a])
            elif kind == "constr":
                tag, n = extra
                items = out[-n:] if n else []
                if n:
                    del out[-n:]
                out.append(["constr", tag, items])
            elif kind == "case":
                n = extra
                items = out[-n:] if n else []
                if n:
                    del out[-n:]
                out.append(["case", out.pop(), items])
            else:  # partial builtin application
                name, forced, n = extra
                items = out[-n:] if n else []
                if n:
                    del out[-n:]
                t = ["builtin", name]
                for _ in range(forced):
                    t = ["force", t]
                for a in items:
                    t = ["app", t, a]
                out.append(t)
    return out[0]


# ----------------------------------------------------------------- the machine

class Result(dict):
    """dict with the verdict; attributes for convenience"""
    @property
    def steps(self):
        return self["steps"]

    @property
    def calls(self):
        return self["calls"]


def run(t, variant="E", fuel=DEFAULT_FUEL, record_calls=True):
    """Run the machine on an internal term.  Returns (value, steps list, calls, logs);
    raises EvalFailure / OutOfFuel / Unsupported."""
    if variant not in VARIANTS:
        raise ValueError("unknown semantics variant %r" % (variant,))
    case_on_constants = variant == "E"
    ctx = Ctx(variant)
    steps = [0] * 9
    calls = []
    stack = []
    push = stack.append
    pop = stack.pop
    env = None
    budget = fuel
    v = None
    try:
        return _loop(t, env, stack, push, pop, steps, calls, ctx, budget, fuel, record_calls,
                     case_on_constants)
    except (EvalFailure, OutOfFuel, Unsupported) as e:
        # partial accounting is still useful to callers (cost of failing runs)
        e.steps, e.calls, e.logs = steps, calls, ctx.logs
        raise


def _loop(t, env, stack, push, pop, steps, calls, ctx, budget, fuel, record_calls, case_on_constants):
    v = None
    while True:
        # ---------------------------------------------------------- compute  s ; env |> t
        while True:
            k = t[0]
            budget -= 1
            if budget < 0:
                raise OutOfFuel("fuel exhausted after %d steps" % fuel)
            if k == T_VAR:
                steps[1] += 1
                i = t[1]
                e = env
                if i < 1:
                    raise EvalFailure("open term: de Bruijn index %d" % i)
                while i > 1 and e is not None:
                    e = e[1]
                    i -= 1
                if e is None:
                    raise EvalFailure("open term: free variable")
                v = e[0]
                break
            if k == T_APP:
                steps[3] += 1
                push((F_ARG_TERM, t[2], env))
                t = t[1]
                continue
            if k == T_LAM:
                steps[2] += 1
                v = (V_LAM, t[1], env)
                break
            if k == T_CON:
                steps[0] += 1
                v = (V_CON, t[1], t[2])
                break
            if k == T_FORCE:
                steps[5] += 1
                push((F_FORCE,))
                t = t[1]
                continue
            if k == T_DELAY:
                steps[4] += 1
                v = (V_DELAY, t[1], env)
                break
            if k == T_BUILTIN:
                steps[6] += 1
                b = t[1]
                v = (V_BUILTIN, b, b.forces, ())
                break
            if k == T_CONSTR:
                steps[7] += 1
                fields = t[2]
                if not fields:
                    v = (V_CONSTR, t[1], ())
                    break
                # fields are evaluated left to right (spec: frame (constr i V.. _ M..))
                push((F_CONSTR, t[1], fields, 1, [], env))
                t = fields[0]
                continue
            if k == T_CASE:
                steps[8] += 1
                push((F_CASE, t[2], env))
                t = t[1]
                continue
            # T_ERROR: the spec charges nothing for (error); the machine just stops
            raise EvalFailure("error term evaluated")
        # ---------------------------------------------------------- return  s <| v
        while True:
            if not stack:
                return v, steps, calls, ctx.logs
            f = pop()
            fk = f[0]
            if fk == F_ARG_TERM:         # [_ (M, rho)]  ->  compute M with [V _]
                push((F_FUN, v))
                t = f[1]
                env = f[2]
                break
            if fk == F_FUN or fk == F_ARG_VAL:
                if fk == F_FUN:          # [V _] : v is the argument
                    fun, arg = f[1], v
                else:                    # [_ V] : v is the function (case spine)
                    fun, arg = v, f[1]
                fk2 = fun[0]
                if fk2 == V_LAM:
                    t = fun[1]
                    env = (arg, fun[2])
                    break
                if fk2 == V_BUILTIN:
                    b = fun[1]
                    if fun[2] != 0:
                        # the signature expects a type instantiation (force) here
                        raise EvalFailure("builtin %s applied to a term where a force is expected" % b.name)
                    args = fun[3] + (arg,)
                    if len(args) == b.arity:
                        if record_calls and len(calls) < MAX_RECORDED_CALLS:
                            calls.append((b.name, args))
                        try:
                            v = b.run(args, ctx)
                        except BuiltinError as e:
                            raise EvalFailure("builtin %s failed: %s" % (b.name, e))
                    else:
                        v = (V_BUILTIN, b, 0, args)
                    continue
                raise EvalFailure("application of a non-function value")
            if fk == F_FORCE:
                vk = v[0]
                if vk == V_DELAY:
                    t = v[1]
                    env = v[2]
                    break
                if vk == V_BUILTIN:
                    if v[2] <= 0:
                        raise EvalFailure("builtin %s forced where a term argument is expected" % v[1].name)
                    # all default builtins have arity >= 1, so forcing never saturates
                    v = (V_BUILTIN, v[1], v[2] - 1, v[3])
                    continue
                raise EvalFailure("force of a non-delay value")
            if fk == F_CONSTR:
                _, tag, fields, nxt, done, fenv = f
                done.append(v)   # the list is owned by this frame only
                if nxt == len(fields):
                    v = (V_CONSTR, tag, tuple(done))
                    continue
                push((F_CONSTR, tag, fields, nxt + 1, done, fenv))
                t = fields[nxt]
                env = fenv
                break
            # F_CASE
            branches = f[1]
            vk = v[0]
            if vk == V_CONSTR:
                tag = v[1]
                if tag >= len(branches):
                    raise EvalFailure("case: no branch for constructor tag %d" % tag)
                for x in reversed(v[2]):
                    push((F_ARG_VAL, x))
                t = branches[tag]
                env = f[2]
                break
            if vk == V_CON and case_on_constants:
                idx, spine = _case_constant(v, len(branches))
                for x in reversed(spine):
                    push((F_ARG_VAL, x))
                t = branches[idx]
                env = f[2]
                break
            raise EvalFailure("case on a non-constructor value")


def _case_constant(v, n):
    """`case` on a built-in constant (spec >= 1.1.0 with the "case on builtins" extension,
    enabled only from protocol version 11 for PlutusV3 = variant E).  Pinned by the goldens
    under v3/term/constant-case:
      bool:    False -> branch 0 (1 or 2 branches), True -> branch 1 (exactly 2 branches)
      unit:    exactly one branch
      integer: 0 <= i < number of branches
      list:    1 or 2 branches; cons -> branch 0 applied to head and tail, nil -> branch 1
      pair:    exactly one branch, applied to both components
    anything else (bytestring, string, data, BLS) is a failure."""
    ty, x = v[1], v[2]
    if ty == "bool":
        if x is False and 1 <= n <= 2:
            return 0, ()
        if x is True and n == 2:
            return 1, ()
        raise EvalFailure("case on bool: wrong number of branches")
    if ty == "unit":
        if n == 1:
            return 0, ()
        raise EvalFailure("case on unit: wrong number of branches")
    if ty == "integer":
        if 0 <= x < n:
            return x, ()
        raise EvalFailure("case on integer: no such branch")
    if ty.__class__ is not str:
        if ty[0] == "list":
            if n < 1 or n > 2:
                raise EvalFailure("case on list: wrong number of branches")
            if x:
                return 0, ((V_CON, ty[1], x[0]), (V_CON, ty, x[1:]))
            if n == 2:
                return 1, ()
            raise EvalFailure("case on empty list without a nil branch")
        if ty[0] == "pair":
            if n != 1:
                raise EvalFailure("case on pair: wrong number of branches")
            return 0, ((V_CON, ty[1], x[0]), (V_CON, ty[2], x[1]))
    raise EvalFailure("case on a constant of type %s" % (ty,))


def value_to_json(v):
    """argument values for `calls`: constants as ["con",..]; others as {"k": kind}"""
    if v[0] == V_CON:
        return ["con", T.type_to_json(v[1]), T.value_to_json(v[1], v[2])]
    return {"k": ("delay", "lam", "constr", "builtin")[v[0] - 1]}


def evaluate(term_json, variant="E", fuel=DEFAULT_FUEL, record_calls=True, calls_as_json=True,
             keep_value=False):
    """See module docstring.  Raises OutOfFuel / Unsupported / T.BadTerm.
    calls_as_json=False keeps the raw machine values in "calls" (faster, not JSON-serialisable);
    keep_value=True adds the raw result value under "value"."""
    t = compile_term(term_json)
    res = Result()
    try:
        v, steps, calls, logs = run(t, variant, fuel, record_calls)
    except EvalFailure as e:
        res["fail"] = str(e)
        res["steps"] = dict(zip(STEP_KINDS, e.steps))   # steps charged before the failure
        calls = e.calls
        if calls_as_json:
            calls = [(n, [value_to_json(a) for a in args]) for n, args in calls]
        res["calls"] = calls
        res["logs"] = e.logs
        return res
    res["ok"] = discharge(v)
    if keep_value:
        res["value"] = v        # raw machine value (for callers that want another read-back)
    res["steps"] = dict(zip(STEP_KINDS, steps))
    if calls_as_json:
        calls = [(n, [value_to_json(a) for a in args]) for n, args in calls]
    res["calls"] = calls
    res["logs"] = logs
    return res


def evaluate_verdict(term_json, variant="E", fuel=DEFAULT_FUEL, **kw):
    """Like evaluate but never raises: inconclusive outcomes are reported as
    {"inconclusive": reason, "kind": "OutOfFuel" | "Unsupported" | "BadTerm" | ...}."""
    try:
        return evaluate(term_json, variant, fuel, **kw)
    except OutOfFuel as e:
        return Result(inconclusive=str(e), kind="OutOfFuel", steps=None, calls=None)
    except Unsupported as e:
        return Result(inconclusive=str(e), kind="Unsupported", steps=None, calls=None)
    except T.BadTerm as e:
        return Result(inconclusive=str(e), kind="BadTerm", steps=None, calls=None)
    except (RecursionError, MemoryError, OverflowError) as e:
        return Result(inconclusive=repr(e), kind=type(e).__name__, steps=None, calls=None)
    except Exception as e:      # last resort: an oracle bug must not take the caller down
        return Result(inconclusive="internal error: %r" % (e,), kind="InternalError", steps=None, calls=None)
