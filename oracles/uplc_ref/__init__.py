"""Independent reference implementation of Untyped Plutus Core (CEK machine +
builtins) used as the oracle for the Rust evaluator in /repo/crates/uplc.
Written from the Plutus Core specification and the upstream conformance goldens;
see DISAGREEMENTS.md for the cases where the Rust implementation differs."""
from .term import (parse_program, parse_term, ParseError, BadTerm, term_json_equal,
                   norm_name, data_from_json, data_to_json, type_from_json, type_to_json,
                   value_from_json, value_to_json)
from .builtins import BUILTINS, BuiltinError, Unsupported, lookup, signature_table, VARIANTS
from .cek import (evaluate, evaluate_verdict, OutOfFuel, EvalFailure, STEP_KINDS, discharge,
                  compile_term, DEFAULT_FUEL)
from . import exmem


def variant_for(lang, pv):
    """(ledger language "v1"|"v2"|"v3", protocol major version) -> semantics variant letter."""
    if lang in ("v1", "v2"):
        return "A" if pv < 9 else ("B" if pv < 11 else "D")
    return "C" if pv < 11 else "E"
