"""BLS12-381 for the UPLC oracle (CIP-0381, CIP-0133), pure Python, from first principles:

  curve     E1: y^2 = x^3 + 4 over Fp,  E2: y^2 = x^3 + 4(1+u) over Fp2 = Fp[u]/(u^2+1)
  groups    G1 / G2 = the order-r subgroups
  encoding  ZCash compressed format (48 / 96 bytes; flag bits: compressed, infinity, sign)
  pairing   optimal-ate Miller loop over Fp12 = Fp[w]/(w^12 - 2w^6 + 2) (u = w^6 - 1),
            final exponentiation by the plain exponent (p^12-1)/r (slow but obviously right)

G1/G2 elements are represented by their *compressed encoding* (bytes), which is canonical,
so equality is byte equality.  Miller-loop results are ("ml", 12-tuple) values; they can
only be compared through finalVerify, so any fixed power of the pairing would do -- what
matters is bilinearity and non-degeneracy, which `_selfcheck()` verifies.

hashToGroup is NOT implemented (the SSWU isogeny constants are not something to retype
from memory): only its DST-length check is; otherwise `Unsupported` is raised.

Function names are the normalised builtin names (see term.norm_name).
"""
from .builtins import BuiltinError, Unsupported

P = 0x1a0111ea397fe69a4b1ba7b6434bacd764774b84f38512bf6730d2a0f6b0f6241eabfffeb153ffffb9feffffffffaaab
R = 0x73eda753299d7d483339d80809a1d80553bda402fffe5bfeffffffff00000001
X_ABS = 0xd201000000010000          # |x|, the BLS parameter is x = -X_ABS
HALF_P = (P - 1) // 2

# sanity of the constants retyped from memory: the curve family relations
assert P == (X_ABS + 1) ** 2 * (X_ABS ** 4 - X_ABS ** 2 + 1) // 3 - X_ABS   # p(x) with x = -X_ABS
assert R == X_ABS ** 4 - X_ABS ** 2 + 1
assert P % 4 == 3


def _fail(msg):
    raise BuiltinError(msg)


# ----------------------------------------------------------------- Fp, Fp2

def _inv(a):
    return pow(a, -1, P)


def _sqrt_fp(a):
    r = pow(a, (P + 1) // 4, P)
    return r if r * r % P == a % P else None


def f2_add(a, b):
    return ((a[0] + b[0]) % P, (a[1] + b[1]) % P)


def f2_sub(a, b):
    return ((a[0] - b[0]) % P, (a[1] - b[1]) % P)


def f2_mul(a, b):
    return ((a[0] * b[0] - a[1] * b[1]) % P, (a[0] * b[1] + a[1] * b[0]) % P)


def f2_inv(a):
    n = _inv((a[0] * a[0] + a[1] * a[1]) % P)
    return (a[0] * n % P, -a[1] * n % P)


def f2_sqrt(a):
    a0, a1 = a
    if a1 == 0:
        r = _sqrt_fp(a0)
        if r is not None:
            return (r, 0)
        r = _sqrt_fp(-a0 % P)
        return None if r is None else (0, r)
    alpha = _sqrt_fp((a0 * a0 + a1 * a1) % P)
    if alpha is None:
        return None
    half = _inv(2)
    for s in (alpha, -alpha):
        delta = (a0 + s) * half % P
        x0 = _sqrt_fp(delta)
        if x0 is None or x0 == 0:
            continue
        x1 = a1 * _inv(2 * x0 % P) % P
        if f2_mul((x0, x1), (x0, x1)) == (a0 % P, a1 % P):
            return (x0, x1)
    return None


# ----------------------------------------------------------------- generic short-Weierstrass (a = 0)

class _Curve:
    """affine arithmetic on y^2 = x^3 + b over a field given by its operations"""

    def __init__(self, add, sub, mul, inv, zero, b):
        self.fadd, self.fsub, self.fmul, self.finv, self.zero, self.b = add, sub, mul, inv, zero, b

    def on_curve(self, pt):
        if pt is None:
            return True
        x, y = pt
        m = self.fmul
        return m(y, y) == self.fadd(m(m(x, x), x), self.b)

    def neg(self, pt):
        return None if pt is None else (pt[0], self.fsub(self.zero, pt[1]))

    def add(self, p1, p2):
        if p1 is None:
            return p2
        if p2 is None:
            return p1
        m, s = self.fmul, self.fsub
        if p1[0] == p2[0]:
            if p1[1] != p2[1] or p1[1] == self.zero:
                return None
            xx = m(p1[0], p1[0])
            lam = m(self.fadd(self.fadd(xx, xx), xx), self.finv(self.fadd(p1[1], p1[1])))
        else:
            lam = m(s(p2[1], p1[1]), self.finv(s(p2[0], p1[0])))
        x3 = s(s(m(lam, lam), p1[0]), p2[0])
        return (x3, s(m(lam, s(p1[0], x3)), p1[1]))

    def mul(self, k, pt):
        if k < 0:
            return self.mul(-k, self.neg(pt))
        acc = None
        while k:
            if k & 1:
                acc = self.add(acc, pt)
            pt = self.add(pt, pt)
            k >>= 1
        return acc


E1 = _Curve(lambda a, b: (a + b) % P, lambda a, b: (a - b) % P, lambda a, b: a * b % P, _inv, 0, 4)
E2 = _Curve(f2_add, f2_sub, f2_mul, f2_inv, (0, 0), (4, 4))

# ----------------------------------------------------------------- encodings

_CACHE1, _CACHE2 = {}, {}


def _flags(b):
    return b[0] >> 7 & 1, b[0] >> 6 & 1, b[0] >> 5 & 1


def g1_decode(b):
    """compressed bytes -> affine point / None (infinity); raises ValueError when invalid.
    Checks: length, compression flag, canonical infinity, x < p, on curve, in the r-subgroup."""
    hit = _CACHE1.get(b)
    if hit is not None:
        return hit[0]
    if len(b) != 48:
        raise ValueError("length")
    c, inf, sign = _flags(b)
    if not c:
        raise ValueError("not compressed")
    x = int.from_bytes(b, "big") & ((1 << 381) - 1)
    if inf:
        if sign or x:
            raise ValueError("bad infinity")
        pt = None
    else:
        if x >= P:
            raise ValueError("x >= p")
        y = _sqrt_fp((x * x * x + 4) % P)
        if y is None:
            raise ValueError("not on curve")
        if (y > HALF_P) != bool(sign):
            y = P - y
        pt = (x, y)
        if E1.mul(R, pt) is not None:
            raise ValueError("not in G1")
    if len(_CACHE1) > 4096:
        _CACHE1.clear()
    _CACHE1[b] = (pt,)
    return pt


def g1_encode(pt):
    if pt is None:
        return b"\xc0" + bytes(47)
    x, y = pt
    v = x | (1 << 383) | ((1 << 381) if y > HALF_P else 0)
    return v.to_bytes(48, "big")


def _f2_is_largest(y):
    # lexicographic order on (c1, c0): is y > -y ?
    if y[1] != 0:
        return y[1] > HALF_P
    return y[0] > HALF_P


def g2_decode(b):
    hit = _CACHE2.get(b)
    if hit is not None:
        return hit[0]
    if len(b) != 96:
        raise ValueError("length")
    c, inf, sign = _flags(b)
    if not c:
        raise ValueError("not compressed")
    x1 = int.from_bytes(b[:48], "big") & ((1 << 381) - 1)
    x0 = int.from_bytes(b[48:], "big")
    if inf:
        if sign or x1 or x0:
            raise ValueError("bad infinity")
        pt = None
    else:
        if x1 >= P or x0 >= P:
            raise ValueError("x >= p")
        x = (x0, x1)
        y = f2_sqrt(f2_add(f2_mul(f2_mul(x, x), x), (4, 4)))
        if y is None:
            raise ValueError("not on curve")
        if _f2_is_largest(y) != bool(sign):
            y = ((-y[0]) % P, (-y[1]) % P)
        pt = (x, y)
        if E2.mul(R, pt) is not None:
            raise ValueError("not in G2")
    if len(_CACHE2) > 4096:
        _CACHE2.clear()
    _CACHE2[b] = (pt,)
    return pt


def g2_encode(pt):
    if pt is None:
        return b"\xc0" + bytes(95)
    (x0, x1), y = pt
    v = x1 | (1 << 383) | ((1 << 381) if _f2_is_largest(y) else 0)
    return v.to_bytes(48, "big") + x0.to_bytes(48, "big")


def g1_valid(b):
    try:
        g1_decode(bytes(b))
        return True
    except ValueError:
        return False


def g2_valid(b):
    try:
        g2_decode(bytes(b))
        return True
    except ValueError:
        return False


def _g1(b):
    try:
        return g1_decode(b)
    except ValueError as e:
        # a constant that is not a valid group element cannot exist in a well-formed program
        raise Unsupported("invalid G1 constant (%s)" % e)


def _g2(b):
    try:
        return g2_decode(b)
    except ValueError as e:
        raise Unsupported("invalid G2 constant (%s)" % e)


# ----------------------------------------------------------------- builtins on G1 / G2

MSM_MIN, MSM_MAX = -(1 << 4095), (1 << 4095) - 1     # goldens multiScalarMul-13a..13d


def _mk(curve, dec, enc, uncompress_len):
    def add(a, b):
        return enc(curve.add(dec(a), dec(b)))

    def neg(a):
        return enc(curve.neg(dec(a)))

    def scalar_mul(k, a):
        return enc(curve.mul(k % R, dec(a)))

    def equal(a, b):
        dec(a), dec(b)
        return a == b

    def compress(a):
        dec(a)
        return a

    def uncompress(bs):
        if len(bs) != uncompress_len:
            _fail("uncompress: wrong length")
        try:
            (g1_decode if uncompress_len == 48 else g2_decode)(bs)
        except ValueError as e:
            _fail("uncompress: %s" % e)
        return bs

    def hash_to_group(msg, dst):
        if len(dst) > 255:
            _fail("hashToGroup: domain separation tag longer than 255 bytes")
        raise Unsupported("hashToGroup (SSWU map not implemented)")

    def multi_scalar_mul(ks, pts):
        # CIP-0133: pairs are zipped (extra entries of either list are ignored: goldens
        # multiScalarMul-09/-10); scalars must fit in 4096 bits two's complement (13a-13d).
        # The bound is checked on every scalar given, used or not (unpinned; see DISAGREEMENTS).
        for k in ks:
            if k < MSM_MIN or k > MSM_MAX:
                _fail("multiScalarMul: scalar out of range")
        acc = None
        for k, pt in zip(ks, pts):
            acc = curve.add(acc, curve.mul(k % R, dec(pt)))
        return enc(acc)

    return add, neg, scalar_mul, equal, compress, uncompress, hash_to_group, multi_scalar_mul


(bls12381g1add, bls12381g1neg, bls12381g1scalarmul, bls12381g1equal, bls12381g1compress,
 bls12381g1uncompress, bls12381g1hashtogroup, bls12381g1multiscalarmul) = _mk(E1, _g1, g1_encode, 48)
(bls12381g2add, bls12381g2neg, bls12381g2scalarmul, bls12381g2equal, bls12381g2compress,
 bls12381g2uncompress, bls12381g2hashtogroup, bls12381g2multiscalarmul) = _mk(E2, _g2, g2_encode, 96)


# ----------------------------------------------------------------- Fp12 = Fp[w]/(w^12 - 2w^6 + 2)

F12_ONE = (1,) + (0,) * 11


def f12_mul(a, b):
    t = [0] * 23
    for i, x in enumerate(a):
        if x:
            for j, y in enumerate(b):
                if y:
                    t[i + j] += x * y
    # w^12 = 2 w^6 - 2
    for k in range(22, 11, -1):
        c = t[k]
        if c:
            t[k - 6] += 2 * c
            t[k - 12] -= 2 * c
    return tuple(v % P for v in t[:12])


def f12_pow(a, e):
    acc = F12_ONE
    while e:
        if e & 1:
            acc = f12_mul(acc, a)
        a = f12_mul(a, a)
        e >>= 1
    return acc


def _poly_inv(a):
    """inverse in Fp[w]/(m) by the extended Euclidean algorithm on polynomials"""
    m = [2, 0, 0, 0, 0, 0, P - 2, 0, 0, 0, 0, 0, 1]     # w^12 - 2 w^6 + 2

    def deg(p):
        d = len(p) - 1
        while d >= 0 and p[d] == 0:
            d -= 1
        return d

    lm, hm = [1] + [0] * 12, [0] * 13
    low, high = list(a) + [0], m
    while deg(low) > 0:
        dl, dh = deg(low), deg(high)
        # high = q * low + r
        r = list(high)
        q = [0] * 13
        il = _inv(low[dl])
        for i in range(dh - dl, -1, -1):
            c = r[dl + i] * il % P
            q[i] = c
            if c:
                for j in range(dl + 1):
                    r[i + j] = (r[i + j] - c * low[j]) % P
        nm = list(hm)
        for i in range(13):
            if q[i]:
                for j in range(13 - i):
                    nm[i + j] = (nm[i + j] - q[i] * lm[j]) % P
        lm, low, hm, high = nm, r, lm, low
    c = _inv(low[0])
    return tuple(v * c % P for v in lm[:12])


def _embed2(a):
    """Fp2 -> Fp12 with u = w^6 - 1"""
    return ((a[0] - a[1]) % P, 0, 0, 0, 0, 0, a[1] % P, 0, 0, 0, 0, 0)


_W = (0, 1) + (0,) * 10
_W_INV = _poly_inv(_W)
_W_INV3 = f12_mul(f12_mul(_W_INV, _W_INV), _W_INV)
assert f12_mul(_W, _W_INV) == F12_ONE


def _line(T, lam, Pt):
    """value at P = (xP, yP) in E1(Fp) of the line through psi(T) with slope psi-image of lam,
    where psi(x', y') = (x'/w^2, y'/w^3) is the untwisting isomorphism E2 -> E(Fp12):
        l = yP - (lam xP)/w + (lam x_T - y_T)/w^3      (lam, x_T, y_T in Fp2)"""
    xP, yP = Pt
    a = _embed2(((-lam[0] * xP) % P, (-lam[1] * xP) % P))
    b = _embed2(f2_sub(f2_mul(lam, T[0]), T[1]))
    out = list(f12_mul(a, _W_INV))
    c = f12_mul(b, _W_INV3)
    for i in range(12):
        out[i] = (out[i] + c[i]) % P
    out[0] = (out[0] + yP) % P
    return tuple(out)


def miller_loop(Pt, Q):
    """f_{|x|,Q}(P) for P in G1, Q in G2 (affine, not infinity)"""
    if Pt is None or Q is None:
        return F12_ONE
    f = F12_ONE
    T = Q
    for bit in bin(X_ABS)[3:]:
        xx = f2_mul(T[0], T[0])
        lam = f2_mul(f2_add(f2_add(xx, xx), xx), f2_inv(f2_add(T[1], T[1])))
        f = f12_mul(f12_mul(f, f), _line(T, lam, Pt))
        T = E2.add(T, T)
        if bit == "1":
            lam = f2_mul(f2_sub(Q[1], T[1]), f2_inv(f2_sub(Q[0], T[0])))
            f = f12_mul(f, _line(T, lam, Pt))
            T = E2.add(T, Q)
    return f


_FINAL_EXP = (P ** 12 - 1) // R


def final_exp(f):
    return f12_pow(f, _FINAL_EXP)


def bls12381millerloop(a, b):
    return ("ml", miller_loop(_g1(a), _g2(b)))


def _ml(v):
    if not (isinstance(v, tuple) and len(v) == 2 and v[0] == "ml" and isinstance(v[1], tuple)):
        raise Unsupported("opaque Miller-loop constant")
    return v[1]


def bls12381mulmlresult(a, b):
    return ("ml", f12_mul(_ml(a), _ml(b)))


def bls12381finalverify(a, b):
    # e1 == e2  <=>  (a * b^-1)^((p^12-1)/r) == 1
    return final_exp(f12_mul(_ml(a), _poly_inv(_ml(b)))) == F12_ONE


# ----------------------------------------------------------------- self check

G1_GEN = bytes.fromhex("97f1d3a73197d7942695638c4fa9ac0fc3688c4f9774b905a14e3a3f171bac58"
                       "6c55e83ff97a1aeffb3af00adb22c6bb")
G2_GEN = bytes.fromhex(
    "93e02b6052719f607dacd3a088274f65596bd0d09920b61ab5da61bbdc7f5049334cf11213945d57e5ac7d055d042b7e"
    "024aa2b2f08f0a91260805272dc51051c6e47ad4fa403b02b4510b647ae3d1770bac0326a805bbefd48056c8c121bdb8")


def _selfcheck():
    """bilinearity / non-degeneracy of the pairing and group-law sanity; a few seconds"""
    g1, g2 = g1_decode(G1_GEN), g2_decode(G2_GEN)
    assert E1.on_curve(g1) and E2.on_curve(g2)
    a, b = 5, 7
    lhs = bls12381millerloop(g1_encode(E1.mul(a, g1)), g2_encode(E2.mul(b, g2)))
    rhs = bls12381millerloop(g1_encode(E1.mul(a * b, g1)), G2_GEN)
    assert bls12381finalverify(lhs, rhs)
    assert not bls12381finalverify(lhs, bls12381millerloop(G1_GEN, G2_GEN))
    two = bls12381mulmlresult(bls12381millerloop(G1_GEN, G2_GEN), bls12381millerloop(G1_GEN, G2_GEN))
    assert bls12381finalverify(two, bls12381millerloop(g1_encode(E1.mul(2, g1)), G2_GEN))
    assert final_exp(miller_loop(g1, g2)) != F12_ONE
    return True


if __name__ == "__main__":
    import time
    t = time.time()
    print("selfcheck", _selfcheck(), "%.1fs" % (time.time() - t))
