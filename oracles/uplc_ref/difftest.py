#!/usr/bin/env python3
"""Differential test: this oracle vs the Rust evaluator (through /verif/target/release/uplc-run).

  python3 /verif/oracles/uplc_ref/difftest.py [-n N] [-j J] [--seed S] [--only NAME,..]
                                               [--configs v3:11,v2:11,..] [--out FILE]

For every builtin a few thousand boundary-biased saturated applications are generated
(0, +-1, 2^63+-1, 2^64+-1, 2^127, 2^128+-1, huge; byte strings of length
0/1/8/9/31/32/33/64/65; indices at -1, 0, len-1, len, 8*len-1, 8*len; invalid UTF-8;
every Data shape; wrong-typed arguments; unsaturated / over-forced applications) plus a
family of pure machine terms (closures, constr/case, case on constants, partial
builtins, discharge under binders).  Every disagreement is reported:
    value-vs-value, ok-vs-fail, fail-vs-ok, panic, and step/cost accounting.
The run is deterministic for a given seed.  Exit status 0 = no disagreement.
"""
import argparse
import collections
import hashlib
import json
import multiprocessing
import os
import subprocess
import sys

if __package__ in (None, ""):
    sys.path.insert(0, os.path.dirname(os.path.dirname(os.path.abspath(__file__))))
    __package__ = "uplc_ref"

from . import term as T                                   # noqa: E402
from . import cek                                         # noqa: E402
from . import builtins as B                               # noqa: E402
from . import variant_for                                 # noqa: E402

DRIVER = os.environ.get("UPLC_RUN", "/verif/target/release/uplc-run")
# large enough for linear-in-n costs, small enough that `budget - remaining` in the driver cannot
# overflow i64 even when a cost saturates at i64::MAX
BIG_BUDGET = [4_000_000_000_000_000_000, 4_000_000_000_000_000_000]
STEP_CPU, STEP_MEM, START_CPU, START_MEM = 16000, 100, 100, 100


class Rng:
    """splitmix64 (same generator as /verif/oracles/common.py; duplicated so that this
    package stays importable on its own)."""

    def __init__(self, seed, stream=0):
        self.s = (seed ^ (stream * 0x9E3779B97F4A7C15) ^ 0xD1B54A32D192ED03) & 0xFFFFFFFFFFFFFFFF
        self.next()
        self.next()

    def next(self):
        self.s = (self.s + 0x9E3779B97F4A7C15) & 0xFFFFFFFFFFFFFFFF
        z = self.s
        z = ((z ^ (z >> 30)) * 0xBF58476D1CE4E5B9) & 0xFFFFFFFFFFFFFFFF
        z = ((z ^ (z >> 27)) * 0x94D049BB133111EB) & 0xFFFFFFFFFFFFFFFF
        return z ^ (z >> 31)

    def below(self, n):
        return self.next() % n if n > 0 else 0

    def chance(self, num, den):
        return self.below(den) < num

    def pick(self, xs):
        return xs[self.below(len(xs))]

    def range(self, lo, hi):
        return lo + self.below(hi - lo + 1)

    def bytes(self, n):
        out = bytearray()
        while len(out) < n:
            out += self.next().to_bytes(8, "little")
        return bytes(out[:n])


# ----------------------------------------------------------------- value generators

BOUNDARY_INTS = [0, 1, -1, 2, 7, 8, 9, 31, 32, 33, 63, 64, 65, 127, 128, 255, 256, -128, -255, -256,
                 8191, 8192, 8193, 65535, 65536,
                 (1 << 31) - 1, 1 << 31, (1 << 32) - 1, 1 << 32, (1 << 32) + 1,
                 (1 << 63) - 1, 1 << 63, (1 << 63) + 1, -(1 << 63), -(1 << 63) - 1, -(1 << 63) + 1,
                 (1 << 64) - 1, 1 << 64, (1 << 64) + 1, -(1 << 64), -(1 << 64) - 1, -(1 << 64) + 1,
                 1 << 127, (1 << 127) - 1, -(1 << 127), -(1 << 127) - 1,
                 (1 << 128) - 1, 1 << 128, (1 << 128) + 1, -(1 << 128), -(1 << 128) - 1,
                 10 ** 40, -(10 ** 40), (1 << 256) - 1, 1 << 512, -(1 << 521) + 1]
BYTE_LENS = [0, 1, 2, 3, 7, 8, 9, 15, 16, 17, 31, 32, 33, 63, 64, 65, 100, 129]
STRINGS = ["", "a", "abc", "é", "λ-calculus", "日本語", "\U0001F600", "\u0000",
           "x∈ℝ", "a" * 64, "é" * 33, "\U0001F600" * 9, "tab\there", "q\"uote\\",
           "﻿", "￿", "\U0010ffff", "ab́"]
BAD_UTF8 = [b"\xc3\x28", b"\xff", b"\xe2\x82", b"\xf0\x9f\x98", b"\xed\xa0\x80", b"\xc0\x80",
            b"\xf4\x90\x80\x80", b"\x80", b"abc\xfe", b"\xe0\x80\x80", b"\xf8\x88\x80\x80\x80",
            b"\xed\xbf\xbf", b"\xf0\x80\x80\x80"]


def gen_int(r, around=None):
    k = r.below(10)
    if around is not None and k < 5:
        return r.pick(around)
    if k < 6:
        return r.pick(BOUNDARY_INTS)
    if k < 8:
        return r.range(-20, 300)
    if k == 8:
        return r.pick(BOUNDARY_INTS) + r.range(-2, 2)
    bits = r.pick([16, 40, 64, 65, 100, 200, 700])
    v = int.from_bytes(r.bytes((bits + 7) // 8), "big") >> ((-bits) % 8)
    return -v if r.chance(1, 2) else v


def gen_bytes(r, lens=BYTE_LENS):
    n = r.pick(lens)
    k = r.below(6)
    if k == 0:
        return bytes(n)
    if k == 1:
        return b"\xff" * n
    if k == 2 and n:
        b = bytearray(n)
        b[r.below(n)] = 1 << r.below(8)
        return bytes(b)
    if k == 3 and n:
        return bytes(n - 1) + b"\x01"
    return r.bytes(n)


def gen_string(r):
    if r.chance(1, 6):
        return "".join(r.pick(STRINGS) for _ in range(r.range(0, 3)))
    return r.pick(STRINGS)


def gen_data(r, depth=0):
    """random Data; sometimes with explicit CBOR-encoding hints ("indef" on c/l/m, "enc": "big"
    on integers) which the harness honours when building the Rust value.  They must not matter:
    Data is an abstract value (equalsData, serialiseData re-encodes canonically)."""
    k = r.below(10 if depth < 3 else 4)
    if k < 2:
        d = {"i": str(gen_int(r))}
        if r.chance(1, 4):
            d["enc"] = "big"
        return d
    if k < 4:
        return {"b": gen_bytes(r).hex()}
    if k < 6:
        tag = r.pick([0, 1, 2, 6, 7, 8, 127, 128, 129, 1000, (1 << 32), (1 << 63), (1 << 64) - 1])
        d = {"c": str(tag), "f": [gen_data(r, depth + 1) for _ in range(r.pick([0, 0, 1, 2, 3]))]}
    elif k < 8:
        d = {"l": [gen_data(r, depth + 1) for _ in range(r.pick([0, 0, 1, 2, 4]))]}
    else:
        kvs = [[gen_data(r, depth + 1), gen_data(r, depth + 1)] for _ in range(r.pick([0, 1, 2, 3]))]
        if kvs and r.chance(1, 4):
            kvs.append([kvs[0][0], gen_data(r, depth + 1)])     # duplicate key
        d = {"m": kvs}
    if r.chance(1, 3):
        d["indef"] = r.chance(1, 2)
    return d


def reencode(r, d):
    """same Data value, different encoding hints"""
    if "i" in d:
        out = {"i": d["i"]}
        if r.chance(1, 2):
            out["enc"] = "big"
        return out
    if "b" in d:
        return dict(d)
    if "f" in d:
        out = {"c": d["c"], "f": [reencode(r, x) for x in d["f"]]}
    elif "l" in d:
        out = {"l": [reencode(r, x) for x in d["l"]]}
    else:
        out = {"m": [[reencode(r, k), reencode(r, v)] for k, v in d["m"]]}
    if r.chance(2, 3):
        out["indef"] = r.chance(1, 2)
    return out


G1_ZERO = "c0" + "00" * 47
G2_ZERO = "c0" + "00" * 95
G1_GEN = ("97f1d3a73197d7942695638c4fa9ac0fc3688c4f9774b905a14e3a3f171bac58"
          "6c55e83ff97a1aeffb3af00adb22c6bb")
G2_GEN = ("93e02b6052719f607dacd3a088274f65596bd0d09920b61ab5da61bbdc7f5049334cf11213945d57e5ac7d055d042b7e"
          "024aa2b2f08f0a91260805272dc51051c6e47ad4fa403b02b4510b647ae3d1770bac0326a805bbefd48056c8c121bdb8")

SIMPLE = ("integer", "bytestring", "string", "unit", "bool", "data")
SCALARS = [0, 1, 2, 3, 5, 7, -1, -2, 1 << 64, 255]


def _bls():
    from . import bls
    return bls


def gen_g1(r, k=None):
    """hex of a random G1 element: k * generator (k small so that products stay related)"""
    bls = _bls()
    k = r.pick(SCALARS + [bls.R, bls.R - 1, bls.R + 1]) if k is None else k
    if r.chance(1, 8) and k is None:
        k = int.from_bytes(r.bytes(32), "big")
    return bls.g1_encode(bls.E1.mul(k % bls.R, bls.g1_decode(bls.G1_GEN))).hex()


def gen_g2(r, k=None):
    bls = _bls()
    k = r.pick(SCALARS + [bls.R, bls.R - 1, bls.R + 1]) if k is None else k
    return bls.g2_encode(bls.E2.mul(k % bls.R, bls.g2_decode(bls.G2_GEN))).hex()


def ml_term(r, a=None, b=None):
    return ["app", ["app", ["builtin", "bls12_381_MillerLoop"], con("g1", gen_g1(r, a))], con("g2", gen_g2(r, b))]


def gen_type(r, depth=0):
    k = r.below(10 if depth < 2 else 6)
    if k < 6:
        return SIMPLE[k]
    if k < 8:
        return ["list", gen_type(r, depth + 1)]
    return ["pair", gen_type(r, depth + 1), gen_type(r, depth + 1)]


def gen_value(r, ty):
    if ty == "integer":
        return str(gen_int(r))
    if ty == "bytestring":
        return gen_bytes(r).hex()
    if ty == "string":
        return gen_string(r)
    if ty == "unit":
        return None
    if ty == "bool":
        return r.chance(1, 2)
    if ty == "data":
        return gen_data(r)
    if ty == "g1":
        return gen_g1(r)
    if ty == "g2":
        return gen_g2(r)
    if ty[0] == "list":
        return [gen_value(r, ty[1]) for _ in range(r.pick([0, 0, 1, 2, 3, 5]))]
    return [gen_value(r, ty[1]), gen_value(r, ty[2])]


def con(ty, v):
    return ["con", ty, v]


def gen_con(r, ty=None):
    ty = ty if ty is not None else gen_type(r)
    return con(ty, gen_value(r, ty))


def jtype(t):
    return T.type_to_json(t) if not isinstance(t, str) else t


NONCONST = [["lam", ["var", 1]], ["delay", ["error"]], ["delay", ["con", "integer", "1"]],
            ["builtin", "addInteger"], ["constr", 0, []], ["constr", 1, [["con", "integer", "7"]]],
            ["force", ["builtin", "ifThenElse"]], ["lam", ["lam", ["var", 2]]],
            ["app", ["builtin", "addInteger"], ["con", "integer", "1"]]]


def gen_any_term(r):
    return r.pick(NONCONST) if r.chance(1, 3) else gen_con(r)


# ----------------------------------------------------------------- signatures (valid inputs)

def ed25519_sign(sk32, msg):
    h = hashlib.sha512(sk32).digest()
    a = int.from_bytes(h[:32], "little") & ((1 << 254) - 8) | (1 << 254)
    A = B._ed_encode(B._ed_mul(a, B._ED_B))
    rr = int.from_bytes(hashlib.sha512(h[32:] + msg).digest(), "little") % B._L25519
    R = B._ed_encode(B._ed_mul(rr, B._ED_B))
    k = int.from_bytes(hashlib.sha512(R + A + msg).digest(), "little") % B._L25519
    return A, R + ((rr + k * a) % B._L25519).to_bytes(32, "little")


def secp_pub(d):
    P = B._s_mul(d, B._SG)
    return P


def ecdsa_sign(d, msg32, k):
    R = B._s_mul(k, B._SG)
    rr = R[0] % B._SN
    s = pow(k, B._SN - 2, B._SN) * (int.from_bytes(msg32, "big") + rr * d) % B._SN
    return rr, s


def schnorr_sign(d, msg, aux):
    P = B._s_mul(d, B._SG)
    if P[1] & 1:
        d = B._SN - d
    px = P[0].to_bytes(32, "big")
    t = (d ^ int.from_bytes(B._tagged_hash(b"BIP0340/aux", aux), "big")).to_bytes(32, "big")
    k = int.from_bytes(B._tagged_hash(b"BIP0340/nonce", t + px + msg), "big") % B._SN
    R = B._s_mul(k, B._SG)
    if R[1] & 1:
        k = B._SN - k
    rx = R[0].to_bytes(32, "big")
    e = int.from_bytes(B._tagged_hash(b"BIP0340/challenge", rx + px + msg), "big") % B._SN
    return px, rx + ((k + e * d) % B._SN).to_bytes(32, "big")


def _mutate(r, bs):
    k = r.below(8)
    if k == 0 and bs:
        b = bytearray(bs)
        b[r.below(len(b))] ^= 1 << r.below(8)
        return bytes(b)
    if k == 1:
        return bs[:-1]
    if k == 2:
        return bs + b"\x00"
    if k == 3:
        return bytes(len(bs))
    if k == 4:
        return b"\xff" * len(bs)
    if k == 5:
        return b""
    return bs


def gen_sig_args(r, name):
    """[vk, msg, sig] as bytes; mostly valid, then mutated"""
    if name == "verifyEd25519Signature":
        msg = gen_bytes(r)
        vk, sig = ed25519_sign(r.bytes(32), msg)
        k = r.below(12)
        if k == 0:      # non-canonical s: s + L
            s = int.from_bytes(sig[32:], "little") + B._L25519
            if s < 1 << 256:
                sig = sig[:32] + s.to_bytes(32, "little")
        elif k == 1:    # small-order public key
            vk = r.pick([bytes([1]) + bytes(31), bytes(32), bytes([0xEC]) + b"\xff" * 30 + b"\x7f",
                         bytes.fromhex("26e8958fc2b227b045c3f489f2ef98f0d5dfac05d3c63339b13802886d53fc05"),
                         bytes.fromhex("c7176a703d4dd84fba3c0b760d10670f2a2053fa2c39ccc64ec7fd7792ac037a")])
        elif k == 2:    # small-order R
            sig = r.pick([bytes([1]) + bytes(31), bytes(32)]) + sig[32:]
        elif k == 3:    # non-canonical key encoding (y >= p)
            vk = r.pick([b"\xed" + b"\xff" * 30 + b"\x7f", b"\xee" + b"\xff" * 30 + b"\x7f",
                         b"\xff" * 32, b"\xf0" + b"\xff" * 30 + b"\x7f"])
    elif name == "verifyEcdsaSecp256k1Signature":
        msg = hashlib.sha256(gen_bytes(r)).digest()
        d = int.from_bytes(r.bytes(32), "big") % (B._SN - 1) + 1
        P = secp_pub(d)
        vk = bytes([2 + (P[1] & 1)]) + P[0].to_bytes(32, "big")
        rr, s = ecdsa_sign(d, msg, int.from_bytes(r.bytes(32), "big") % (B._SN - 1) + 1)
        if s > B._SN // 2:
            s = B._SN - s
        k = r.below(14)
        if k == 0:
            s = B._SN - s                       # high-s
        elif k == 1:
            s = 0
        elif k == 2:
            rr = 0
        elif k == 3:
            s = B._SN                           # scalar overflow
        elif k == 4:
            rr = r.pick([B._SN, B._SN + 1, (1 << 256) - 1])
        elif k == 5:
            vk = bytes([r.pick([0, 1, 4, 5, 6, 7])]) + vk[1:]
        elif k == 6:
            vk = bytes([2]) + r.pick([B._SP, B._SP + 1, (1 << 256) - 1, 5, 0]).to_bytes(32, "big")
        elif k == 7:
            vk = b"\x04" + P[0].to_bytes(32, "big") + P[1].to_bytes(32, "big")  # uncompressed
        elif k == 8:
            vk = bytes([vk[0] ^ 1]) + vk[1:]   # other y
        sig = (rr % (1 << 256)).to_bytes(32, "big") + (s % (1 << 256)).to_bytes(32, "big")
    else:
        msg = gen_bytes(r)
        d = int.from_bytes(r.bytes(32), "big") % (B._SN - 1) + 1
        vk, sig = schnorr_sign(d, msg, r.bytes(32))
        k = r.below(12)
        if k == 0:
            vk = r.pick([B._SP, B._SP + 1, (1 << 256) - 1, 5, 0]).to_bytes(32, "big")
        elif k == 1:
            sig = sig[:32] + r.pick([B._SN, B._SN + 5, (1 << 256) - 1]).to_bytes(32, "big")
        elif k == 2:
            sig = r.pick([B._SP, (1 << 256) - 1]).to_bytes(32, "big") + sig[32:]
    args = [vk, msg, sig]
    if r.chance(1, 3):
        i = r.below(3)
        args[i] = _mutate(r, args[i])
    return args


# ----------------------------------------------------------------- per-builtin argument generation

def gen_args(r, b):
    """list of argument *terms* for a saturated application of builtin b"""
    name = b.name
    if name.startswith("verify"):
        return [con("bytestring", x.hex()) for x in gen_sig_args(r, name)]
    if name in ("indexByteString", "readBit"):
        bs = gen_bytes(r)
        n = len(bs)
        around = [-1, 0, 1, n - 1, n, n + 1, 8 * n - 1, 8 * n, 8 * n + 1, 7, 8]
        return [con("bytestring", bs.hex()), con("integer", str(gen_int(r, around)))]
    if name == "sliceByteString":
        bs = gen_bytes(r)
        n = len(bs)
        around = [-1, 0, 1, n - 1, n, n + 1, n // 2]
        return [con("integer", str(gen_int(r, around))), con("integer", str(gen_int(r, around))),
                con("bytestring", bs.hex())]
    if name == "writeBits":
        bs = gen_bytes(r)
        n = len(bs)
        around = [-1, 0, 1, 8 * n - 1, 8 * n, 7, 8, 4 * n]
        idxs = [str(gen_int(r, around)) for _ in range(r.pick([0, 1, 1, 2, 3, 6]))]
        return [con("bytestring", bs.hex()), con(["list", "integer"], idxs), con("bool", r.chance(1, 2))]
    if name in ("shiftByteString", "rotateByteString"):
        bs = gen_bytes(r)
        n = len(bs)
        around = [-1, 0, 1, 8 * n - 1, 8 * n, 8 * n + 1, -8 * n, -8 * n + 1, -8 * n - 1, 7, 8, 9, -8, 16 * n + 3]
        return [con("bytestring", bs.hex()), con("integer", str(gen_int(r, around)))]
    if name == "integerToByteString":
        v = gen_int(r)
        if r.chance(3, 4):
            v = abs(v)
        need = (abs(v).bit_length() + 7) // 8
        around = [0, need - 1, need, need + 1, 8192, 8193, -1, 1]
        if r.chance(1, 8):
            v = r.pick([(1 << 65536) - 1, 1 << 65536, (1 << 65535), 1 << 65528, (1 << 65528) - 1])
        return [con("bool", r.chance(1, 2)), con("integer", str(gen_int(r, around))), con("integer", str(v))]
    if name == "replicateByte":
        return [con("integer", str(gen_int(r, [0, 1, 8191, 8192, 8193, -1, 64]))),
                con("integer", str(gen_int(r, [0, 255, 256, -1, 127, 128])))]
    if name == "expModInteger":
        m = gen_int(r, [1, 2, 3, 7, 12, 97, 0, -1, (1 << 64) - 59, 1 << 64, 10 ** 9 + 7])
        e = gen_int(r, [0, 1, -1, -2, 2, 10, 65537])
        if abs(e) > 1 << 70:
            e = e % (1 << 70)          # keep pow() cheap for both sides
        return [con("integer", str(gen_int(r))), con("integer", str(e)), con("integer", str(m))]
    if name == "dropList":
        ty = gen_type(r, 1)
        xs = [gen_value(r, ty) for _ in range(r.pick([0, 1, 2, 5, 9]))]
        around = [-1, 0, 1, len(xs) - 1, len(xs), len(xs) + 1]
        n = gen_int(r, around)
        if abs(n) > 1 << 40 and r.chance(3, 4):
            n = r.range(-3, 12)         # cost is linear in n: keep most cases cheap
        return [con("integer", str(n)), con(["list", ty], xs)]
    if name == "decodeUtf8":
        k = r.below(4)
        if k == 0:
            bs = r.pick(BAD_UTF8)
        elif k == 1:
            bs = gen_string(r).encode() + r.pick(BAD_UTF8) + gen_string(r).encode()
        elif k == 2:
            bs = gen_bytes(r)
        else:
            bs = gen_string(r).encode()
        return [con("bytestring", bs.hex())]
    if name == "mkCons":
        ty = gen_type(r, 1)
        xs = [gen_value(r, ty) for _ in range(r.pick([0, 1, 3]))]
        hd = gen_con(r, ty) if r.chance(3, 4) else gen_any_term(r)
        return [hd, con(["list", ty], xs)]
    if name in ("equalsData",):
        d = gen_data(r)
        k = r.below(4)
        return [con("data", d), con("data", d if k == 0 else reencode(r, d) if k < 3 else gen_data(r))]
    if name in ("equalsByteString", "lessThanByteString", "lessThanEqualsByteString"):
        a = gen_bytes(r)
        k = r.below(4)
        b2 = a if k == 0 else a + b"\x00" if k == 1 else a[:-1] if k == 2 else gen_bytes(r)
        return [con("bytestring", a.hex()), con("bytestring", b2.hex())]
    if name in ("equalsString",):
        a = gen_string(r)
        return [con("string", a), con("string", a if r.chance(1, 2) else gen_string(r))]
    if name in ("equalsInteger", "lessThanInteger", "lessThanEqualsInteger"):
        a = gen_int(r)
        return [con("integer", str(a)), con("integer", str(gen_int(r, [a, a + 1, a - 1, -a])))]
    if name == "bls12_381_finalVerify":
        a, c = r.pick([1, 2, 3, 5]), r.pick([1, 2, 3, 7])
        k = r.below(4)
        if k == 0:      # e(aP, cQ) == e(acP, Q)
            return [ml_term(r, a, c), ml_term(r, a * c, 1)]
        if k == 1:      # e(aP,Q) * e(cP,Q) == e((a+c)P, Q)
            return [["app", ["app", ["builtin", "bls12_381_MulMlResult"], ml_term(r, a, 1)], ml_term(r, c, 1)],
                    ml_term(r, 1, a + c)]
        if k == 2:
            return [ml_term(r, a, c), ml_term(r, c, a + 1)]
        return [ml_term(r), ml_term(r)]
    if name.endswith("_multiScalarMul"):
        g = "g1" if "G1" in name else "g2"
        n1, n2 = r.pick([0, 1, 2, 3]), r.pick([0, 1, 2, 3])
        ks = [gen_int(r, SCALARS + [(1 << 4095) - 1, 1 << 4095, -(1 << 4095), -(1 << 4095) - 1]) for _ in range(n1)]
        return [con(["list", "integer"], [str(k) for k in ks]), con(["list", g], [gen_value(r, g) for _ in range(n2)])]
    if name.endswith("_hashToGroup"):
        return [con("bytestring", gen_bytes(r).hex()), con("bytestring", gen_bytes(r, [0, 1, 16, 255, 256, 300]).hex())]
    if name.endswith("_uncompress"):
        n = 48 if "G1" in name else 96
        k = r.below(6)
        if k == 0:
            bs = bytes.fromhex(G1_ZERO if n == 48 else G2_ZERO)
        elif k == 1:
            bs = bytearray.fromhex(gen_g1(r) if n == 48 else gen_g2(r))
            j = r.below(6)
            if j == 0:
                bs[0] ^= 0x20          # other sign: still a valid point (-P)
            elif j == 1:
                bs[0] &= 0x7F          # compression flag cleared
            elif j == 2:
                bs[0] |= 0x40          # infinity flag on a non-zero point
            elif j == 3:
                bs[r.below(n)] ^= 1 << r.below(8)     # random x: ~half off-curve, rest not in subgroup
            bs = bytes(bs)
        elif k == 2:
            bs = gen_bytes(r, [n - 1, n + 1, 0, 2 * n])
        elif k == 3:
            bs = bytes([r.pick([0x00, 0x40, 0x80, 0xA0, 0xC0, 0xE0, 0x20, 0x60])]) + bytes(n - 1)
        else:
            z = bytearray.fromhex(G1_ZERO if n == 48 else G2_ZERO)
            z[r.below(n)] |= 1 << r.below(5)
            bs = bytes(z)
        return [con("bytestring", bs.hex())]
    args = []
    for t in b.argtypes:
        if t == "*" or t == "a" or t == "b":
            args.append(gen_any_term(r))
        elif t == "ml":
            args.append(ml_term(r))
        elif isinstance(t, str):
            args.append(gen_con(r, t))
        elif "a" in t or "b" in t:
            # polymorphic list / pair
            if t[0] == "list":
                ety = gen_type(r, 1)
                args.append(gen_con(r, ["list", ety]))
            else:
                args.append(gen_con(r, ["pair", gen_type(r, 1), gen_type(r, 1)]))
        else:
            args.append(gen_con(r, jtype(t)))
    return args


def apply_builtin(b, args, forces=None):
    t = ["builtin", b.hname]
    for _ in range(b.forces if forces is None else forces):
        t = ["force", t]
    for a in args:
        t = ["app", t, a]
    return t


def gen_builtin_case(r, b):
    """one test term exercising builtin b"""
    args = gen_args(r, b)
    k = r.below(40)
    if k == 0:                       # wrong-typed constant in a random position
        args[r.below(len(args))] = gen_con(r)
    elif k == 7:                     # list/pair argument of the wrong element type (often empty)
        for i, t in enumerate(b.argtypes):
            if not isinstance(t, str):
                ty = gen_type(r, 1)
                args[i] = con(["list", ty], [] if r.chance(2, 3) else [gen_value(r, ty)]) if t[0] == "list" \
                    else gen_con(r, ["pair", ty, gen_type(r, 1)])
                break
    elif k == 1:                     # non-constant argument
        args[r.below(len(args))] = r.pick(NONCONST)
    elif k == 2:                     # unsaturated
        return apply_builtin(b, args[:r.below(len(args) + 1)][:len(args) - 1])
    elif k == 3:                     # wrong number of forces
        return apply_builtin(b, args, r.pick([0, 1, 2, 3]))
    elif k == 4:                     # over-application
        return ["app", apply_builtin(b, args), gen_any_term(r)]
    elif k == 5:                     # force interleaved after an argument
        t = ["builtin", b.hname]
        for _ in range(b.forces):
            t = ["force", t]
        t = ["app", t, args[0]]
        t = ["force", t]
        for a in args[1:]:
            t = ["app", t, a]
        return t
    elif k == 6:                     # result passed on (exercises discharge of results in closures)
        # (capture under constr/case is exercised by the "machine" family only, so that the
        # known discharge defect does not show up once per builtin)
        return ["app", ["lam", ["delay", ["lam", ["app", ["var", 1], ["var", 2]]]]], apply_builtin(b, args)]
    return apply_builtin(b, args)


# ----------------------------------------------------------------- machine-level terms

SMALL_BUILTINS = ["addInteger", "ifThenElse", "headList", "tailList", "fstPair", "chooseList", "trace",
                  "mkCons", "equalsInteger", "nullList", "chooseUnit", "iData", "unIData", "sndPair"]


def gen_machine_term(r, depth, scope):
    """random closed term: every variable index is bound (sometimes deliberately not)"""
    k = r.below(22) if depth > 0 else r.below(6)
    if k < 2:
        if scope and not r.chance(1, 40):
            return ["var", r.range(1, scope)]
        if r.chance(1, 20):
            return ["var", scope + r.range(0, 2)]        # open term (index 0 when scope==0, or beyond)
        return con("integer", str(r.range(0, 3)))
    if k == 2:
        return con("integer", str(r.pick([0, 1, 2, 3, -1, 1 << 64])))
    if k == 3:
        return r.pick([con("bool", True), con("bool", False), con("unit", None),
                       con(["list", "integer"], ["1", "2", "3"]), con(["list", "integer"], []),
                       con(["pair", "integer", "bool"], ["42", False]), con("bytestring", "00ff"),
                       con("string", "s"), con("data", {"i": "1"}),
                       con(["list", ["pair", "integer", "unit"]], [["1", None]])])
    if k == 4:
        t = ["builtin", r.pick(SMALL_BUILTINS)]
        return t
    if k == 5:
        return ["error"] if r.chance(1, 4) else con("integer", "5")
    d = depth - 1
    if k < 9:
        return ["lam", gen_machine_term(r, d, scope + 1)]
    if k < 13:
        return ["app", gen_machine_term(r, d, scope), gen_machine_term(r, d, scope)]
    if k < 15:
        return ["delay", gen_machine_term(r, d, scope)]
    if k < 17:
        return ["force", gen_machine_term(r, d, scope)]
    if k < 19:
        tag = r.pick([0, 0, 1, 1, 2, 3, (1 << 64) - 1])
        return ["constr", tag, [gen_machine_term(r, d, scope) for _ in range(r.pick([0, 1, 2, 3]))]]
    if k < 21:
        return ["case", gen_machine_term(r, d, scope),
                [gen_machine_term(r, d, scope) for _ in range(r.pick([0, 1, 2, 2, 3]))]]
    # redex that is likely to succeed: ((lam body) arg)
    return ["app", ["lam", gen_machine_term(r, d, scope + 1)], gen_machine_term(r, d, scope)]


def gen_machine_case(r):
    k = r.below(10)
    if k == 0:
        # closure captured under constr/case/lam/delay: discharge must substitute
        inner = r.pick([["constr", 0, [["var", 1]]], ["case", ["var", 1], [["var", 2], ["lam", ["var", 2]]]],
                        ["lam", ["constr", 1, [["var", 2], ["var", 1]]]],
                        ["delay", ["case", ["constr", 0, [["var", 1]]], [["lam", ["var", 2]]]]],
                        ["app", ["var", 1], ["var", 2]]])
        wrap = r.pick(["delay", "lam"])
        body = [wrap, inner]
        arg = gen_machine_term(r, 2, 0)
        return ["app", ["lam", ["app", ["lam", body], arg]], gen_machine_term(r, 2, 0)]
    if k == 1:
        # case on constants
        scrut = r.pick([con("bool", True), con("bool", False), con("unit", None), con("integer", "0"),
                        con("integer", "1"), con("integer", "2"), con("integer", "-1"),
                        con("integer", str(1 << 64)), con(["list", "integer"], []),
                        con(["list", "integer"], ["7", "8"]), con(["pair", "integer", "bool"], ["1", True]),
                        con("bytestring", ""), con("string", ""), con("data", {"i": "0"}),
                        con("data", {"c": "0", "f": []}), con(["list", "data"], [{"i": "1"}]),
                        con(["pair", "data", "data"], [{"i": "1"}, {"b": ""}])])
        brs = [r.pick([con("integer", "10"), ["lam", ["var", 1]], ["lam", ["lam", ["var", 2]]],
                       ["lam", ["lam", ["var", 1]]], ["lam", ["lam", ["lam", ["var", 1]]]], ["error"]])
               for _ in range(r.pick([0, 1, 2, 2, 3]))]
        return ["case", scrut, brs]
    if k == 2:
        # partial builtin applications surviving into the result
        b = B.lookup(r.pick(SMALL_BUILTINS))
        args = gen_args(r, b)
        n = r.below(len(args) + 1)
        t = apply_builtin(b, args[:n], r.range(0, b.forces))
        return r.pick([t, ["lam", t], ["constr", 0, [t]], ["delay", t]])
    return gen_machine_term(r, r.range(2, 6), 0)


# ----------------------------------------------------------------- running both sides

def run_driver(jobs):
    """jobs: list of dict; returns dict id -> result"""
    p = subprocess.Popen([DRIVER], stdin=subprocess.PIPE, stdout=subprocess.PIPE, stderr=subprocess.DEVNULL)
    data = "".join(json.dumps(j) + "\n" for j in jobs).encode()
    out, _ = p.communicate(data)
    res = {}
    for line in out.splitlines():
        try:
            j = json.loads(line)
        except ValueError:
            continue
        res[j.get("id")] = j
    return res


def classify(term, lang, pv, rust):
    """-> (kind, detail) or None when both sides agree"""
    variant = variant_for(lang, pv)
    mine = cek.evaluate_verdict(term, variant=variant, fuel=200_000, calls_as_json=False, keep_value=True)
    if rust is None:
        return ("driver-no-answer", "")
    if "panic" in rust:
        if "src/bin/uplc-run.rs" in rust["panic"]:
            # panic inside the harness driver itself (not in the code under test)
            return ("driver-panic", rust["panic"][:200])
        return ("panic", "oracle=%s rust panic: %s" % (_verdict(mine), rust["panic"][:200]))
    if "inconclusive" in mine:
        if mine.get("kind") == "BadTerm":
            return ("oracle-badterm", mine["inconclusive"])
        return None
    if "ok" in rust:
        if "fail" in mine:
            return ("rust-ok/oracle-fail", "rust=%s oracle fail: %s" % (_s(rust["ok"]), mine["fail"]))
        if not T.term_json_equal(rust["ok"], mine["ok"]):
            if T.term_json_equal(rust["ok"], cek.discharge(mine["value"], _stop_at_constr_case=True)):
                return ("value-differs:KNOWN-discharge-stops-at-constr/case",
                        "rust=%s oracle=%s" % (_s(rust["ok"]), _s(mine["ok"])))
            return ("value-differs", "rust=%s oracle=%s" % (_s(rust["ok"]), _s(mine["ok"])))
        # accounting: cost = startup + steps*step_cost + sum(builtin costs)
        if "builtins" in rust and "cost" in rust:
            bc = sum(e["c"][0] for e in rust["builtins"])
            bm = sum(e["c"][1] for e in rust["builtins"])
            n = sum(mine["steps"].values())
            if rust["cost"][0] - bc - START_CPU != STEP_CPU * n or rust["cost"][1] - bm - START_MEM != STEP_MEM * n:
                return ("steps-differ", "oracle steps=%d rust cost=%s builtin cost=(%d,%d)" % (n, rust["cost"], bc, bm))
            rc = [e["f"] for e in rust["builtins"]]
            mc = [B.lookup(c[0]).hname for c in mine["calls"]]
            if rc != mc:
                return ("calls-differ", "rust=%s oracle=%s" % (rc, mc))
        # the repository treats a trace message starting with NUL as a "label" and strips the
        # NUL (machine.rs Trace::Label); documented in DISAGREEMENTS.md, normalised here
        mylogs = [l[1:] if l.startswith("\0") else l for l in mine.get("logs", [])]
        if rust.get("logs") is not None and list(rust["logs"]) != mylogs:
            return ("logs-differ", "rust=%s oracle=%s" % (_s(rust["logs"]), _s(mine.get("logs"))))
        return None
    if "err" in rust:
        if rust["err"] in ("OutOfExError",):
            return None      # budget exhaustion is not a semantic verdict
        if "ok" in mine:
            return ("rust-fail/oracle-ok", "rust err=%s oracle=%s" % (rust["err"], _s(mine["ok"])))
        return None
    return ("driver-error", _s(rust))


def _verdict(m):
    if "ok" in m:
        return "ok " + _s(m["ok"], 120)
    if "fail" in m:
        return "fail(" + m["fail"][:80] + ")"
    return "inconclusive"


def _s(j, n=240):
    s = json.dumps(j, ensure_ascii=True) if not isinstance(j, str) else j
    return s if len(s) <= n else s[:n] + "..."


SLOW = {"verifyEd25519Signature": 10, "verifyEcdsaSecp256k1Signature": 10, "verifySchnorrSecp256k1Signature": 10,
        "bls12_381_millerLoop": 40, "bls12_381_mulMlResult": 60, "bls12_381_finalVerify": 100}


def work(job):
    name, n, seed, configs = job
    r = Rng(seed, int.from_bytes(hashlib.sha256(name.encode()).digest()[:4], "big"))
    if name == "machine":
        terms = [gen_machine_case(r) for _ in range(n)]
    else:
        b = B.lookup(name)
        slow = SLOW.get(b.name, 8 if b.name.startswith("bls12_381") else 1)
        n = max(20, n // slow)
        terms = [gen_builtin_case(r, b) for _ in range(n)]
    jobs = []
    for i, t in enumerate(terms):
        lang, pv = configs[i % len(configs)] if i >= len(configs) * 0 else configs[0]
        jobs.append({"id": i, "op": "eval", "term": t, "version": [1, 1, 0], "lang": lang, "pv": pv,
                     "budget": BIG_BUDGET, "events": True})
    rust = run_driver(jobs)
    findings = []
    agree = 0
    for j in jobs:
        try:
            c = classify(j["term"], j["lang"], j["pv"], rust.get(j["id"]))
        except Exception as e:      # the oracle must never crash
            c = ("ORACLE-CRASH", "%s: %s" % (type(e).__name__, e))
        if c is None:
            agree += 1
        else:
            findings.append((name, c[0], "%s:%d" % (j["lang"], j["pv"]), c[1], j["term"]))
    return name, len(jobs), agree, findings


def check_signatures():
    """the (forces, arity) table written from the spec in builtins.py must equal what the
    repository reports through `uplc-run --list-builtins`; returns a list of mismatch strings"""
    out = subprocess.run([DRIVER, "--list-builtins"], capture_output=True, text=True).stdout
    rust = {}
    for line in out.splitlines():
        try:
            j = json.loads(line)
            rust[j["name"]] = j
        except (ValueError, KeyError):
            pass
    mine = {b.hname: b for b in B.BUILTINS.values()}
    bad = []
    for n in sorted(set(rust) | set(mine)):
        if n not in rust:
            bad.append("builtin %s: known to the oracle only" % n)
        elif n not in mine:
            bad.append("builtin %s: known to the repository only" % n)
        elif (mine[n].forces, mine[n].arity) != (rust[n]["forces"], rust[n]["arity"]):
            bad.append("builtin %s: oracle (forces=%d, arity=%d) repository (forces=%d, arity=%d)"
                       % (n, mine[n].forces, mine[n].arity, rust[n]["forces"], rust[n]["arity"]))
    return bad


def main(argv=None):
    ap = argparse.ArgumentParser()
    ap.add_argument("-n", type=int, default=2000, help="cases per builtin")
    ap.add_argument("-j", type=int, default=os.cpu_count() or 4)
    ap.add_argument("--seed", type=int, default=int(os.environ.get("VERIF_SEED", "0") or 0))
    ap.add_argument("--only", default=None)
    ap.add_argument("--configs", default="v3:11,v3:11,v2:11,v3:10,v2:9,v1:8")
    ap.add_argument("--out", default=None, help="write every finding as JSONL")
    ap.add_argument("--examples", type=int, default=3)
    a = ap.parse_args(argv)
    configs = [(c.split(":")[0], int(c.split(":")[1])) for c in a.configs.split(",")]
    names = [b.name for b in B.BUILTINS.values()] + ["machine"]
    if a.only:
        want = {T.norm_name(x) for x in a.only.split(",")}
        names = [n for n in names if T.norm_name(n) in want]
    if not os.path.exists(DRIVER):
        print("driver %s not found" % DRIVER)
        return 2
    sig_bad = check_signatures()
    for m in sig_bad:
        print("SIGNATURE MISMATCH " + m)
    if not sig_bad:
        print("builtin signature table: %d builtins, identical to --list-builtins" % len(B.BUILTINS))
    jobs = [(n, a.n * (5 if n == "machine" else 1), a.seed, configs) for n in names]
    with multiprocessing.Pool(a.j) as pool:
        results = pool.map(work, jobs, chunksize=1)
    total = agree = 0
    groups = collections.OrderedDict()
    allf = []
    for name, n, ok, findings in results:
        total += n
        agree += ok
        for f in findings:
            groups.setdefault((f[0], f[1]), []).append(f)
            allf.append(f)
    print("difftest: %d cases, %d agree, %d disagreements in %d groups (seed %d)"
          % (total, agree, len(allf), len(groups), a.seed))
    for (name, kind), fs in groups.items():
        cfgs = sorted({f[2] for f in fs})
        print("\n== %s / %s : %d cases (configs %s)" % (name, kind, len(fs), ",".join(cfgs)))
        fs = sorted(fs, key=lambda f: len(json.dumps(f[4])))
        for f in fs[:a.examples]:
            print("   [%s] %s\n      term: %s" % (f[2], f[3], _s(f[4], 400)))
    if a.out:
        with open(a.out, "w") as fh:
            for f in allf:
                fh.write(json.dumps({"builtin": f[0], "kind": f[1], "config": f[2], "detail": f[3], "term": f[4]}) + "\n")
    return 1 if (allf or sig_bad) else 0


if __name__ == "__main__":
    sys.exit(main())
