"""ExMemory size measures of constants (plutus-core `ExMemoryUsage`), the inputs of
the builtin costing functions.  Written from the specification's description of
argument sizes ("Cost accounting for built-in functions"):

  integer     number of 64-bit words of |n|; 0 counts as 1
  bytestring  ceil(len / 8); the empty string counts as 1  ( ((n-1) quot 8) + 1 )
  string      number of characters (Text length) -- see STRING NOTE
  bool, unit  1
  pair        1 + size a + size b      (CostRose 1 [a, b])
  list        sum of the element sizes; [] counts as 0
  data        4 per node + size of I / B payloads at the leaves (constructor tags free)
  G1 / G2 / MlResult   18 / 36 / 72 words (144 / 288 / 576 bytes in memory)

STRING NOTE.  Variants A, B, C measure a string by its number of characters.  For
variants D and E (protocol version 11) the repository switches to the UTF-8 byte
length divided by 4, rounded down (value.rs `utf8_text_to_ex_mem`); the V3 budget
goldens (variant E) exclude the character count: v3/builtin/semantics/appendString
("Ola" ++ " mundo!", budget residual = 1000 + 59957*1) needs size("Ola") + size(" mundo!")
= 1, i.e. 0 + 1 = floor(3/4) + floor(7/4), not 3 + 7 (selftest.check_string_measure).
No golden contains a multi-byte string in a costed position, so "bytes" vs "characters"
under the division by 4 is not pinned; bytes is what the O(1) measure of a UTF-8 backed
Text gives and what the repository does.  Recorded as "unsure" in DISAGREEMENTS.md.

No builtin in the current cost model is costed by the generic size of a list or a
pair (lists are costed by length or not at all), so the pair "+1" is unobservable.
"""


def integer_size(n):
    if n == 0:
        return 1
    return (abs(n).bit_length() - 1) // 64 + 1


def bytestring_size(b):
    n = len(b)
    return 1 if n == 0 else (n - 1) // 8 + 1


def string_size(s, variant="E"):
    if variant in ("D", "E"):
        return len(s.encode("utf-8", "surrogatepass")) // 4
    return len(s)


def data_size(d):
    total = 0
    stack = [d]
    while stack:
        x = stack.pop()
        total += 4
        k = x[0]
        if k == "i":
            total += integer_size(x[1])
        elif k == "b":
            total += bytestring_size(x[1])
        elif k == "c":
            stack.extend(x[2])
        elif k == "l":
            stack.extend(x[1])
        else:
            for kv in x[1]:
                stack.append(kv[0])
                stack.append(kv[1])
    return total


_FIXED = {"bool": 1, "unit": 1, "g1": 18, "g2": 36, "ml": 72}


def constant_size(ty, v, variant="E"):
    """size of a constant of internal type `ty` (see term.py) with python value `v`"""
    total = 0
    stack = [(ty, v)]
    while stack:
        t, x = stack.pop()
        if t == "integer":
            total += integer_size(x)
        elif t == "bytestring":
            total += bytestring_size(x)
        elif t == "string":
            total += string_size(x, variant)
        elif t == "data":
            total += data_size(x)
        elif t in _FIXED:
            total += _FIXED[t]
        elif t[0] == "list":
            et = t[1]
            for e in x:
                stack.append((et, e))
        else:
            total += 1
            stack.append((t[1], x[0]))
            stack.append((t[2], x[1]))
    return total


def value_size(v, variant="E"):
    """size of a CEK value (cek.py): non-constants count as 1"""
    if v[0] == 0:
        return constant_size(v[1], v[2], variant)
    return 1


# sizes used by "costed literally / by length" wrappers of the cost model
def integer_literal(n):
    """IntegerCostedLiterally: |n| itself (replicateByte count, dropList count, ...)"""
    return abs(n)


def list_length(xs):
    """ListCostedByLength (writeBits index list, multiScalarMul lists)"""
    return len(xs)
