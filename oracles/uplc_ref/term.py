"""Term / constant / Data representations and the textual-UPLC parser.

JSON tree format (shared with /verif/harness/src/tj.rs):
  term  := ["var", idx] | ["lam", term] | ["app", f, x] | ["delay", t] | ["force", t]
         | ["con", type, value] | ["builtin", name] | ["error"]
         | ["constr", tag, [term..]] | ["case", scrut, [term..]]
  de Bruijn indices are 1-based (1 = innermost binder).

Internal representations used by builtins.py / cek.py:
  type  : "integer" | "bytestring" | "string" | "unit" | "bool" | "data" | "g1" | "g2" | "ml"
          | ("list", T) | ("pair", A, B)                      (tuples: hashable, ==)
  value : int | bytes | str | None | bool | list-of-values (python list, never mutated)
          | (a, b) | Data | bytes (g1/g2 compressed) | opaque (ml)
  Data  : ("c", int, (Data..)) | ("m", ((k, v)..)) | ("l", (Data..)) | ("i", int) | ("b", bytes)
          nested tuples => structural ==, hashable.  All walkers here are iterative.

The parser below is written from the upstream concrete syntax (plutus-core
`PlutusCore.Parser`), not from the Rust peg grammar, because the Rust parser is
itself under test.
"""
import re
import sys

# UPLC integers are unbounded; python >= 3.11 limits int <-> str conversion by default
# (goldens integerToByteString/*/maximum-input use 19729-digit literals)
if hasattr(sys, "set_int_max_str_digits"):
    sys.set_int_max_str_digits(0)

SIMPLE_TYPES = ("integer", "bytestring", "string", "unit", "bool", "data", "g1", "g2", "ml")


class BadTerm(Exception):
    """Malformed JSON tree (harness bug, not an evaluation failure)."""


class ParseError(Exception):
    """Textual program rejected ("parse error" in the conformance goldens)."""


# ----------------------------------------------------------------- builtin names

def norm_name(name):
    """`bls12_381_G1_add`, `bls12_381_G1_Add`, `Bls12_381_G1_Add` -> same key."""
    return name.replace("_", "").lower()


# ----------------------------------------------------------------- types

def type_from_json(j):
    # iterative: types can nest (list (list (list ...)))
    if isinstance(j, str):
        if j not in SIMPLE_TYPES:
            raise BadTerm("bad type %r" % (j,))
        return j
    out = []  # postfix evaluation
    stack = [(j, False)]
    while stack:
        t, done = stack.pop()
        if isinstance(t, str):
            if t not in SIMPLE_TYPES:
                raise BadTerm("bad type %r" % (t,))
            out.append(t)
        elif done:
            if t[0] == "list":
                a = out.pop()
                out.append(("list", a))
            else:
                b = out.pop()
                a = out.pop()
                out.append(("pair", a, b))
        elif isinstance(t, (list, tuple)) and len(t) == 2 and t[0] == "list":
            stack.append((t, True))
            stack.append((t[1], False))
        elif isinstance(t, (list, tuple)) and len(t) == 3 and t[0] == "pair":
            stack.append((t, True))
            stack.append((t[2], False))
            stack.append((t[1], False))
        else:
            raise BadTerm("bad type %r" % (t,))
    return out[0]


def type_to_json(t):
    if isinstance(t, str):
        return t
    out = []
    stack = [(t, False)]
    while stack:
        t, done = stack.pop()
        if isinstance(t, str):
            out.append(t)
        elif done:
            if t[0] == "list":
                out.append(["list", out.pop()])
            else:
                b = out.pop()
                a = out.pop()
                out.append(["pair", a, b])
        else:
            stack.append((t, True))
            for x in reversed(t[1:]):
                stack.append((x, False))
    return out[0]


# ----------------------------------------------------------------- Data

def _int_of(j):
    if isinstance(j, bool):
        raise BadTerm("bad int %r" % (j,))
    if isinstance(j, int):
        return j
    if isinstance(j, str):
        try:
            return int(j, 10)
        except ValueError:
            pass
    raise BadTerm("bad int %r" % (j,))


def _bytes_of(j):
    if isinstance(j, str):
        try:
            return bytes.fromhex(j)
        except ValueError:
            pass
    raise BadTerm("bad hex %r" % (j,))


def data_from_json(j):
    """JSON data -> Data tuples; ignores "indef"/"enc"/"raw" (value semantics only)."""
    out = []
    stack = [(j, 0)]
    # entries: (json, 0) = visit; (("c", n, tag) , 1) etc = build
    while stack:
        x, mode = stack.pop()
        if mode == 1:
            kind, n, extra = x
            if n:
                items = out[-n:]
                del out[-n:]
            else:
                items = []
            if kind == "c":
                out.append(("c", extra, tuple(items)))
            elif kind == "l":
                out.append(("l", tuple(items)))
            else:
                out.append(("m", tuple((items[i], items[i + 1]) for i in range(0, n, 2))))
            continue
        if not isinstance(x, dict):
            raise BadTerm("bad data %r" % (x,))
        if "f" in x:
            c = x.get("c")
            if c is None:
                raise BadTerm("data constr without index (raw tag %r)" % (x.get("raw"),))
            fs = x["f"]
            if not isinstance(fs, list):
                raise BadTerm("bad data fields")
            stack.append((("c", len(fs), _int_of(c)), 1))
            for f in reversed(fs):
                stack.append((f, 0))
        elif "m" in x:
            kvs = x["m"]
            if not isinstance(kvs, list):
                raise BadTerm("bad data map")
            stack.append((("m", 2 * len(kvs), None), 1))
            for kv in reversed(kvs):
                if not isinstance(kv, (list, tuple)) or len(kv) != 2:
                    raise BadTerm("bad data map entry")
                stack.append((kv[1], 0))
                stack.append((kv[0], 0))
        elif "l" in x:
            xs = x["l"]
            if not isinstance(xs, list):
                raise BadTerm("bad data list")
            stack.append((("l", len(xs), None), 1))
            for e in reversed(xs):
                stack.append((e, 0))
        elif "i" in x:
            out.append(("i", _int_of(x["i"])))
        elif "b" in x:
            out.append(("b", _bytes_of(x["b"])))
        else:
            raise BadTerm("bad data %r" % (x,))
    return out[0]


def data_to_json(d):
    out = []
    stack = [(d, 0)]
    while stack:
        x, mode = stack.pop()
        if mode == 1:
            k = x[0]
            if k == "c":
                n = len(x[2])
                items = out[-n:] if n else []
                if n:
                    del out[-n:]
                out.append({"c": str(x[1]), "f": items})
            elif k == "l":
                n = len(x[1])
                items = out[-n:] if n else []
                if n:
                    del out[-n:]
                out.append({"l": items})
            else:
                n = 2 * len(x[1])
                items = out[-n:] if n else []
                if n:
                    del out[-n:]
                out.append({"m": [[items[i], items[i + 1]] for i in range(0, n, 2)]})
            continue
        k = x[0]
        if k == "i":
            out.append({"i": str(x[1])})
        elif k == "b":
            out.append({"b": x[1].hex()})
        elif k == "c":
            stack.append((x, 1))
            for f in reversed(x[2]):
                stack.append((f, 0))
        elif k == "l":
            stack.append((x, 1))
            for f in reversed(x[1]):
                stack.append((f, 0))
        elif k == "m":
            stack.append((x, 1))
            for kv in reversed(x[1]):
                stack.append((kv[1], 0))
                stack.append((kv[0], 0))
        else:
            raise BadTerm("bad Data %r" % (x,))
    return out[0]


def data_equal(a, b):
    """Structural equality without recursion (tuple == is C-recursive and would
    raise RecursionError on very deep Data)."""
    stack = [(a, b)]
    while stack:
        x, y = stack.pop()
        if x is y:
            continue
        k = x[0]
        if k != y[0]:
            return False
        if k == "i" or k == "b":
            if x[1] != y[1]:
                return False
        elif k == "c":
            if x[1] != y[1] or len(x[2]) != len(y[2]):
                return False
            stack.extend(zip(x[2], y[2]))
        elif k == "l":
            if len(x[1]) != len(y[1]):
                return False
            stack.extend(zip(x[1], y[1]))
        else:
            if len(x[1]) != len(y[1]):
                return False
            for (k1, v1), (k2, v2) in zip(x[1], y[1]):
                stack.append((k1, k2))
                stack.append((v1, v2))
    return True


# ----------------------------------------------------------------- constants

def value_from_json(ty, v):
    """(internal type, json value) -> python value.  Iterative over list/pair nesting."""
    if isinstance(ty, str):
        return _simple_value_from_json(ty, v)
    out = []
    stack = [(ty, v, 0)]
    while stack:
        t, x, mode = stack.pop()
        if mode == 1:  # build list of x elements
            if x:
                items = out[-x:]
                del out[-x:]
            else:
                items = []
            out.append(items)
        elif mode == 2:
            b = out.pop()
            a = out.pop()
            out.append((a, b))
        elif isinstance(t, str):
            out.append(_simple_value_from_json(t, x))
        elif t[0] == "list":
            if not isinstance(x, (list, tuple)):
                raise BadTerm("bad list value %r" % (x,))
            et = t[1]
            if isinstance(et, str) and et != "data":
                out.append([_simple_value_from_json(et, e) for e in x])
            else:
                stack.append((None, len(x), 1))
                for e in reversed(x):
                    stack.append((et, e, 0))
        else:
            if not isinstance(x, (list, tuple)) or len(x) != 2:
                raise BadTerm("bad pair value %r" % (x,))
            stack.append((None, None, 2))
            stack.append((t[2], x[1], 0))
            stack.append((t[1], x[0], 0))
    return out[0]


def _simple_value_from_json(t, v):
    if t == "integer":
        return _int_of(v)
    if t == "bytestring":
        return _bytes_of(v)
    if t == "string":
        if not isinstance(v, str):
            raise BadTerm("bad string %r" % (v,))
        return v
    if t == "unit":
        return None
    if t == "bool":
        if not isinstance(v, bool):
            raise BadTerm("bad bool %r" % (v,))
        return v
    if t == "data":
        return data_from_json(v)
    if t == "g1" or t == "g2":
        b = _bytes_of(v)
        return b
    if t == "ml":
        return ("ml", v)
    raise BadTerm("bad type %r" % (t,))


def value_to_json(ty, v):
    if isinstance(ty, str):
        return _simple_value_to_json(ty, v)
    out = []
    stack = [(ty, v, 0)]
    while stack:
        t, x, mode = stack.pop()
        if mode == 1:
            if x:
                items = out[-x:]
                del out[-x:]
            else:
                items = []
            out.append(items)
        elif mode == 2:
            b = out.pop()
            a = out.pop()
            out.append([a, b])
        elif isinstance(t, str):
            out.append(_simple_value_to_json(t, x))
        elif t[0] == "list":
            et = t[1]
            if isinstance(et, str) and et != "data":
                out.append([_simple_value_to_json(et, e) for e in x])
            else:
                stack.append((None, len(x), 1))
                for e in reversed(x):
                    stack.append((et, e, 0))
        else:
            stack.append((None, None, 2))
            stack.append((t[2], x[1], 0))
            stack.append((t[1], x[0], 0))
    return out[0]


def _simple_value_to_json(t, v):
    if t == "integer":
        return str(v)
    if t == "bytestring" or t == "g1" or t == "g2":
        return v.hex()
    if t == "string" or t == "bool":
        return v
    if t == "unit":
        return None
    if t == "data":
        return data_to_json(v)
    if t == "ml":
        # Miller-loop results are opaque (no concrete syntax, representation is
        # implementation specific): emit a digest of our representation
        if isinstance(v, tuple) and isinstance(v[1], tuple):
            import hashlib
            return "ml:" + hashlib.sha256(repr(v[1]).encode()).hexdigest()[:32]
        return v[1] if isinstance(v, tuple) else v
    raise BadTerm("bad type %r" % (t,))


def values_equal(ty, a, b):
    """Equality of two constants of the same type (by value)."""
    stack = [(ty, a, b)]
    while stack:
        t, x, y = stack.pop()
        if isinstance(t, str):
            if t == "data":
                if not data_equal(x, y):
                    return False
            elif t == "ml":
                pass    # opaque: not comparable across implementations (only via finalVerify)
            elif x != y:
                return False
        elif t[0] == "list":
            if len(x) != len(y):
                return False
            et = t[1]
            if isinstance(et, str) and et != "data":
                if list(x) != list(y):
                    return False
            else:
                for p, q in zip(x, y):
                    stack.append((et, p, q))
        else:
            stack.append((t[1], x[0], y[0]))
            stack.append((t[2], x[1], y[1]))
    return True


# ----------------------------------------------------------------- term equality (JSON trees)

def _canon_data_json(j):
    return data_to_json(data_from_json(j))


def term_json_equal(a, b):
    """Compare two JSON trees: structure, de Bruijn indices, builtin names (normalised),
    constants by *value* (ignores data encoding hints).  Iterative."""
    stack = [(a, b)]
    while stack:
        x, y = stack.pop()
        if not (isinstance(x, (list, tuple)) and isinstance(y, (list, tuple)) and x and y):
            return False
        k = x[0]
        if k != y[0] or len(x) != len(y):
            return False
        if k == "var":
            if int(x[1]) != int(y[1]):
                return False
        elif k in ("lam", "delay", "force"):
            stack.append((x[1], y[1]))
        elif k == "app":
            stack.append((x[1], y[1]))
            stack.append((x[2], y[2]))
        elif k == "con":
            try:
                tx, ty = type_from_json(x[1]), type_from_json(y[1])
                if tx != ty:
                    return False
                if not values_equal(tx, value_from_json(tx, x[2]), value_from_json(ty, y[2])):
                    return False
            except BadTerm:
                return False
        elif k == "builtin":
            if norm_name(x[1]) != norm_name(y[1]):
                return False
        elif k == "error":
            pass
        elif k == "constr":
            if int(x[1]) != int(y[1]) or len(x[2]) != len(y[2]):
                return False
            stack.extend(zip(x[2], y[2]))
        elif k == "case":
            if len(x[2]) != len(y[2]):
                return False
            stack.append((x[1], y[1]))
            stack.extend(zip(x[2], y[2]))
        else:
            return False
    return True


# ----------------------------------------------------------------- textual parser

# Type names of the concrete syntax -> internal names.
_TEXT_TYPES = {
    "integer": "integer", "bytestring": "bytestring", "string": "string", "unit": "unit",
    "bool": "bool", "data": "data", "bls12_381_G1_element": "g1",
    "bls12_381_G2_element": "g2", "bls12_381_mlresult": "ml",
}

_NAME_RE = re.compile(r"[A-Za-z_][A-Za-z0-9_']*(-[0-9]+)?")
_INT_RE = re.compile(r"[+-]?[0-9]+")
_NAT_RE = re.compile(r"[0-9]+")
_HEX_RE = re.compile(r"[0-9a-fA-F]*")
_VERSION_RE = re.compile(r"([0-9]+)\.([0-9]+)\.([0-9]+)")
_KEYWORDS = ("lam", "con", "builtin", "force", "delay", "error", "constr", "case", "program")

# Haskell character-escape names (Data.Char.readLitChar), longest first where prefixes clash.
_ASCII_ESC = [
    ("NUL", 0), ("SOH", 1), ("STX", 2), ("ETX", 3), ("EOT", 4), ("ENQ", 5), ("ACK", 6),
    ("BEL", 7), ("BS", 8), ("HT", 9), ("LF", 10), ("VT", 11), ("FF", 12), ("CR", 13),
    ("SO", 14), ("SI", 15), ("DLE", 16), ("DC1", 17), ("DC2", 18), ("DC3", 19), ("DC4", 20),
    ("NAK", 21), ("SYN", 22), ("ETB", 23), ("CAN", 24), ("EM", 25), ("SUB", 26), ("ESC", 27),
    ("FS", 28), ("GS", 29), ("RS", 30), ("US", 31), ("SP", 32), ("DEL", 127),
]
_SIMPLE_ESC = {"a": 7, "b": 8, "f": 12, "n": 10, "r": 13, "t": 9, "v": 11, "\\": 92, '"': 34, "'": 39}


class _P:
    """Hand-written recursive-descent parser with an explicit stack for terms
    (so deeply nested programs do not hit the Python recursion limit)."""

    def __init__(self, text, builtin_ok=None):
        self.s = text
        self.i = 0
        self.n = len(text)
        self.builtin_ok = builtin_ok
        self.version = None

    # -- lexical
    def err(self, msg):
        raise ParseError("%s at offset %d" % (msg, self.i))

    def ws(self):
        s, n = self.s, self.n
        i = self.i
        while i < n:
            c = s[i]
            if c in " \t\r\n\f\v":
                i += 1
            elif c == "-" and s.startswith("--", i):
                j = s.find("\n", i)
                i = n if j < 0 else j + 1
            elif c == "{" and s.startswith("{-", i):
                depth = 1
                i += 2
                while i < n and depth:
                    if s.startswith("{-", i):
                        depth += 1
                        i += 2
                    elif s.startswith("-}", i):
                        depth -= 1
                        i += 2
                    else:
                        i += 1
                if depth:
                    self.i = i
                    self.err("unterminated block comment")
            else:
                break
        self.i = i

    def peek(self):
        return self.s[self.i] if self.i < self.n else ""

    def expect(self, ch):
        self.ws()
        if not self.s.startswith(ch, self.i):
            self.err("expected %r" % ch)
        self.i += len(ch)

    def try_char(self, ch):
        self.ws()
        if self.s.startswith(ch, self.i):
            self.i += len(ch)
            return True
        return False

    def regex(self, rx, what):
        self.ws()
        m = rx.match(self.s, self.i)
        if not m:
            self.err("expected " + what)
        self.i = m.end()
        return m

    def word(self):
        """an identifier-like word (keywords, type names, builtin names)"""
        return self.regex(_NAME_RE, "identifier").group(0)

    def token_end(self):
        """a literal must be followed by a delimiter (so `0.5`, `12ab` are errors)"""
        if self.i < self.n and not (self.s[self.i] in " \t\r\n\f\v()[],{}" or self.s.startswith("--", self.i)):
            self.err("unexpected character after literal")

    # -- types
    def parse_type(self):
        self.ws()
        if self.try_char("("):
            w = self.word()
            if w == "list":
                t = ("list", self.parse_type())
            elif w == "pair":
                a = self.parse_type()
                b = self.parse_type()
                t = ("pair", a, b)
            elif w in _TEXT_TYPES:
                t = _TEXT_TYPES[w]  # parenthesised simple type, e.g. (integer)
            else:
                self.err("unknown type constructor %r" % w)
            self.expect(")")
            return t
        w = self.word()
        if w not in _TEXT_TYPES:
            # `list(bool)` / `pair (a) (b)` (pre-1.0 syntax) are parse errors upstream:
            # goldens v2/builtin/constant/list/simpleList, v2/builtin/semantics/listOfPair.
            self.err("unknown type %r" % w)
        return _TEXT_TYPES[w]

    # -- constant values
    def parse_int(self):
        m = self.regex(_INT_RE, "integer")
        self.token_end()
        return int(m.group(0), 10)

    def parse_hex(self, prefix):
        self.ws()
        if not self.s.startswith(prefix, self.i):
            self.err("expected %r" % prefix)
        self.i += len(prefix)
        m = _HEX_RE.match(self.s, self.i)
        h = m.group(0)
        self.i = m.end()
        self.token_end()
        if len(h) % 2:
            # golden v2/builtin/constant/bytestring/bytestring4 (#12345 -> parse error)
            self.err("odd number of hex digits")
        return bytes.fromhex(h)

    def parse_string(self):
        self.ws()
        if self.peek() != '"':
            self.err("expected string literal")
        s, n = self.s, self.n
        i = self.i + 1
        out = []
        while True:
            if i >= n:
                self.i = i
                self.err("unterminated string")
            c = s[i]
            if c == '"':
                i += 1
                break
            if c == "\n":
                self.i = i
                self.err("newline in string literal")
            if c != "\\":
                out.append(c)
                i += 1
                continue
            # Haskell escapes (upstream uses megaparsec's charLiteral = readLitChar):
            # golden v3/.../trace uses "\172" (decimal) for U+00AC.
            i += 1
            if i >= n:
                self.i = i
                self.err("bad escape")
            c = s[i]
            if c in _SIMPLE_ESC:
                out.append(chr(_SIMPLE_ESC[c]))
                i += 1
            elif c.isdigit():
                j = i
                while j < n and s[j].isdigit():
                    j += 1
                cp = int(s[i:j], 10)
                i = j
                out.append(self._chr(cp))
            elif c == "x" or c == "o":
                j = i + 1
                digits = "0123456789abcdefABCDEF" if c == "x" else "01234567"
                while j < n and s[j] in digits:
                    j += 1
                if j == i + 1:
                    self.i = i
                    self.err("bad numeric escape")
                cp = int(s[i + 1:j], 16 if c == "x" else 8)
                i = j
                out.append(self._chr(cp))
            elif c == "^":
                if i + 1 < n and "@" <= s[i + 1] <= "_":
                    out.append(chr(ord(s[i + 1]) - 64))
                    i += 2
                else:
                    self.i = i
                    self.err("bad control escape")
            else:
                for name, cp in _ASCII_ESC:
                    # "SO" vs "SOH": readLitChar prefers SOH
                    if s.startswith(name, i) and not (name == "SO" and s.startswith("SOH", i)):
                        out.append(chr(cp))
                        i += len(name)
                        break
                else:
                    self.i = i
                    self.err("bad escape")
        self.i = i
        return "".join(out)

    def _chr(self, cp):
        if cp > 0x10FFFF or 0xD800 <= cp <= 0xDFFF:
            self.err("escape out of range")
        return chr(cp)

    def parse_data(self):
        """Data literal without outer parentheses (parentheses optional)."""
        # iterative: Data literals can nest arbitrarily deep
        out = []
        # work stack entries: ("v",) parse a data value; ("c", tag, count) etc.
        work = [("v",)]
        while work:
            w = work.pop()
            tag = w[0]
            if tag == "v":
                if self.try_char("("):
                    work.append(("close",))
                    work.append(("v",))
                    continue
                kw = self.word()
                if kw == "I":
                    out.append(("i", self.parse_int()))
                elif kw == "B":
                    out.append(("b", self.parse_hex("#")))
                elif kw == "Constr":
                    m = self.regex(_INT_RE, "constructor index")
                    self.token_end()
                    work.append(("c", int(m.group(0)), len(out)))
                    self._open_seq(work, "v")
                elif kw == "List":
                    work.append(("l", None, len(out)))
                    self._open_seq(work, "v")
                elif kw == "Map":
                    work.append(("m", None, len(out)))
                    self._open_seq(work, "kv")
                else:
                    self.err("bad data constructor %r" % kw)
            elif tag == "close":
                self.expect(")")
            elif tag == "kv":
                self.expect("(")
                work.append(("kvend",))
                work.append(("v",))
                work.append(("comma",))
                work.append(("v",))
            elif tag == "comma":
                self.expect(",")
            elif tag == "kvend":
                self.expect(")")
            elif tag == "seq":  # after an element: either ',' then another element, or ']'
                if self.try_char(","):
                    work.append(w)
                    work.append((w[1],))
                else:
                    self.expect("]")
            elif tag == "c":
                items = out[w[2]:]
                del out[w[2]:]
                out.append(("c", w[1], tuple(items)))
            elif tag == "l":
                items = out[w[2]:]
                del out[w[2]:]
                out.append(("l", tuple(items)))
            elif tag == "m":
                items = out[w[2]:]
                del out[w[2]:]
                out.append(("m", tuple((items[i], items[i + 1]) for i in range(0, len(items), 2))))
        return out[0]

    def _open_seq(self, work, elem):
        self.expect("[")
        if self.try_char("]"):
            return
        work.append(("seq", elem))
        work.append((elem,))

    def parse_value(self, ty, top):
        """constant value of internal type `ty`; `top` = directly under (con T _)."""
        if ty == "integer":
            return self.parse_int()
        if ty == "bytestring":
            return self.parse_hex("#")
        if ty == "string":
            return self.parse_string()
        if ty == "unit":
            self.expect("(")
            self.expect(")")
            return None
        if ty == "bool":
            w = self.word()
            if w == "True":
                return True
            if w == "False":
                return False
            self.err("expected True/False")
        if ty == "data":
            if top:
                # top-level data literals are parenthesised: (con data (I 0))
                self.expect("(")
                d = self.parse_data()
                self.expect(")")
                return d
            return self.parse_data()
        if ty == "g1" or ty == "g2":
            b = self.parse_hex("0x")
            want = 48 if ty == "g1" else 96
            # golden .../constant/bls12-381/G1/too-long, too-short -> parse error
            if len(b) != want:
                self.err("wrong length for compressed %s element" % ty)
            _check_bls_encoding(self, ty, b)
            return b
        if ty == "ml":
            self.err("bls12_381_mlresult constants cannot be written")
        if ty[0] == "list":
            # recursion depth = type nesting depth (small)
            self.expect("[")
            xs = []
            if self.try_char("]"):
                return xs
            while True:
                xs.append(self.parse_value(ty[1], False))
                if self.try_char(","):
                    continue
                self.expect("]")
                return xs
        if ty[0] == "pair":
            self.expect("(")
            a = self.parse_value(ty[1], False)
            self.expect(",")
            b = self.parse_value(ty[2], False)
            self.expect(")")
            return (a, b)
        self.err("bad type")

    # -- terms
    def parse_program(self):
        self.expect("(")
        if self.word() != "program":
            self.err("expected 'program'")
        m = self.regex(_VERSION_RE, "version")
        self.version = tuple(int(g) for g in m.groups())
        t = self.parse_term()
        self.expect(")")
        self.ws()
        if self.i != self.n:
            self.err("trailing input")
        return t

    def parse_term(self):
        """Iterative term parser producing the JSON tree with de Bruijn indices.
        Free variables are a parse error (upstream: scope check in the parser
        pipeline makes `(lam x y)` an error before evaluation -- the goldens
        expect "evaluation failure" for those only after parsing; see selftest)."""
        scope = []          # binder names, innermost last
        out = []            # finished subterms
        work = [("t",)]
        sugar = self.version is not None and self.version >= (1, 1, 0)
        while work:
            w = work.pop()
            tag = w[0]
            if tag == "t":
                self.ws()
                c = self.peek()
                if c == "(":
                    self.i += 1
                    kw = self.word()
                    if kw == "lam":
                        name = self.word()
                        if name in _KEYWORDS and False:
                            self.err("keyword as name")
                        scope.append(name)
                        work.append(("lam",))
                        work.append(("t",))
                    elif kw == "delay" or kw == "force":
                        work.append((kw,))
                        work.append(("t",))
                    elif kw == "error":
                        self.expect(")")
                        out.append(["error"])
                    elif kw == "builtin":
                        b = self.word()
                        if self.builtin_ok is not None and not self.builtin_ok(b):
                            self.err("unknown builtin %r" % b)
                        self.expect(")")
                        out.append(["builtin", b])
                    elif kw == "con":
                        ty = self.parse_type()
                        v = self.parse_value(ty, True)
                        self.expect(")")
                        out.append(["con", type_to_json(ty), value_to_json(ty, v)])
                    elif kw == "constr":
                        if not sugar:
                            self.err("constr is not available before 1.1.0")
                        m = self.regex(_NAT_RE, "constructor tag")
                        self.token_end()
                        tagv = int(m.group(0))
                        # upstream: tag is a Word64; golden v3/term/constr/constr-10
                        # (tag 2^64) -> parse error
                        if tagv >= 1 << 64:
                            self.err("constructor tag out of Word64 range")
                        work.append(("many", "constr", tagv, len(out)))
                    elif kw == "case":
                        if not sugar:
                            self.err("case is not available before 1.1.0")
                        work.append(("many", "case", None, len(out)))
                        work.append(("t",))
                    else:
                        self.err("unknown term keyword %r" % kw)
                elif c == "[":
                    self.i += 1
                    work.append(("many", "app", None, len(out)))
                    work.append(("t",))
                    # at least function + one argument are required
                    # (upstream `some term` after the head)
                else:
                    name = self.word()
                    for k in range(len(scope) - 1, -1, -1):
                        if scope[k] == name:
                            out.append(["var", len(scope) - k])
                            break
                    else:
                        # free variable: index beyond every binder (0 is never valid);
                        # we encode it as len(scope)+1+<unique> so that evaluation fails
                        # with "open term" exactly like upstream's deBruijn conversion error.
                        out.append(["var", len(scope) + 1 + self._free(name)])
            elif tag == "lam":
                self.expect(")")
                scope.pop()
                out.append(["lam", out.pop()])
            elif tag == "delay" or tag == "force":
                self.expect(")")
                out.append([tag, out.pop()])
            elif tag == "many":
                kind = w[1]
                close = "]" if kind == "app" else ")"
                self.ws()
                if self.peek() == close:
                    self.i += 1
                    items = out[w[3]:]
                    del out[w[3]:]
                    if kind == "app":
                        if len(items) < 2:
                            self.err("application needs at least one argument")
                        t = items[0]
                        for a in items[1:]:
                            t = ["app", t, a]
                        out.append(t)
                    elif kind == "constr":
                        out.append(["constr", w[2], items])
                    else:
                        out.append(["case", items[0], items[1:]])
                else:
                    work.append(w)
                    work.append(("t",))
        return out[0]

    def _free(self, name):
        if not hasattr(self, "_frees"):
            self._frees = {}
        return self._frees.setdefault(name, len(self._frees))


def _check_bls_encoding(p, ty, b):
    """Cheap structural checks on a compressed BLS12-381 point that do not need curve
    arithmetic (flag bits, infinity encoding, x < p).  On-curve / subgroup checks are
    delegated to bls.py when available; otherwise such constants are accepted here and
    the selftest reports the corresponding goldens as unsupported-BLS."""
    flags = b[0] >> 5
    compressed, infinity, sign = flags >> 2 & 1, flags >> 1 & 1, flags & 1
    if not compressed:
        p.err("BLS point is not in compressed form")
    body = bytes([b[0] & 0x1F]) + b[1:]
    if infinity:
        if sign or any(body):
            p.err("bad encoding of the point at infinity")
        return
    try:
        from . import bls
    except Exception:  # pragma: no cover
        bls = None
    if bls is not None:
        ok = bls.g1_valid(b) if ty == "g1" else bls.g2_valid(b)
        if not ok:
            p.err("BLS point not on curve / not in subgroup")


def parse_program(text, builtin_ok=None):
    """-> (version tuple, term JSON tree).  Raises ParseError."""
    p = _P(text, builtin_ok)
    t = p.parse_program()
    return p.version, t


def parse_term(text, version=(1, 1, 0), builtin_ok=None):
    p = _P(text, builtin_ok)
    p.version = version
    t = p.parse_term()
    p.ws()
    if p.i != p.n:
        p.err("trailing input")
    return t
