"""Built-in functions of Untyped Plutus Core, written from the Plutus Core
specification (builtin "batches" 1-6), CIP-121/122/123/127/109/381 and the
behaviour of the Haskell reference implementation that the upstream conformance
goldens pin.  Pure Python 3.11, stdlib only.

Two layers:
  * pure functions on python ints / bytes / str / lists / tuples / Data
    (`add_integer`, `slice_bytestring`, `serialise_data`, ...);
  * the table `BUILTINS`: normalised name -> BuiltinDef(name, forces, arity,
    argument type specs, result type, implementation), used by cek.py.

Failure is signalled by raising BuiltinError (=> "evaluation failure");
Unsupported marks things this oracle deliberately does not decide (BLS12-381
when bls.py cannot answer) and must be mapped to "inconclusive" by callers.

Semantics variants (ledger language x protocol version), as in the repository:
  A = PlutusV1/V2, pv < 9      B = PlutusV1/V2, pv 9..10     D = PlutusV1/V2, pv >= 11
  C = PlutusV3, pv < 11        E = PlutusV3, pv >= 11
Only consByteString differs in *value* semantics (A/B/D wrap, C/E range-check);
`case` on constants (variant E only) lives in cek.py; the string size measure
lives in exmem.py.
"""
import hashlib

from .term import norm_name, data_equal, values_equal

VARIANTS = ("A", "B", "C", "D", "E")
INT64_MIN = -(1 << 63)
INT64_MAX = (1 << 63) - 1
MAX_OUTPUT_BYTES = 8192  # CIP-121 / CIP-122 limit for integerToByteString / replicateByte


class BuiltinError(Exception):
    """Evaluation failure raised by a builtin."""


class Unsupported(Exception):
    """The oracle does not implement this (callers: inconclusive)."""


def fail(msg):
    raise BuiltinError(msg)


# ======================================================================= integers

def divide_integer(a, b):
    # spec: divideInteger = floor division (Haskell `div`), modInteger = `mod`
    if b == 0:
        fail("division by zero")
    return a // b


def mod_integer(a, b):
    if b == 0:
        fail("division by zero")
    return a % b


def quotient_integer(a, b):
    # spec: quotientInteger truncates towards zero (Haskell `quot`)
    if b == 0:
        fail("division by zero")
    q = abs(a) // abs(b)
    return q if (a >= 0) == (b >= 0) else -q


def remainder_integer(a, b):
    # Haskell `rem`: a == b * quot a b + rem a b, sign follows the dividend
    if b == 0:
        fail("division by zero")
    r = abs(a) % abs(b)
    return r if a >= 0 else -r


def exp_mod_integer(b, e, m):
    """CIP-109.  m <= 0 fails; m == 1 -> 0; negative exponent needs b invertible mod m."""
    if m <= 0:
        fail("expModInteger: non-positive modulus")
    if m == 1:
        return 0
    if e >= 0:
        return pow(b, e, m)
    try:
        return pow(b, e, m)  # python >= 3.8: modular inverse, ValueError if not invertible
    except ValueError:
        fail("expModInteger: base not invertible")


# ======================================================================= bytestrings

def _as_int64(i, what):
    """Arguments that the reference implementation unlifts as a machine `Int`:
    values outside Int64 are an evaluation failure (Note [Integral types as Integer]
    in plutus-core; golden v3/builtin/semantics/indexByteString/indexByteStringOverflow)."""
    if i < INT64_MIN or i > INT64_MAX:
        fail("%s: integer out of Int64 range" % what)
    return i


def cons_bytestring(variant, n, bs):
    if variant in ("C", "E"):
        # golden v3/.../consByteString-01 (256) and -02 (-88): evaluation failure
        if n < 0 or n > 255:
            fail("consByteString: byte out of range")
        return bytes([n]) + bs
    # V1/V2: `fromIntegral :: Integer -> Word8` wraps (golden v2/.../consByteString2)
    return bytes([n % 256]) + bs


def slice_bytestring(start, n, bs):
    """take n (drop start bs) with Haskell clamping of negative counts.
    goldens v3/.../sliceByteString-02 (start -3 -> from 0), -03 (len > size), -05 (start > size -> empty)."""
    _as_int64(start, "sliceByteString")
    _as_int64(n, "sliceByteString")
    s = max(start, 0)
    k = max(n, 0)
    return bs[s:s + k]


def index_bytestring(bs, i):
    _as_int64(i, "indexByteString")
    if i < 0 or i >= len(bs):
        fail("indexByteString: index out of bounds")
    return bs[i]


# ======================================================================= hashing

_KECCAK_RC = []
_KECCAK_ROT = [[0] * 5 for _ in range(5)]


def _keccak_init():
    r = 1
    for _ in range(24):
        rc = 0
        for j in range(7):
            r = ((r << 1) ^ ((r >> 7) * 0x71)) & 0xFF
            if r & 2:
                rc ^= 1 << ((1 << j) - 1)
        _KECCAK_RC.append(rc)
    x, y = 1, 0
    for t in range(24):
        _KECCAK_ROT[x][y] = ((t + 1) * (t + 2) // 2) % 64
        x, y = y, (2 * x + 3 * y) % 5


_keccak_init()
_M64 = (1 << 64) - 1


def _keccak_f(a):
    """Keccak-f[1600] on a 5x5 matrix a[x][y] of 64-bit lanes (FIPS 202, section 3)."""
    for rnd in range(24):
        c = [a[x][0] ^ a[x][1] ^ a[x][2] ^ a[x][3] ^ a[x][4] for x in range(5)]
        d = [c[(x - 1) % 5] ^ (((c[(x + 1) % 5] << 1) | (c[(x + 1) % 5] >> 63)) & _M64) for x in range(5)]
        a = [[a[x][y] ^ d[x] for y in range(5)] for x in range(5)]
        b = [[0] * 5 for _ in range(5)]
        for x in range(5):
            for y in range(5):
                r = _KECCAK_ROT[x][y]
                v = a[x][y]
                b[y][(2 * x + 3 * y) % 5] = ((v << r) | (v >> (64 - r))) & _M64 if r else v
        a = [[b[x][y] ^ ((~b[(x + 1) % 5][y]) & b[(x + 2) % 5][y]) for y in range(5)] for x in range(5)]
        a[0][0] ^= _KECCAK_RC[rnd]
    return a


def _keccak(data, rate, suffix, outlen):
    a = [[0] * 5 for _ in range(5)]
    p = bytearray(data)
    p.append(suffix)
    while len(p) % rate:
        p.append(0)
    p[-1] |= 0x80
    for off in range(0, len(p), rate):
        block = p[off:off + rate]
        for i in range(rate // 8):
            a[i % 5][i // 5] ^= int.from_bytes(block[8 * i:8 * i + 8], "little")
        a = _keccak_f(a)
    out = b"".join(a[i % 5][i // 5].to_bytes(8, "little") for i in range(rate // 8))
    return out[:outlen]  # outlen <= rate for the instances used here


def keccak_256(bs):
    """Original Keccak-256 (padding 0x01), not SHA3-256 (padding 0x06)."""
    return _keccak(bs, 136, 0x01, 32)


def sha3_256_py(bs):
    """Own SHA3-256, used only to cross-check the Keccak permutation against hashlib."""
    return _keccak(bs, 136, 0x06, 32)


def sha2_256(bs):
    return hashlib.sha256(bs).digest()


def sha3_256(bs):
    return hashlib.sha3_256(bs).digest()


def blake2b_256(bs):
    return hashlib.blake2b(bs, digest_size=32).digest()


def blake2b_224(bs):
    return hashlib.blake2b(bs, digest_size=28).digest()


def ripemd_160(bs):
    return hashlib.new("ripemd160", bs).digest()


# ======================================================================= Ed25519 (RFC 8032)

_P25519 = (1 << 255) - 19
_L25519 = (1 << 252) + 27742317777372353535851937790883648493
_D25519 = (-121665 * pow(121666, _P25519 - 2, _P25519)) % _P25519
_SQRT_M1 = pow(2, (_P25519 - 1) // 4, _P25519)


def _ed_recover_x(y, sign):
    """x with x^2 = (y^2-1)/(d y^2+1); None if no square root.  RFC 8032 5.1.3."""
    p = _P25519
    x2 = (y * y - 1) * pow(_D25519 * y * y + 1, p - 2, p) % p
    if x2 == 0:
        return 0  # libsodium (ref10) accepts "negative zero"; see _ed_small_order for why it is moot
    x = pow(x2, (p + 3) // 8, p)
    if (x * x - x2) % p != 0:
        x = x * _SQRT_M1 % p
    if (x * x - x2) % p != 0:
        return None
    if (x & 1) != sign:
        x = p - x
    return x


def _ed_add(P, Q):
    # extended coordinates (X, Y, Z, T), a = -1 (RFC 8032 5.1.4)
    p = _P25519
    x1, y1, z1, t1 = P
    x2, y2, z2, t2 = Q
    a = (y1 - x1) * (y2 - x2) % p
    b = (y1 + x1) * (y2 + x2) % p
    c = t1 * 2 * _D25519 * t2 % p
    d = z1 * 2 * z2 % p
    e, f, g, h = b - a, d - c, d + c, b + a
    return (e * f % p, g * h % p, f * g % p, e * h % p)


def _ed_mul(s, P):
    q = (0, 1, 1, 0)
    while s > 0:
        if s & 1:
            q = _ed_add(q, P)
        P = _ed_add(P, P)
        s >>= 1
    return q


def _ed_encode(P):
    p = _P25519
    zi = pow(P[2], p - 2, p)
    x, y = P[0] * zi % p, P[1] * zi % p
    return (y | ((x & 1) << 255)).to_bytes(32, "little")


_ED_BY = 4 * pow(5, _P25519 - 2, _P25519) % _P25519
_ED_BX = _ed_recover_x(_ED_BY, 0)
_ED_B = (_ED_BX, _ED_BY, 1, _ED_BX * _ED_BY % _P25519)


def _ed_small_order(enc):
    """libsodium ge25519_has_small_order: the encoding's y (sign bit ignored, reduced
    mod p) is the y of one of the 8 torsion points."""
    y = (int.from_bytes(enc, "little") & ((1 << 255) - 1)) % _P25519
    x = _ed_recover_x(y, 0)
    if x is None:
        return False
    q = _ed_mul(8, (x, y, 1, x * y % _P25519))
    return q[0] % _P25519 == 0 and (q[1] - q[2]) % _P25519 == 0


def ed25519_verify_raw(pk, msg, sig):
    """Verification as done by libsodium's crypto_sign_ed25519_verify_detached, which the
    Haskell implementation calls through cardano-crypto-class: cofactorless equation
    [s]B = R + [h]A checked by comparing the *encoding* of [s]B - [h]A with sig[:32];
    rejects non-canonical s, small-order R, non-canonical or small-order A."""
    p = _P25519
    s = int.from_bytes(sig[32:], "little")
    if s >= _L25519:
        return False
    if _ed_small_order(sig[:32]):
        return False
    yfull = int.from_bytes(pk, "little")
    y, sign = yfull & ((1 << 255) - 1), yfull >> 255
    if y >= p:
        return False  # non-canonical A
    if _ed_small_order(pk):
        return False
    x = _ed_recover_x(y, sign)
    if x is None:
        return False
    A = (x, y, 1, x * y % p)
    h = int.from_bytes(hashlib.sha512(sig[:32] + pk + msg).digest(), "little") % _L25519
    negA = ((p - A[0]) % p, A[1], 1, (p - A[3]) % p)
    Rc = _ed_add(_ed_mul(s, _ED_B), _ed_mul(h, negA))
    return _ed_encode(Rc) == sig[:32]


def verify_ed25519_signature(pk, msg, sig):
    # spec 4.3.1 note on verifyEd25519Signature: key 32 bytes, signature 64 bytes, else *failure*
    # goldens v3/.../verifyEd25519Signature/{short,long}-{key,sig}
    if len(pk) != 32:
        fail("verifyEd25519Signature: wrong key length")
    if len(sig) != 64:
        fail("verifyEd25519Signature: wrong signature length")
    return ed25519_verify_raw(pk, msg, sig)


# ======================================================================= secp256k1

_SP = (1 << 256) - (1 << 32) - 977
_SN = 0xFFFFFFFFFFFFFFFFFFFFFFFFFFFFFFFEBAAEDCE6AF48A03BBFD25E8CD0364141
_SG = (0x79BE667EF9DCBBAC55A06295CE870B07029BFCDB2DCE28D959F2815B16F81798,
       0x483ADA7726A3C4655DA4FBFC0E1108A8FD17B448A68554199C47D08FFB10D4B8)


def _s_add(P, Q):
    """affine addition on y^2 = x^3 + 7; None = point at infinity"""
    if P is None:
        return Q
    if Q is None:
        return P
    p = _SP
    if P[0] == Q[0]:
        if (P[1] + Q[1]) % p == 0:
            return None
        lam = 3 * P[0] * P[0] * pow(2 * P[1], p - 2, p) % p
    else:
        lam = (Q[1] - P[1]) * pow(Q[0] - P[0], p - 2, p) % p
    x = (lam * lam - P[0] - Q[0]) % p
    return (x, (lam * (P[0] - x) - P[1]) % p)


def _s_jdbl(P):
    x, y, z = P
    if y == 0 or z == 0:
        return (0, 1, 0)
    p = _SP
    s = 4 * x * y * y % p
    m = 3 * x * x % p
    x2 = (m * m - 2 * s) % p
    return (x2, (m * (s - x2) - 8 * pow(y, 4, p)) % p, 2 * y * z % p)


def _s_jadd(P, Q):
    if P[2] == 0:
        return Q
    if Q[2] == 0:
        return P
    p = _SP
    z1z1, z2z2 = P[2] * P[2] % p, Q[2] * Q[2] % p
    u1, u2 = P[0] * z2z2 % p, Q[0] * z1z1 % p
    s1, s2 = P[1] * Q[2] * z2z2 % p, Q[1] * P[2] * z1z1 % p
    if u1 == u2:
        if s1 != s2:
            return (0, 1, 0)
        return _s_jdbl(P)
    h, r = (u2 - u1) % p, (s2 - s1) % p
    h2 = h * h % p
    h3 = h * h2 % p
    x3 = (r * r - h3 - 2 * u1 * h2) % p
    return (x3, (r * (u1 * h2 - x3) - s1 * h3) % p, h * P[2] * Q[2] % p)


def _s_mul(k, P):
    """scalar multiplication (Jacobian inside), P affine or None -> affine or None"""
    if P is None or k % _SN == 0:
        return None
    k %= _SN
    acc = (0, 1, 0)
    cur = (P[0], P[1], 1)
    while k:
        if k & 1:
            acc = _s_jadd(acc, cur)
        cur = _s_jdbl(cur)
        k >>= 1
    if acc[2] == 0:
        return None
    zi = pow(acc[2], _SP - 2, _SP)
    return (acc[0] * zi * zi % _SP, acc[1] * zi * zi * zi % _SP)


def _s_lift_x(x, odd=None):
    """point with the given x (and y parity if `odd` is given, else even y); None if none"""
    if x >= _SP:
        return None
    y2 = (pow(x, 3, _SP) + 7) % _SP
    y = pow(y2, (_SP + 1) // 4, _SP)
    if y * y % _SP != y2:
        return None
    if odd is None:
        odd = 0
    if (y & 1) != odd:
        y = _SP - y
    return (x, y)


def verify_ecdsa_secp256k1_signature(vk, msg, sig):
    """Spec section on verifyEcdsaSecp256k1Signature (batch 3 / CIP-49):
       * vk: 33-byte SEC1 *compressed* key; wrong length or not a curve point -> failure
         (goldens .../verifyEcdsaSecp256k1Signature/{short-key,long-key,invalid-key});
       * msg: exactly 32 bytes (a hash) else failure (short-msg, long-msg);
       * sig: exactly 64 bytes r||s big-endian else failure (short-sig, long-sig);
         r or s >= group order: libsecp256k1's parse_compact rejects -> failure;
       * high-s signatures (s > n/2) are *rejected* -> False (BIP-146 low-s rule,
         README.md in the golden directory)."""
    if len(vk) != 33:
        fail("ecdsa: wrong verification key length")
    if len(msg) != 32:
        fail("ecdsa: wrong message length")
    if len(sig) != 64:
        fail("ecdsa: wrong signature length")
    if vk[0] not in (2, 3):
        fail("ecdsa: invalid verification key")
    Q = _s_lift_x(int.from_bytes(vk[1:], "big"), vk[0] & 1)
    if Q is None:
        fail("ecdsa: invalid verification key")
    r = int.from_bytes(sig[:32], "big")
    s = int.from_bytes(sig[32:], "big")
    if r >= _SN or s >= _SN:
        fail("ecdsa: invalid signature (scalar overflow)")
    if r == 0 or s == 0:
        return False
    if s > _SN // 2:
        return False
    z = int.from_bytes(msg, "big") % _SN
    w = pow(s, _SN - 2, _SN)
    R = _s_add(_s_mul(z * w % _SN, _SG), _s_mul(r * w % _SN, Q))
    if R is None:
        return False
    return R[0] % _SN == r


def _tagged_hash(tag, data):
    t = hashlib.sha256(tag).digest()
    return hashlib.sha256(t + t + data).digest()


def verify_schnorr_secp256k1_signature(vk, msg, sig):
    """BIP-340.  vk: 32-byte x-only key (wrong length / not on curve -> failure),
    msg: arbitrary length, sig: 64 bytes (wrong length -> failure)."""
    if len(vk) != 32:
        fail("schnorr: wrong verification key length")
    if len(sig) != 64:
        fail("schnorr: wrong signature length")
    P = _s_lift_x(int.from_bytes(vk, "big"))
    if P is None:
        fail("schnorr: invalid verification key")
    r = int.from_bytes(sig[:32], "big")
    s = int.from_bytes(sig[32:], "big")
    if r >= _SP or s >= _SN:
        return False
    e = int.from_bytes(_tagged_hash(b"BIP0340/challenge", sig[:32] + vk + msg), "big") % _SN
    R = _s_add(_s_mul(s, _SG), _s_mul(_SN - e, P))
    if R is None or R[1] & 1 or R[0] != r:
        return False
    return True


# ======================================================================= strings

def decode_utf8(bs):
    try:
        return bs.decode("utf-8", "strict")  # rejects overlong forms, surrogates, > U+10FFFF
    except UnicodeDecodeError:
        fail("decodeUtf8: invalid UTF-8")


def encode_utf8(s):
    try:
        return s.encode("utf-8", "strict")
    except UnicodeEncodeError:
        # lone surrogates cannot occur in a Text value; treat as harness error
        raise Unsupported("string with lone surrogate")


# ======================================================================= Data / CBOR

def _cbor_head(major, n):
    if n < 24:
        return bytes([major << 5 | n])
    if n < 1 << 8:
        return bytes([major << 5 | 24, n])
    if n < 1 << 16:
        return bytes([major << 5 | 25]) + n.to_bytes(2, "big")
    if n < 1 << 32:
        return bytes([major << 5 | 26]) + n.to_bytes(4, "big")
    return bytes([major << 5 | 27]) + n.to_bytes(8, "big")


def _cbor_bytes(b):
    # plutus-core Data encoder: byte strings longer than 64 bytes are emitted as an
    # indefinite-length string of 64-byte chunks (ledger limit on definite chunks)
    if len(b) <= 64:
        return _cbor_head(2, len(b)) + b
    out = [b"\x5f"]
    for i in range(0, len(b), 64):
        c = b[i:i + 64]
        out.append(_cbor_head(2, len(c)) + c)
    out.append(b"\xff")
    return b"".join(out)


def _cbor_integer(i):
    if 0 <= i < 1 << 64:
        return _cbor_head(0, i)
    if -(1 << 64) <= i < 0:
        return _cbor_head(1, -1 - i)
    if i >= 0:
        m = i
        tag = b"\xc2"
    else:
        m = -1 - i
        tag = b"\xc3"
    return tag + _cbor_bytes(m.to_bytes((m.bit_length() + 7) // 8, "big"))


def serialise_data(d):
    """Canonical encoding used by the Haskell `Serialise Data` instance (iterative)."""
    out = []
    stack = [d]
    while stack:
        x = stack.pop()
        if isinstance(x, bytes):
            out.append(x)
            continue
        k = x[0]
        if k == "i":
            out.append(_cbor_integer(x[1]))
        elif k == "b":
            out.append(_cbor_bytes(x[1]))
        elif k == "l" or k == "c":
            if k == "c":
                ix, items = x[1], x[2]
                if 0 <= ix < 7:
                    out.append(_cbor_head(6, 121 + ix))
                elif 7 <= ix < 128:
                    out.append(_cbor_head(6, 1280 + ix - 7))
                else:
                    out.append(_cbor_head(6, 102) + b"\x82")
                    # encodeData: Word64 range -> unsigned; otherwise a generic CBOR integer
                    out.append(_cbor_integer(ix))
            else:
                items = x[1]
            if not items:
                out.append(b"\x80")
            else:
                out.append(b"\x9f")
                stack.append(b"\xff")
                stack.extend(reversed(items))
        elif k == "m":
            out.append(_cbor_head(5, len(x[1])))
            for kv in reversed(x[1]):
                stack.append(kv[1])
                stack.append(kv[0])
        else:
            raise Unsupported("bad Data node")
    return b"".join(out)


# ======================================================================= bitwise (CIP-121/122/123)

def integer_to_bytestring(big_endian, width, n):
    if n < 0:
        fail("integerToByteString: negative input")
    if width < 0 or width > MAX_OUTPUT_BYTES:
        fail("integerToByteString: bad width")
    need = (n.bit_length() + 7) // 8
    if width == 0:
        if need > MAX_OUTPUT_BYTES:
            fail("integerToByteString: result too long")
        width = need
    elif need > width:
        fail("integerToByteString: does not fit")
    return n.to_bytes(width, "big" if big_endian else "little")


def bytestring_to_integer(big_endian, bs):
    return int.from_bytes(bs, "big" if big_endian else "little")


def _logical(op, pad, a, b):
    la, lb = len(a), len(b)
    n = min(la, lb)
    x = int.from_bytes(a[:n], "big")
    y = int.from_bytes(b[:n], "big")
    r = (x & y) if op == "and" else (x | y) if op == "or" else (x ^ y)
    out = r.to_bytes(n, "big")
    if pad:
        # padding semantics: the shorter argument is extended *at the end* with the
        # identity of the operation, i.e. the tail of the longer one is copied
        out += a[n:] if la > lb else b[n:]
    return out


def and_bytestring(pad, a, b):
    return _logical("and", pad, a, b)


def or_bytestring(pad, a, b):
    return _logical("or", pad, a, b)


def xor_bytestring(pad, a, b):
    return _logical("xor", pad, a, b)


def complement_bytestring(bs):
    return bytes(b ^ 0xFF for b in bs)


def read_bit(bs, i):
    # bit 0 = least significant bit of the *last* byte (CIP-122 bit indexing)
    if i < 0 or i >= 8 * len(bs):
        fail("readBit: index out of bounds")
    return bool(bs[len(bs) - 1 - (i >> 3)] >> (i & 7) & 1)


def write_bits(bs, idxs, bit):
    out = bytearray(bs)
    n = len(bs)
    nbits = 8 * n
    for i in idxs:
        if i < 0 or i >= nbits:
            fail("writeBits: index out of bounds")
        if bit:
            out[n - 1 - (i >> 3)] |= 1 << (i & 7)
        else:
            out[n - 1 - (i >> 3)] &= ~(1 << (i & 7)) & 0xFF
    return bytes(out)


def replicate_byte(n, b):
    if n < 0 or n > MAX_OUTPUT_BYTES:
        fail("replicateByte: bad length")
    if b < 0 or b > 255:
        fail("replicateByte: byte out of range")
    return bytes([b]) * n


def shift_bytestring(bs, k, variant="E"):
    # Variant E: the shift is unlifted as a machine Int: goldens v3/.../shiftByteString/case-13
    # (2^63) and case-15 (-2^63-1) expect evaluation failure, case-12/14 (Int64 bounds) all-zero.
    # Variants A-D: CIP-123 as originally implemented takes an unbounded integer (any |k| >=
    # 8*len gives zeros).  No golden pins A-D (the v2 corpus predates the bitwise builtins);
    # see DISAGREEMENTS.md "unsure" section.
    if variant == "E":
        _as_int64(k, "shiftByteString")
    n = len(bs)
    nbits = 8 * n
    if n == 0 or k == 0:
        return bs
    if abs(k) >= nbits:
        return bytes(n)
    x = int.from_bytes(bs, "big")
    x = (x << k) & ((1 << nbits) - 1) if k > 0 else x >> -k  # positive = towards bit index up
    return x.to_bytes(n, "big")


def rotate_bytestring(bs, k, variant="E"):
    # goldens v3/.../rotateByteString/case-16, case-18: out-of-Int64 rotation fails (variant E);
    # variants A-D: rotation count reduced modulo the bit length (see shift_bytestring)
    if variant == "E":
        _as_int64(k, "rotateByteString")
    n = len(bs)
    if n == 0:
        return bs
    nbits = 8 * n
    k %= nbits
    if k == 0:
        return bs
    x = int.from_bytes(bs, "big")
    x = ((x << k) | (x >> (nbits - k))) & ((1 << nbits) - 1)
    return x.to_bytes(n, "big")


def count_set_bits(bs):
    return int.from_bytes(bs, "big").bit_count()


def find_first_set_bit(bs):
    x = int.from_bytes(bs, "big")
    if x == 0:
        return -1
    return (x & -x).bit_length() - 1


# ======================================================================= lists

def drop_list(n, xs):
    if n <= 0:
        return xs
    if n >= len(xs):
        return []
    return xs[n:]


# ======================================================================= builtin table
# CEK values (shared with cek.py): tuples with an int tag in position 0.
V_CON, V_DELAY, V_LAM, V_CONSTR, V_BUILTIN = 0, 1, 2, 3, 4

T_LIST_DATA = ("list", "data")
T_PAIR_DD = ("pair", "data", "data")
T_LIST_PAIR_DD = ("list", T_PAIR_DD)


class BuiltinDef:
    __slots__ = ("name", "hname", "key", "forces", "arity", "argtypes", "restype", "fn", "run")

    def __init__(self, name, forces, argtypes, restype, fn, run=None):
        self.name = name            # name in the specification / textual syntax
        # name in the harness JSON format (Rust enum variant, first letter lower-cased):
        # only the BLS builtins differ (bls12_381_G1_add -> bls12_381_G1_Add)
        self.hname = name
        if name.startswith("bls12_381_"):
            i = name.rindex("_") + 1
            self.hname = name[:i] + name[i].upper() + name[i + 1:]
        self.key = norm_name(name)
        self.forces = forces
        self.arity = len(argtypes)
        self.argtypes = argtypes
        self.restype = restype
        self.fn = fn
        self.run = run if run is not None else self._run_mono

    def _run_mono(self, args, ctx):
        """monomorphic builtin: unlift constants of exactly the declared types"""
        pv = []
        for a, t in zip(args, self.argtypes):
            if a[0] != V_CON or a[1] != t:
                fail("%s: argument type mismatch (wanted %s)" % (self.name, t))
            pv.append(a[2])
        return (V_CON, self.restype, self.fn(*pv))

    def __repr__(self):
        return "<builtin %s>" % self.name


class Ctx:
    """per-evaluation context handed to builtins"""
    __slots__ = ("variant", "logs")

    def __init__(self, variant):
        self.variant = variant
        self.logs = []


BUILTINS = {}
_ORDER = []


def _reg(name, forces, argtypes, restype, fn, run=None):
    b = BuiltinDef(name, forces, tuple(argtypes), restype, fn, run)
    BUILTINS[b.key] = b
    _ORDER.append(b)
    return b


def lookup(name):
    return BUILTINS.get(norm_name(name))


def _con(v, t, who):
    if v[0] != V_CON or v[1] != t:
        fail("%s: argument type mismatch (wanted %s)" % (who, t))
    return v[2]


def _any_con(v, who):
    if v[0] != V_CON:
        fail("%s: expected a constant" % who)
    return v


def _list_con(v, who):
    if v[0] != V_CON or v[1].__class__ is str or v[1][0] != "list":
        fail("%s: expected a list constant" % who)
    return v


def _pair_con(v, who):
    if v[0] != V_CON or v[1].__class__ is str or v[1][0] != "pair":
        fail("%s: expected a pair constant" % who)
    return v


I, B, S, U, BOOL, D = "integer", "bytestring", "string", "unit", "bool", "data"

# ---- integers
_reg("addInteger", 0, [I, I], I, lambda a, b: a + b)
_reg("subtractInteger", 0, [I, I], I, lambda a, b: a - b)
_reg("multiplyInteger", 0, [I, I], I, lambda a, b: a * b)
_reg("divideInteger", 0, [I, I], I, divide_integer)
_reg("quotientInteger", 0, [I, I], I, quotient_integer)
_reg("remainderInteger", 0, [I, I], I, remainder_integer)
_reg("modInteger", 0, [I, I], I, mod_integer)
_reg("equalsInteger", 0, [I, I], BOOL, lambda a, b: a == b)
_reg("lessThanInteger", 0, [I, I], BOOL, lambda a, b: a < b)
_reg("lessThanEqualsInteger", 0, [I, I], BOOL, lambda a, b: a <= b)
# ---- bytestrings
_reg("appendByteString", 0, [B, B], B, lambda a, b: a + b)
_reg("consByteString", 0, [I, B], B, None,
     lambda args, ctx: (V_CON, B, cons_bytestring(ctx.variant, _con(args[0], I, "consByteString"),
                                                  _con(args[1], B, "consByteString"))))
_reg("sliceByteString", 0, [I, I, B], B, slice_bytestring)
_reg("lengthOfByteString", 0, [B], I, len)
_reg("indexByteString", 0, [B, I], I, index_bytestring)
_reg("equalsByteString", 0, [B, B], BOOL, lambda a, b: a == b)
_reg("lessThanByteString", 0, [B, B], BOOL, lambda a, b: a < b)
_reg("lessThanEqualsByteString", 0, [B, B], BOOL, lambda a, b: a <= b)
# ---- hashes and signatures
_reg("sha2_256", 0, [B], B, sha2_256)
_reg("sha3_256", 0, [B], B, sha3_256)
_reg("blake2b_256", 0, [B], B, blake2b_256)
_reg("keccak_256", 0, [B], B, keccak_256)
_reg("blake2b_224", 0, [B], B, blake2b_224)
_reg("ripemd_160", 0, [B], B, ripemd_160)
_reg("verifyEd25519Signature", 0, [B, B, B], BOOL, verify_ed25519_signature)
_reg("verifyEcdsaSecp256k1Signature", 0, [B, B, B], BOOL, verify_ecdsa_secp256k1_signature)
_reg("verifySchnorrSecp256k1Signature", 0, [B, B, B], BOOL, verify_schnorr_secp256k1_signature)
# ---- strings
_reg("appendString", 0, [S, S], S, lambda a, b: a + b)
_reg("equalsString", 0, [S, S], BOOL, lambda a, b: a == b)
_reg("encodeUtf8", 0, [S], B, encode_utf8)
_reg("decodeUtf8", 0, [B], S, decode_utf8)


# ---- polymorphic control
def _if_then_else(args, ctx):
    return args[1] if _con(args[0], BOOL, "ifThenElse") else args[2]


def _choose_unit(args, ctx):
    _con(args[0], U, "chooseUnit")
    return args[1]


def _trace(args, ctx):
    ctx.logs.append(_con(args[0], S, "trace"))
    return args[1]


def _fst_pair(args, ctx):
    p = _pair_con(args[0], "fstPair")
    return (V_CON, p[1][1], p[2][0])


def _snd_pair(args, ctx):
    p = _pair_con(args[0], "sndPair")
    return (V_CON, p[1][2], p[2][1])


def _choose_list(args, ctx):
    l = _list_con(args[0], "chooseList")
    return args[1] if len(l[2]) == 0 else args[2]


def _mk_cons(args, ctx):
    # mkCons : forall a. a -> list a -> list a; both arguments must be constants and
    # the element's type must be *equal* to the list's element type
    # (goldens v3/.../mkCons/mkCons-2, -3: ill-typed cons -> evaluation failure)
    x = _any_con(args[0], "mkCons")
    l = _list_con(args[1], "mkCons")
    if l[1][1] != x[1]:
        fail("mkCons: element type differs from list element type")
    return (V_CON, l[1], [x[2]] + l[2])


def _head_list(args, ctx):
    l = _list_con(args[0], "headList")
    if not l[2]:
        fail("headList: empty list")
    return (V_CON, l[1][1], l[2][0])


def _tail_list(args, ctx):
    l = _list_con(args[0], "tailList")
    if not l[2]:
        fail("tailList: empty list")
    return (V_CON, l[1], l[2][1:])


def _null_list(args, ctx):
    l = _list_con(args[0], "nullList")
    return (V_CON, BOOL, len(l[2]) == 0)


def _drop_list(args, ctx):
    n = _con(args[0], I, "dropList")
    l = _list_con(args[1], "dropList")
    return (V_CON, l[1], drop_list(n, l[2]))


def _choose_data(args, ctx):
    d = _con(args[0], D, "chooseData")
    return args[1 + "cmlib".index(d[0])]


A_ = "*"  # a polymorphic (un-inspected) argument
_reg("ifThenElse", 1, [BOOL, A_, A_], A_, None, _if_then_else)
_reg("chooseUnit", 1, [U, A_], A_, None, _choose_unit)
_reg("trace", 1, [S, A_], A_, None, _trace)
_reg("fstPair", 2, [("pair", "a", "b")], "a", None, _fst_pair)
_reg("sndPair", 2, [("pair", "a", "b")], "b", None, _snd_pair)
_reg("chooseList", 2, [("list", "a"), A_, A_], A_, None, _choose_list)
_reg("mkCons", 1, ["a", ("list", "a")], ("list", "a"), None, _mk_cons)
_reg("headList", 1, [("list", "a")], "a", None, _head_list)
_reg("tailList", 1, [("list", "a")], ("list", "a"), None, _tail_list)
_reg("nullList", 1, [("list", "a")], BOOL, None, _null_list)
_reg("chooseData", 1, [D, A_, A_, A_, A_, A_], A_, None, _choose_data)

# ---- Data


def _un(kind, what):
    def f(d):
        if d[0] != kind:
            fail("%s: wrong Data constructor" % what)
        return d
    return f


_reg("constrData", 0, [I, T_LIST_DATA], D, lambda i, fs: ("c", i, tuple(fs)))
_reg("mapData", 0, [T_LIST_PAIR_DD], D, lambda kvs: ("m", tuple((k, v) for k, v in kvs)))
_reg("listData", 0, [T_LIST_DATA], D, lambda xs: ("l", tuple(xs)))
_reg("iData", 0, [I], D, lambda i: ("i", i))
_reg("bData", 0, [B], D, lambda b: ("b", b))
_reg("unConstrData", 0, [D], ("pair", I, T_LIST_DATA),
     lambda d: (_un("c", "unConstrData")(d)[1], list(d[2])))
_reg("unMapData", 0, [D], T_LIST_PAIR_DD, lambda d: [tuple(kv) for kv in _un("m", "unMapData")(d)[1]])
_reg("unListData", 0, [D], T_LIST_DATA, lambda d: list(_un("l", "unListData")(d)[1]))
_reg("unIData", 0, [D], I, lambda d: _un("i", "unIData")(d)[1])
_reg("unBData", 0, [D], B, lambda d: _un("b", "unBData")(d)[1])
_reg("equalsData", 0, [D, D], BOOL, data_equal)
_reg("serialiseData", 0, [D], B, serialise_data)
_reg("mkPairData", 0, [D, D], T_PAIR_DD, lambda a, b: (a, b))
_reg("mkNilData", 0, [U], T_LIST_DATA, lambda u: [])
_reg("mkNilPairData", 0, [U], T_LIST_PAIR_DD, lambda u: [])

# ---- bitwise / conversions
_reg("integerToByteString", 0, [BOOL, I, I], B, integer_to_bytestring)
_reg("byteStringToInteger", 0, [BOOL, B], I, bytestring_to_integer)
_reg("andByteString", 0, [BOOL, B, B], B, and_bytestring)
_reg("orByteString", 0, [BOOL, B, B], B, or_bytestring)
_reg("xorByteString", 0, [BOOL, B, B], B, xor_bytestring)
_reg("complementByteString", 0, [B], B, complement_bytestring)
_reg("readBit", 0, [B, I], BOOL, read_bit)
_reg("writeBits", 0, [B, ("list", I), BOOL], B, write_bits)
_reg("replicateByte", 0, [I, I], B, replicate_byte)
_reg("shiftByteString", 0, [B, I], B, None,
     lambda args, ctx: (V_CON, B, shift_bytestring(_con(args[0], B, "shiftByteString"),
                                                   _con(args[1], I, "shiftByteString"), ctx.variant)))
_reg("rotateByteString", 0, [B, I], B, None,
     lambda args, ctx: (V_CON, B, rotate_bytestring(_con(args[0], B, "rotateByteString"),
                                                    _con(args[1], I, "rotateByteString"), ctx.variant)))
_reg("countSetBits", 0, [B], I, count_set_bits)
_reg("findFirstSetBit", 0, [B], I, find_first_set_bit)
_reg("expModInteger", 0, [I, I, I], I, exp_mod_integer)
_reg("dropList", 1, [I, ("list", "a")], ("list", "a"), None, _drop_list)

# ---- BLS12-381: types are checked (a wrong-typed argument is a definite failure);
# the group operations themselves are delegated to bls.py when it is importable.
G1, G2, ML = "g1", "g2", "ml"


def _bls(name, argtypes, restype):
    def fn(*pv):
        try:
            from . import bls
        except Exception:
            bls = None
        impl = getattr(bls, norm_name(name), None) if bls is not None else None
        if impl is None:
            raise Unsupported("BLS12-381 builtin %s" % name)
        return impl(*pv)
    _reg(name, 0, argtypes, restype, fn)


for _g, _t in (("G1", G1), ("G2", G2)):
    _bls("bls12_381_%s_add" % _g, [_t, _t], _t)
    _bls("bls12_381_%s_neg" % _g, [_t], _t)
    _bls("bls12_381_%s_scalarMul" % _g, [I, _t], _t)
    _bls("bls12_381_%s_equal" % _g, [_t, _t], BOOL)
    _bls("bls12_381_%s_compress" % _g, [_t], B)
    _bls("bls12_381_%s_uncompress" % _g, [B], _t)
    _bls("bls12_381_%s_hashToGroup" % _g, [B, B], _t)
    _bls("bls12_381_%s_multiScalarMul" % _g, [("list", I), ("list", _t)], _t)
_bls("bls12_381_millerLoop", [G1, G2], ML)
_bls("bls12_381_mulMlResult", [ML, ML], ML)
_bls("bls12_381_finalVerify", [ML, ML], BOOL)


def signature_table():
    """[(name, forces, arity)] as written above from the spec's type signatures."""
    return [(b.name, b.forces, b.arity) for b in _ORDER]
