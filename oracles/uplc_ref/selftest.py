#!/usr/bin/env python3
"""Run the oracle's own parser + evaluator over the upstream conformance corpus.

  python3 -m uplc_ref.selftest            (from /verif/oracles)   or
  python3 /verif/oracles/uplc_ref/selftest.py [-j N] [-v] [--root DIR]

For every `*.uplc` under conformance/v3 (variant E) and conformance/v2 (variant D:
v2/term/case/case-5 pins that `case` on a constant fails there) the outcome is
compared with `*.uplc.expected`:
    "parse error" | "evaluation failure" | a program (compared as de Bruijn trees,
    constants by value, version included).
Budget goldens (`*.uplc.budget.expected`, v3 only): with the machine parameters
startup (100,100) and (16000,100) per step, cpu - 16000*steps - 100 (and the mem
analogue) is what builtins were charged: it must be >= 0, and exactly 0 when the
run made no saturated builtin call.
Exit status 0 iff every non-BLS case matches.
"""
import argparse
import multiprocessing
import os
import re
import sys

if __package__ in (None, ""):
    sys.path.insert(0, os.path.dirname(os.path.dirname(os.path.abspath(__file__))))
    __package__ = "uplc_ref"

from . import term as T                      # noqa: E402
from . import cek                            # noqa: E402
from .builtins import Unsupported, lookup    # noqa: E402

ROOT = os.path.join(os.environ.get("VERIF_REPO", "/repo"), "crates/uplc/test_data/conformance")
FUEL = 20_000_000
_BUDGET_RE = re.compile(r"cpu:\s*(-?\d+)\s*\|\s*mem:\s*(-?\d+)")
STEP_CPU, STEP_MEM, START_CPU, START_MEM = 16000, 100, 100, 100


def is_bls(path, text):
    return "bls12" in path.lower() or "bls12_381" in text


def builtin_ok(name):
    # The textual syntax uses the spec names; an unknown name is a parse error upstream.
    b = lookup(name)
    return b is not None and T.norm_name(name) == b.key


def outcome(text, variant):
    """-> ("parse error",) | ("evaluation failure", res) | ("ok", version, term, res)"""
    try:
        version, t = T.parse_program(text, builtin_ok)
    except T.ParseError as e:
        return ("parse error", str(e))
    res = cek.evaluate(t, variant=variant, fuel=FUEL)
    if "fail" in res:
        return ("evaluation failure", res)
    return ("ok", version, res["ok"], res)


def check_one(job):
    path, variant = job
    rel = os.path.relpath(path, ROOT)
    try:
        text = open(path, encoding="utf-8").read()
        exp_text = open(path + ".expected", encoding="utf-8").read()
    except OSError as e:
        return (rel, "mismatch", "cannot read: %s" % e)
    bls = is_bls(rel, text)
    try:
        got = outcome(text, variant)
    except Unsupported as e:
        return (rel, "unsupported", str(e))
    except cek.OutOfFuel as e:
        return (rel, "mismatch", "out of fuel: %s" % e)
    except Exception as e:  # the oracle must never crash
        return (rel, "mismatch", "CRASH %s: %s" % (type(e).__name__, e))
    exp = exp_text.strip()
    status, detail = "mismatch", ""
    if "parse error" in exp:
        if got[0] == "parse error":
            status = "parse-error-as-expected"
        else:
            detail = "expected parse error, got %s" % got[0]
    elif "evaluation failure" in exp:
        if got[0] == "evaluation failure":
            status = "failed-as-expected"
        else:
            detail = "expected evaluation failure, got %s %s" % (got[0], got[1] if got[0] == "parse error" else got[2])
    else:
        try:
            ev, et = T.parse_program(exp_text, builtin_ok)
        except T.ParseError as e:
            return (rel, "unsupported" if bls else "mismatch", "cannot parse expected file: %s" % e)
        if got[0] != "ok":
            detail = "expected a value, got %s (%s)" % (got[0], got[1] if got[0] == "parse error" else got[1].get("fail"))
        elif got[1] != ev:
            detail = "version %s != expected %s" % (got[1], ev)
        elif not T.term_json_equal(got[2], et):
            detail = "value differs: got %s expected %s" % (_short(got[2]), _short(et))
        else:
            status = "matched"
    if status == "mismatch" and bls and os.environ.get("UPLC_REF_STRICT_BLS") != "1":
        # BLS constants whose validity needs curve arithmetic, when bls.py cannot decide
        try:
            from . import bls as _b  # noqa: F401
            have_bls = True
        except Exception:
            have_bls = False
        if not have_bls:
            return (rel, "unsupported", detail)
    # ---- budget consistency (v3 only)
    if status in ("matched", "failed-as-expected") and variant == "E" and got[0] in ("ok", "evaluation failure"):
        bpath = path + ".budget.expected"
        if os.path.exists(bpath):
            m = _BUDGET_RE.search(open(bpath).read())
            res = got[-1]
            if m and got[0] == "ok":
                cpu, mem = int(m.group(1)), int(m.group(2))
                n = sum(res["steps"].values())
                rc, rm = cpu - STEP_CPU * n - START_CPU, mem - STEP_MEM * n - START_MEM
                if rc < 0 or rm < 0:
                    return (rel, "mismatch", "budget: %d steps cost more than the golden budget (%d,%d)" % (n, cpu, mem))
                if not res["calls"] and (rc or rm):
                    return (rel, "mismatch", "budget: no builtin calls but residual (%d,%d) after %d steps" % (rc, rm, n))
                return (rel, status, "budget-ok")
    return (rel, status, detail)


def check_string_measure():
    """Pin for exmem.string_size in variant E.  v3/builtin/semantics/appendString:
    `appendString "Ola" " mundo!"` costs ({cpu: 141057 | mem: 605}); 5 machine steps and the
    startup cost leave (60957, 5) for the builtin.  With the V3 cost model used to generate
    the goldens (tests/conformance.rs: appendString cpu = 1000 + 59957*(x+y), mem = 4 + (x+y))
    this gives x + y = 1: characters (3 + 7) are excluded, utf8-bytes // 4 (0 + 1) fits."""
    from . import exmem
    x = exmem.string_size("Ola", "E") + exmem.string_size(" mundo!", "E")
    ok = (1000 + 59957 * x, 4 + x) == (141057 - 5 * STEP_CPU - START_CPU, 605 - 5 * STEP_MEM - START_MEM)
    old = exmem.string_size("Ola", "C") + exmem.string_size(" mundo!", "C")
    return ok and old == 10


def _short(j, n=300):
    s = repr(j)
    return s if len(s) <= n else s[:n] + "..."


def collect(root):
    jobs = []
    for sub, variant in (("v3", "E"), ("v2", "D")):
        for d, _, files in os.walk(os.path.join(root, sub)):
            for f in files:
                if f.endswith(".uplc"):
                    jobs.append((os.path.join(d, f), variant))
    jobs.sort()
    return jobs


def main(argv=None):
    global ROOT
    ap = argparse.ArgumentParser()
    ap.add_argument("-j", type=int, default=os.cpu_count() or 4)
    ap.add_argument("-v", action="store_true")
    ap.add_argument("--root", default=ROOT)
    ap.add_argument("--filter", default=None)
    a = ap.parse_args(argv)
    ROOT = a.root
    jobs = collect(ROOT)
    if a.filter:
        jobs = [j for j in jobs if a.filter in j[0]]
    if not jobs:
        print("no conformance files under", ROOT)
        return 2
    if a.j > 1:
        with multiprocessing.Pool(a.j) as pool:
            results = pool.map(check_one, jobs, chunksize=16)
    else:
        results = [check_one(j) for j in jobs]
    counts = {}
    budget_ok = 0
    for rel, status, detail in results:
        counts[status] = counts.get(status, 0) + 1
        if detail == "budget-ok":
            budget_ok += 1
        if a.v or status == "mismatch":
            print("%-24s %s %s" % (status, rel, detail))
    unsupported = [r for r in results if r[1] == "unsupported"]
    print("conformance: %d files | matched %d | failed-as-expected %d | parse-error-as-expected %d | "
          "unsupported-BLS %d | MISMATCH %d | budget-consistent %d"
          % (len(results), counts.get("matched", 0), counts.get("failed-as-expected", 0),
             counts.get("parse-error-as-expected", 0), len(unsupported), counts.get("mismatch", 0), budget_ok))
    if not check_string_measure():
        print("MISMATCH exmem.string_size (variant E) does not reproduce the appendString budget golden")
        return 1
    if unsupported and not a.v:
        print("unsupported (BLS12-381): " + ", ".join(sorted({os.path.dirname(r[0]) for r in unsupported}))[:2000])
    return 1 if counts.get("mismatch", 0) else 0


if __name__ == "__main__":
    sys.exit(main())
