"""Negative typing workload for C06: programs in which a value of type `Data` flows into a
position of a concrete type WITHOUT `expect` (the only sanctioned down-cast). The type checker
must reject every one of them. If one is accepted, it is compiled and run on a Data value of the
wrong kind: a structural machine error (TypeMismatch, ...) from a program the checker accepted is
exactly "a well-typed program went wrong".

The random generators only ever write programs that are well typed by their own rules, so an
unsound *acceptance* can only be seen by writing ill-typed programs on purpose: one template per
syntactic position through which a value reaches a typed slot (call, pipe, pipe-call, capture,
lambda, operator, annotation, list / record / Option construction, return, branch, pattern,
builtin call, backpassing)."""
import common

PRELUDE = """use aiken/builtin

pub type P {
  a: Int,
  b: ByteArray,
}

fn inc(n: Int) -> Int {
  n + 1
}

fn add(x: Int, y: Int) -> Int {
  x + y
}

fn cat(b: ByteArray) -> ByteArray {
  builtin.append_bytearray(b, #"00")
}

fn same(d: Data) -> Data {
  d
}

fn with_int(n: Int, k: fn(Int) -> Int) -> Int {
  k(n)
}

fn total(xs: List<Int>) -> Int {
  when xs is {
    [] -> 0
    [x, ..rest] -> x + total(rest)
  }
}

"""

# name -> body of `pub fn e(d: Data, flag: Bool) -> Data { <body> }`; every body lets `d` reach an Int /
# ByteArray slot without `expect`
TEMPLATES = {
    "call": "let r: Data = inc(d)\n  r",
    "pipe-bare-function": "let r: Data = d |> inc\n  r",
    "pipe-call": "let r: Data = d |> inc()\n  r",
    "pipe-two-stages": "let r: Data = d |> inc |> inc\n  r",
    "pipe-after-data-stage": "let r: Data = d |> same |> cat\n  r",
    "pipe-capture-first": "let r: Data = d |> add(_, 1)\n  r",
    "pipe-capture-second": "let r: Data = d |> add(1, _)\n  r",
    "pipe-into-lambda": "let r: Data = d |> fn(n: Int) { n + 1 }\n  r",
    "capture-then-call": "let f = inc(_)\n  let r: Data = f(d)\n  r",
    "lambda-call": "let f = fn(n: Int) { n + 1 }\n  let r: Data = f(d)\n  r",
    "operator-plus": "let r: Data = d + 1\n  r",
    "operator-compare": "let r: Data = d < 1\n  r",
    "operator-equal": "let r: Data = d == 1\n  r",
    "annotation": "let n: Int = d\n  let r: Data = n + 1\n  r",
    "list-element": "let xs: List<Int> = [1, d]\n  let r: Data = total(xs)\n  r",
    "list-argument": "let r: Data = total([d])\n  r",
    "record-field": "let p = P { a: d, b: #\"\" }\n  let r: Data = p.a + 1\n  r",
    "option-payload": "let o: Option<Int> = Some(d)\n  let r: Data =\n    when o is {\n      Some(n) -> n + 1\n      None -> 0\n    }\n  r",
    "tuple-element": "let t: (Int, Int) = (d, 1)\n  let r: Data = t.1st + t.2nd\n  r",
    "if-branch": "let n: Int =\n    if flag {\n      d\n    } else {\n      1\n    }\n  let r: Data = n + 1\n  r",
    "when-int-pattern": "let r: Data =\n    when d is {\n      0 -> 1\n      _ -> 2\n    }\n  r",
    "builtin-call": "let r: Data = builtin.add_integer(d, 1)\n  r",
    "bytearray-call": "let r: Data = cat(d)\n  r",
    "backpassing": "let r: Data = {\n    let n <- with_int(d)\n    n + 1\n  }\n  r",
    "higher-order-argument": "let r: Data = with_int(d, inc)\n  r",
    "pipe-higher-order": "let r: Data = d |> with_int(inc)\n  r",
}
RETURN_TEMPLATE = ("return-position", "fn g(d: Data) -> Int {\n  d\n}\n\npub fn e(d: Data, flag: Bool) -> Data {\n  let r: Data = g(d) + 1\n  r\n}\n")
CONTROL = ("control-expect", "pub fn e(d: Data, flag: Bool) -> Data {\n  expect n: Int = d\n  let r: Data = inc(n)\n  r\n}\n")

ARGS = [[{"b": "00"}, {"c": "1", "f": []}], [{"l": []}, {"c": "0", "f": []}], [{"c": "0", "f": []}, {"c": "1", "f": []}], [{"i": "1"}, {"c": "1", "f": []}]]


def jobs():
    out = []
    items = [(n, PRELUDE + f"pub fn e(d: Data, flag: Bool) -> Data {{\n  {b}\n}}\n") for n, b in TEMPLATES.items()]
    items.append((RETURN_TEMPLATE[0], PRELUDE + RETURN_TEMPLATE[1]))
    items.append((CONTROL[0], PRELUDE + CONTROL[1]))
    for i, (name, src) in enumerate(items):
        out.append({"id": i, "op": "compile_eval", "plutus": "v3", "modules": [{"name": "m", "kind": "lib", "src": src}], "tracings": ["silent-all", "verbose-all"], "infer_tracing": "same", "detailed": False,
                    "entries": [{"kind": "fn", "module": "m", "name": "e", "args": ARGS}], "_name": name, "_src": src})
    return out


def judge(chk, prop, js, res, structural):
    for j in js:
        name, src = j["_name"], j["_src"]
        r = res.get(j["id"], {})
        if "runs" not in r:
            chk.inconc("illtyped-template-no-runs")
            continue
        for run in r["runs"]:
            chk.count("downcast_without_expect_programs")
            w = {"origin": "downcast-without-expect:" + name, "source": src, "tracing": run["tracing"]}
            if "rejected" in run:
                if name == "control-expect":
                    chk.inconc("control-rejected")
                elif run["rejected"].get("rejected") == "panic":
                    chk.violation(f"{prop}|type-checker-panic|downcast-without-expect|{name}", {**w, "observed": run["rejected"]})
                else:
                    chk.count("downcast_without_expect_rejected")
                    chk.held(common.h(["illtyped", name, run["tracing"]]))
                continue
            # accepted: run it on Data of the wrong kind
            er = run["entries"][0]
            if "compile_panic" in er:
                if name != "control-expect":
                    chk.violation(f"{prop}|accepted-then-code-generator-panic|downcast-without-expect|{name}", {**w, "panic": er["compile_panic"]})
                continue
            bad = False
            for pos, got in enumerate(er.get("results") or []):
                if "err" in got and got["err"] in structural:
                    bad = True
                    if name == "control-expect":
                        chk.violation(f"{prop}|structural-error|{got['err']}|expect-cast", {**w, "args": ARGS[pos], "observed": str(got)[:300]})
                    else:
                        chk.violation(f"{prop}|structural-error|{got['err']}|downcast-accepted-without-expect|{name}", {**w, "args": ARGS[pos], "observed": str(got)[:300]})
                    break
            if not bad:
                if name == "control-expect":
                    chk.count("control_expect_fails_safely")
                    chk.held(common.h(["illtyped", name, run["tracing"]]))
                else:
                    # accepted and no structural error on these inputs: reported, not judged
                    chk.count("downcast_without_expect_accepted_but_no_structural_error:" + name)
