#!/usr/bin/env python3
"""C02 — the optimiser never changes what compiler output computes (run-time translation
validation).

Hook H1 records, for every call of `aiken_optimize_and_intern` made while compiling, the
program on entry, at the entry of every pass, and the program returned to the code
generator. Each snapshot is given its denotation (strip the `__no_inline__` marker
lambdas, re-intern, convert) and evaluated by the real machine on the same run-time
arguments; adjacent snapshots must agree (same constant, or both abort), which names the
offending pass in the witness. Hook H2 cross-checks every occurrence count the inliner
trusts against an independent shadowing-aware recount. A panic anywhere in the pipeline on
compiler output is a violation. Programs that need the typed-list lowering of `afterwards`
(writeBits, BLS multi-scalar-mul) are compared from that stage on only."""
import json
import sys

import aiken_checks as A
import common
from common import Check, h


def main():
    a = common.parse_args(sys.argv[1:])
    if not a.no_build:
        common.build(["aiken-run"])
    chk = Check("C02", "translation_validation", a.tier)
    quick = a.tier != "thorough"
    n_args = 6 if quick else 16
    programs = 0
    pairs_compared = 0

    def judge_entry(er, w, tags, labeler=None):
        nonlocal programs, pairs_compared
        if "compile_panic" in er:
            msg = er["compile_panic"]
            loc = msg.split(" @ ")[-1]
            if "/optimize/" in loc or "optimize" in loc:
                head = msg.split(":")[0].split(" @ ")[0][:60]
                chk.violation(f"C02|optimiser-panic|{loc}|{head}", {**w, "panic": msg})
            else:
                chk.count("codegen_panics_outside_optimiser(C10)")
            return
        stages = er.get("stages")
        if not stages:
            chk.inconc("no-snapshots")
            return
        programs += 1
        chk.count("inline_counts_cross_checked", er.get("inline_checked", 0))
        for d in er.get("inline_disagreements", []) or []:
            chk.violation("C02|inliner-trusted-occurrence-count-is-wrong", {**w, "disagreement": d})
        lowering = er.get("needs_typed_list_lowering")
        if lowering:
            chk.count("programs_needing_typed_list_lowering(compared from `afterwards` on)")
        bad = False
        for prev, nxt in zip(stages, stages[1:]):
            if lowering and nxt["after"] != "afterwards":
                continue
            pairs_compared += 1
            if prev["outcomes"] == nxt["outcomes"]:
                continue
            for k, (x, y) in enumerate(zip(prev["outcomes"], nxt["outcomes"])):
                if x == y:
                    continue
                if "oom" in (x, y) or x.startswith("other") or y.startswith("other"):
                    chk.inconc("budget-or-no-verdict")
                    continue
                cls = lambda o: "value" if o.startswith("ok:") else o
                # exact attribution for generated modules: the label of the recorded source-level
                # deviation that reproduces the final compiled outcome (aiken_ref.explain), if any
                label = None
                if labeler is not None:
                    try:
                        label = labeler(k)
                    except Exception:
                        chk.count("explain_errors")
                if not label:
                    label = "harvested" if tags == ["harvested"] else "unexplained"
                chk.violation(f"C02|pass-changes-outcome|{nxt['after']}|{cls(x)}->{cls(y)}|{label}", {**w, "pass": nxt["after"], "argument_tuple_index": k, "before_pass": x[:300], "after_pass": y[:300], "all_stages": [[s["after"], s["outcomes"][k][:80]] for s in stages]})
                bad = True
                break
            if bad:
                break
        if not bad:
            chk.held(h([w.get("origin"), w.get("entry"), programs]), sample={**{k: (v[:500] if isinstance(v, str) else v) for k, v in w.items()}, "stages": [s["after"] for s in stages], "outcomes_of_final": stages[-1]["outcomes"][:3]} if programs % 397 == 1 else None)

    streams = [("default", 500 if quick else 8000, None), ("known-shapes", 250 if quick else 4000, {"allow_hazard": True, "include_known": True, "focus": None})]
    for stream, n, opts in streams:
        seed = chk.seed * 2 + (1 if stream != "default" else 0)
        cases = A.generated_cases(seed, n, n_args, opts)
        jobs = A.jobs_for_generated(cases, lambda c: [["silent-all"], ["verbose-all"], ["compact-all"]][c["index"] % 3], snapshots=True)
        res = A.run(jobs, timeout=600)
        for c in cases:
            if "gen_error" in c:
                continue
            r = res.get(c.get("job"), {})
            if "runs" not in r:
                if "died" in r:
                    chk.violation("C02|compiler-died", {"source": c["src"], "observed": r})
                else:
                    chk.inconc("no-runs")
                continue
            run = r["runs"][0]
            if "rejected" in run:
                chk.inconc("module-rejected")
                continue
            tags = sorted(f for f in c["features"] if f.startswith("known:"))
            for e, er in zip(c["entries"], run["entries"]):
                def labeler(pos, c=c, e=e, er=er, run=run):
                    import run_c01

                    got = (er.get("results") or [])[pos]
                    return run_c01.explain(seed, c["index"], n_args, opts, e["name"], e["sent"][pos], run["tracing"], got)

                judge_entry(er, {"origin": f"g-aiken:{stream}:{seed}:{c['index']}", "source": c["src"], "entry": e["name"], "tracing": run["tracing"], "args": [e["args"][i] for i in e["sent"]][:8]}, tags, labeler)
    # targeted shapes: every curryable builtin x constant positions x 2..4 repetitions (the passes that
    # fire only on repetition of one (builtin, constant) pair are hardly reached by the random stream)
    import opt_templates

    tcases = opt_templates.cases(chk.seed, n_args, quick)
    tjobs = A.jobs_for_generated(tcases, lambda c: [["silent-all"], ["verbose-all"]][c["index"] % 2], snapshots=True)
    res = A.run(tjobs, timeout=600)
    for c in tcases:
        r = res.get(c.get("job"), {})
        if "runs" not in r:
            if "died" in r:
                chk.violation("C02|compiler-died", {"source": c["src"], "observed": r})
            else:
                chk.inconc("no-runs")
            continue
        run = r["runs"][0]
        if "rejected" in run:
            chk.inconc("template-module-rejected")
            continue
        for e, er in zip(c["entries"], run["entries"]):
            chk.count("template_entries")
            judge_entry(er, {"origin": f"template:{c['labels'][e['name']]}", "source": c["src"], "entry": e["name"], "tracing": run["tracing"], "args": e["args"][:8]}, ["template"], lambda pos, c=c, e=e: "template:" + c["labels"][e["name"]].split("|")[0])
    hjobs, meta = A.jobs_for_harvested(lambda c: [["silent-all"], ["verbose-all"]][c["index"] % 2], snapshots=True, limit=None if not quick else 250)
    res = A.run(hjobs, timeout=600)
    for j in hjobs:
        r = res.get(j["id"], {})
        m = meta[j["id"]]
        if "runs" not in r:
            if "died" in r:
                chk.violation("C02|compiler-died", {"origin": m["origin"], "source": m["src"], "observed": r})
            else:
                chk.inconc("no-runs")
            continue
        run = r["runs"][0]
        if "rejected" in run:
            chk.inconc("module-rejected")
            continue
        for ent, er in zip(j["entries"], run["entries"]):
            judge_entry(er, {"origin": "harvest:" + m["origin"], "source": m["src"], "entry": ent["name"], "tracing": run["tracing"]}, ["harvested"])
    chk.assumptions = [
        "denotation of an intermediate program: strip `(lam __no_inline__ body)` markers, re-intern with CodeGenInterner, convert to de Bruijn, apply the Data arguments, evaluate with the real machine",
        "validators are compared unapplied (value: lambda) and tests without arguments; functions on generated run-time Data arguments",
        "the typed-list lowering in `afterwards` is a required lowering, not an optimisation: programs using writeBits / BLS multi-scalar-mul are compared from that stage on",
    ]
    chk.finish(
        rule="(before, after) program pairs for every optimiser pass, recorded by hook H1 while compiling G-aiken modules (default stream and the stream re-enabling recorded finding shapes), the targeted template modules (every curryable builtin x constant argument positions x 2..4 repetitions x same/mixed constants, as builtin and as operator) and the repository's harvested test modules; each pair evaluated on the entry's run-time argument tuples; disagreements_checked = adjacent pairs compared",
        programs=programs,
        disagreements_checked=pairs_compared,
        floor={"inline_counts_cross_checked": 1000, "template_entries": 300},
        extra_coverage={"evaluations_note": "programs = optimiser runs whose snapshots were all evaluated"},
    )


if __name__ == "__main__":
    A.in_big_thread(main)
