#!/usr/bin/env python3
"""C14 — trace settings never change what a program decides.

Differential on the real code only: every module is type-checked AND compiled under each
of the 9 `Tracing` values (3 levels x 3 scopes) and evaluated on the same arguments;
value-or-abort must be identical across the nine (traces, size and cost are recorded but
not compared). Workload: G-aiken modules (both the default stream and the stream that
re-enables the shapes of recorded findings, with `?`, failing `expect` with and without
messages, `trace`, `todo` / `fail` with labels) and every unit test harvested from the
repository's own test sources (as a test: pass/fail verdict under the V3 convention)."""
import json
import os
import sys

import aiken_checks as A
import common
from common import Check, h, norm


def okey(res):
    """value-or-abort class of one evaluation"""
    if "ok" in res:
        return "ok:" + json.dumps(norm(res["ok"]), sort_keys=True)
    if "err" in res:
        return "oom" if res["err"] == "OutOfExError" else "abort"
    if "panic" in res:
        return "panic"
    return "other"


def classify_split(by_tracing):
    """which tracing dimension separates the outcomes"""
    groups = {}
    for t, k in by_tracing.items():
        groups.setdefault(k, []).append(t)
    levels = {}
    for k, ts in groups.items():
        for t in ts:
            levels.setdefault(t.split("-")[0], set()).add(k)
    if all(len(v) == 1 for v in levels.values()):
        # the level alone decides
        kinds = {lvl: next(iter(v)) for lvl, v in levels.items()}
        silent, verbose = kinds.get("silent"), kinds.get("verbose")
        if silent != verbose:
            a = "abort" if silent == "abort" else "value"
            b = "abort" if verbose == "abort" else "value"
            return f"by-level|silent={a}|verbose={b}|compact={'=silent' if kinds.get('compact') == silent else '=verbose' if kinds.get('compact') == verbose else 'third'}"
        return "by-level|compact-differs"
    return "by-level-and-scope"


def main():
    a = common.parse_args(sys.argv[1:])
    if not a.no_build:
        common.build(["aiken-run"])
    chk = Check("C14", "exploration", a.tier)
    quick = a.tier != "thorough"
    n_args = 6 if quick else 16
    streams = [("default", 350 if quick else 6000, None), ("known-shapes", 120 if quick else 2000, {"allow_hazard": True, "include_known": True, "focus": None})]
    for stream, n, opts in streams:
        seed = chk.seed * 2 + (1 if stream != "default" else 0)
        cases = A.generated_cases(seed, n, n_args, opts)
        jobs = A.jobs_for_generated(cases, A.ALL_TRACINGS, detailed=False)
        res = A.run(jobs, timeout=600)
        for c in cases:
            if "gen_error" in c:
                continue
            r = res.get(c.get("job"), {})
            if "runs" not in r:
                chk.inconc("no-runs")
                continue
            runs = {run["tracing"]: run for run in r["runs"]}
            rejected = [t for t, run in runs.items() if "rejected" in run]
            if rejected:
                if len(rejected) != len(runs):
                    chk.violation("C14|accepted-under-some-tracings-only", {"source": c["src"], "rejected_under": rejected, "detail": runs[rejected[0]]["rejected"]})
                else:
                    chk.inconc("module-rejected")
                continue
            chk.count("modules_under_9_tracings")
            tags = sorted(f for f in c["features"] if f.startswith("known:"))
            for ei, e in enumerate(c["entries"]):
                per = {}
                for t, run in runs.items():
                    er = run["entries"][ei]
                    if "results" not in er:
                        per[t] = ["compile-panic"] * len(e["sent"])
                    else:
                        per[t] = [okey(x) for x in er["results"]]
                for pos, k in enumerate(e["sent"]):
                    by_t = {t: per[t][pos] for t in per}
                    if len(set(by_t.values())) == 1:
                        chk.held(h([stream, c["index"], e["name"], k]), sample={"source": c["src"][:600], "entry": e["name"], "args": e["args"][k], "outcome_under_all_9": next(iter(by_t.values()))[:200]} if (c["index"] + k) % 977 == 5 else None)
                        chk.count("cases_identical_under_9_tracings")
                        continue
                    if "oom" in by_t.values() or "other" in by_t.values():
                        chk.inconc("budget-or-no-verdict")
                        continue
                    split = classify_split(by_t)
                    # exact attribution: for each tracing whose outcome deviates from the source
                    # semantics, the recorded deviation that reproduces it (aiken_ref.explain)
                    labels = set()
                    import run_c01

                    exp = e["expected"][k]
                    for t, run in runs.items():
                        er = run["entries"][ei]
                        if "results" not in er:
                            continue
                        got = er["results"][pos]
                        same = (exp[0] == "abort" and by_t[t] == "abort") or (exp[0] == "ok" and by_t[t] == "ok:" + json.dumps(["con", "data", norm(exp[1])], sort_keys=True))
                        if same:
                            continue
                        try:
                            labels.add(run_c01.explain(seed, c["index"], n_args, opts, e["name"], k, t, got) or "unexplained")
                        except Exception:
                            labels.add("unexplained")
                    label = "+".join(sorted(labels)) if labels else "unexplained"
                    chk.violation(f"C14|outcome-depends-on-tracing|{split}|{label}", {"stream": stream, "seed": seed, "module_index": c["index"], "source": c["src"], "entry": e["name"], "args": e["args"][k], "outcomes": by_t, "interpreter_expected": e["expected"][k]})
    # hand-written tracing-sensitive templates: every construct whose lowering depends on the
    # trace level (casts with and without error messages, `?`, `expect` on patterns, fail/todo
    # with labels, traces in branches), each with arguments on both sides of its abort condition
    I = lambda n: {"i": str(n)}
    Bt = lambda hx: {"b": hx}
    T, F_ = {"c": "1", "f": []}, {"c": "0", "f": []}
    some = lambda x: {"c": "0", "f": [x]}
    none = {"c": "1", "f": []}
    templates = [
        ("expect-cast-used-in-one-branch", "pub fn e(d: Data, b: Bool) -> Data {\n  expect v: Int = d\n  let r: Data = if b { v } else { 0 }\n  r\n}\n", [[I(1), T], [I(1), F_], [Bt("00"), T], [Bt("00"), F_]], "call-by-need-expect-cast"),
        ("expect-cast-flows-back-to-data", "pub fn e(d: Data, b: Bool) -> Data {\n  expect v: ByteArray = d\n  let r: Data = [v]\n  r\n}\n", [[Bt("00"), T], [I(1), T], [{"l": []}, F_]], "F3_cast_cancel_expect"),
        ("expect-cast-strictly-used", "pub fn e(d: Data, b: Bool) -> Data {\n  expect v: Int = d\n  let r: Data = v + 1\n  r\n}\n", [[I(1), T], [Bt("00"), T], [{"l": []}, F_]], None),
        ("expect-option-pattern", "pub fn e(o: Option<Int>, b: Bool) -> Data {\n  expect Some(x) = o\n  let r: Data = if b { x } else { 0 }\n  r\n}\n", [[some(I(3)), T], [none, T], [none, F_]], None),
        ("trace-if-false-in-and", "pub fn e(a: Int, b: Bool) -> Data {\n  let ok = (a > 0)? && b?\n  let r: Data = ok\n  r\n}\n", [[I(1), T], [I(0), T], [I(1), F_], [I(0), F_]], None),
        ("trace-if-false-in-or", "pub fn e(a: Int, b: Bool) -> Data {\n  let ok = (a > 0)? || b?\n  let r: Data = ok\n  r\n}\n", [[I(1), T], [I(0), T], [I(1), F_], [I(0), F_]], None),
        ("fail-with-label-in-branch", "pub fn e(a: Int, b: Bool) -> Data {\n  let r: Data = if b { fail @\"nope\" } else { a }\n  r\n}\n", [[I(1), T], [I(1), F_]], None),
        ("todo-with-label-in-when", "pub fn e(o: Option<Int>, b: Bool) -> Data {\n  let r: Data = when o is {\n    Some(x) -> x\n    None -> todo @\"later\"\n  }\n  r\n}\n", [[some(I(3)), T], [none, T]], None),
        ("trace-in-branches", "pub fn e(a: Int, b: Bool) -> Data {\n  let r: Data = if b {\n    trace @\"yes\"\n    a + 1\n  } else {\n    trace @\"no\": a\n    a - 1\n  }\n  r\n}\n", [[I(1), T], [I(1), F_]], None),
        ("expect-bool-with-trace", "pub fn e(a: Int, b: Bool) -> Data {\n  expect (a > 0)?\n  expect b\n  let r: Data = a\n  r\n}\n", [[I(1), T], [I(0), T], [I(1), F_]], None),
        ("expect-list-pattern", "pub fn e(xs: List<Int>, b: Bool) -> Data {\n  expect [x, ..] = xs\n  let r: Data = if b { x } else { 7 }\n  r\n}\n", [[{"l": [I(5)]}, T], [{"l": []}, T], [{"l": []}, F_]], None),
        ("expect-record-cast", "pub type P { a: Int, b: ByteArray }\n\npub fn e(d: Data, b: Bool) -> Data {\n  expect p: P = d\n  let r: Data = if b { p.a } else { 0 }\n  r\n}\n", [[{"c": "0", "f": [I(1), Bt("00")]}, T], [{"c": "0", "f": [I(1)]}, F_], [{"c": "1", "f": [I(1), Bt("00")]}, F_], [I(0), F_]], None),
        # bindings whose only use is inside a trace (argument or label): the trace may disappear with
        # the setting, the binding's evaluation must not
        ("let-used-only-as-trace-argument", "pub fn e(a: Int, b: Bool) -> Data {\n  let x = 10 / a\n  trace @\"x\": x\n  let r: Data = a\n  r\n}\n", [[I(1), T], [I(0), T], [I(0), F_]], None),
        ("two-lets-used-only-as-trace-arguments", "use aiken/builtin\n\npub fn e(a: Int, b: Bool) -> Data {\n  let x = 10 / a\n  let y = builtin.head_list(if b { [a] } else { [] })\n  trace @\"xy\": x, y\n  let r: Data = a\n  r\n}\n", [[I(1), T], [I(0), T], [I(1), F_]], None),
        ("expect-used-only-as-trace-argument", "pub fn e(d: Data, b: Bool) -> Data {\n  expect v: Int = d\n  trace @\"v\": v\n  let r: Data = b\n  r\n}\n", [[I(1), T], [Bt("00"), T], [{"l": []}, F_]], "F3_cast_cancel_expect"),  # rendering v re-wraps it: iData(unIData d) is cancelled, the failing cast disappears under verbose-user only
        ("let-used-only-in-trace-label", "use aiken/builtin\n\npub fn e(a: Int, b: Bool) -> Data {\n  let s = builtin.decode_utf8(builtin.integer_to_bytearray(True, 0, 10 / a + 48))\n  trace s\n  let r: Data = a\n  r\n}\n", [[I(1), T], [I(0), T], [I(0), F_]], None),
        ("let-used-only-as-trace-argument-in-branch", "pub fn e(a: Int, b: Bool) -> Data {\n  let r: Data =\n    if b {\n      let x = 10 / a\n      trace @\"x\": x\n      a\n    } else {\n      a + 1\n    }\n  r\n}\n", [[I(1), T], [I(0), T], [I(0), F_]], None),
        ("soft-cast-if-is","pub fn e(d: Data, b: Bool) -> Data {\n  let r: Data = if d is v: Int { v + 1 } else { 0 }\n  r\n}\n", [[I(1), T], [Bt("00"), T]], None),
    ]
    tjobs = []
    for ti, (name, src, argsets, known_label) in enumerate(templates):
        tjobs.append({"id": ti, "op": "compile_eval", "plutus": "v3", "modules": [{"name": "m", "kind": "lib", "src": src}], "tracings": A.ALL_TRACINGS, "infer_tracing": "same", "detailed": False, "entries": [{"kind": "fn", "module": "m", "name": "e", "args": argsets}]})
    tres = A.run(tjobs, timeout=300)
    for ti, (name, src, argsets, known_label) in enumerate(templates):
        r = tres.get(ti, {})
        if "runs" not in r:
            chk.inconc("template-not-run")
            continue
        runs = {run["tracing"]: run for run in r["runs"]}
        if any("rejected" in run for run in runs.values()):
            if not all("rejected" in run for run in runs.values()):
                chk.violation("C14|accepted-under-some-tracings-only", {"template": name, "source": src})
            else:
                chk.inconc("template-rejected:" + name)
            continue
        chk.count("templates_under_9_tracings")
        for pos, args in enumerate(argsets):
            by_t = {}
            for t, run in runs.items():
                er = run["entries"][0]
                by_t[t] = okey(er["results"][pos]) if "results" in er else "compile-panic"
            if len(set(by_t.values())) == 1:
                chk.held(h(["template", name, pos]))
                chk.count("template_cases_identical_under_9_tracings")
            else:
                chk.violation(f"C14|outcome-depends-on-tracing|{classify_split(by_t)}|{known_label or 'template:' + name}", {"template": name, "source": src, "args": args, "outcomes": by_t})
    # Data casts under every trace setting: `expect x: T = d` for generated non-primitive types
    # (ADTs, records, generics, lists, tuples, Option; casts to these are eager under every
    # setting) on conforming values and near-miss mutants. The verbose and the silent lowering of
    # a cast are different code (trace-carrying soft casts vs plain checks): they must accept
    # exactly the same Data.
    import subprocess

    tv = json.loads(subprocess.run([sys.executable, os.path.join(os.path.dirname(os.path.abspath(__file__)), "schema_values.py"), str(chk.seed), str(60 if quick else 1200)], capture_output=True, text=True).stdout or "[]")
    # fixed part: the types whose items are checked by different code in the traced and the
    # untraced lowering (Bool / Void / Option inside lists, tuples, pairs and record fields), with
    # malformed items: wrong constructor index, extra fields, wrong Data kind
    bad2, t_extra, none_extra = {"c": "2", "f": []}, {"c": "1", "f": [I(42)]}, {"c": "1", "f": [I(1)]}
    unit, unit1, unit_f = {"c": "0", "f": []}, {"c": "1", "f": []}, {"c": "0", "f": [I(1)]}
    L = lambda *xs: {"l": list(xs)}
    fixed = [
        ("", "List<Bool>", [L(), L(F_, T)], [L(bad2), L(t_extra), L(I(1)), L(T, {"c": "7", "f": []}), I(0), {"m": []}]),
        ("", "List<Void>", [L(), L(unit, unit)], [L(unit1), L(unit_f), L(unit, I(0))]),
        ("", "Option<Bool>", [some(T), none], [some(bad2), some(t_extra), none_extra, {"c": "0", "f": []}, {"c": "0", "f": [T, T]}]),
        ("", "(Bool, Int)", [L(T, I(1))], [L(bad2, I(1)), L(t_extra, I(1)), L(T), L(T, I(1), I(2)), L(I(1), T)]),
        ("", "Pairs<Bool, Bool>", [{"m": []}, {"m": [[T, F_]]}], [{"m": [[bad2, F_]]}, {"m": [[T, t_extra]]}, L(L(T, F_))]),
        ("", "List<List<Bool>>", [L(L(T), L())], [L(L(bad2)), L(L(T), L(t_extra)), L(T)]),
        ("", "List<Option<Int>>", [L(some(I(1)), none)], [L(bad2), L(none_extra), L(some(T)), L({"c": "0", "f": []}), L({"c": "0", "f": [I(1), I(2)]})]),
        ("pub type Dt {\n  owner: ByteArray,\n  flags: List<Bool>,\n}\n", "Dt", [{"c": "0", "f": [Bt("00"), L(T, F_)]}], [{"c": "0", "f": [Bt("00"), L(bad2)]}, {"c": "0", "f": [Bt("00"), L(t_extra)]}, {"c": "0", "f": [Bt("00")]}, {"c": "0", "f": [Bt("00"), L(T), I(0)]}, {"c": "1", "f": [Bt("00"), L(T)]}]),
        ("pub type Sw {\n  On { b: Bool, u: Void }\n  Off\n}\n", "List<Sw>", [L({"c": "0", "f": [T, unit]}, {"c": "1", "f": []})], [L({"c": "0", "f": [bad2, unit]}), L({"c": "0", "f": [T, unit1]}), L({"c": "0", "f": [t_extra, unit]}), L({"c": "1", "f": [I(1)]}), L({"c": "2", "f": []})]),
    ]
    tv = [{"defs": d, "type": ty, "primitive": False, "conforming": conf, "nonconforming": non} for d, ty, conf, non in fixed] + tv
    cjobs = []
    cmeta = {}
    for ci, t in enumerate(tv):
        if t["primitive"] or not t["conforming"]:
            continue
        src = t["defs"] + f"\n\npub fn accept(d: Data) -> Data {{\n  expect x: {t['type']} = d\n  let r: Data = x\n  r\n}}\n"
        vals = t["conforming"] + t["nonconforming"]
        cjobs.append({"id": len(cjobs), "op": "compile_eval", "plutus": "v3", "modules": [{"name": "m", "kind": "lib", "src": src}], "tracings": A.ALL_TRACINGS, "infer_tracing": "same", "detailed": False, "entries": [{"kind": "fn", "module": "m", "name": "accept", "args": [[v] for v in vals]}]})
        cmeta[len(cjobs) - 1] = (src, t["type"], vals, len(t["conforming"]))
    cres = A.run(cjobs, timeout=300)
    for cj in cjobs:
        src, tstr, vals, nconf = cmeta[cj["id"]]
        r = cres.get(cj["id"], {})
        if "runs" not in r or any("rejected" in run for run in r["runs"]):
            chk.inconc("cast-module-not-compiled")
            continue
        runs = {run["tracing"]: run for run in r["runs"]}
        chk.count("cast_types_under_9_tracings")
        for pos, v in enumerate(vals):
            by_t = {}
            for tname, run in runs.items():
                er = run["entries"][0]
                by_t[tname] = okey(er["results"][pos]) if "results" in er else "compile-panic"
            if len(set(by_t.values())) == 1:
                chk.held(h(["cast", src, pos]))
                chk.count("cast_cases_identical_under_9_tracings")
            else:
                # a cast that is one bare builtin (no per-item check: every item is Data) followed by the
                # up-cast back is the recorded cast-cancellation defect (listData(unListData d) -> d)
                import re as _re

                aliases = {n: ([p.strip() for p in ps.split(",")] if ps else [], body) for n, ps, body in _re.findall(r"(?m)^(?:pub )?type (\w+)(?:<([^>]*)>)? =\s*(.+)$", src)}

                def parse_t(s, i=0):
                    """type expression -> (tree, next index); tree = (head, [args]) or ("(", [items])"""
                    s = s.replace(" ", "") if i == 0 else s
                    if s[i] == "(":
                        items, i = [], i + 1
                        while s[i] != ")":
                            t_, i = parse_t(s, i)
                            items.append(t_)
                            if s[i] == ",":
                                i += 1
                        return ("(", items), i + 1
                    j = i
                    while j < len(s) and (s[j].isalnum() or s[j] in "_."):
                        j += 1
                    head, args = s[i:j], []
                    if j < len(s) and s[j] == "<":
                        j += 1
                        while s[j] != ">":
                            t_, j = parse_t(s, j)
                            args.append(t_)
                            if s[j] == ",":
                                j += 1
                        j += 1
                    return (head, args), j

                def expand(t_, env=None, depth=0):
                    head, args = t_
                    if env and head in env and not args:
                        return env[head]
                    args = [expand(a, env, depth + 1) for a in args]
                    if head in aliases and depth < 12:
                        ps, body = aliases[head]
                        if len(ps) == len(args):
                            return expand(parse_t(body)[0], dict(zip(ps, args)), depth + 1)
                    return (head, args)

                try:
                    flat = expand(parse_t(tstr)[0])
                except (IndexError, RecursionError):
                    flat = None
                DATA = ("Data", [])
                bare = flat in (("List", [DATA]), ("Pairs", [DATA, DATA]), ("List", [("Pair", [DATA, DATA])]))
                label = "F3_cast_cancel_expect" if bare else "cast-to-non-primitive-type"
                chk.violation(f"C14|outcome-depends-on-tracing|{classify_split(by_t)}|{label}", {"source": src, "type": tstr, "value": v, "value_conforms": pos < nconf, "outcomes": by_t})
    # harvested unit tests: pass/fail verdict under the nine settings
    jobs, meta = A.jobs_for_harvested(A.ALL_TRACINGS, detailed=True, limit=None if not quick else 200)
    res = A.run(jobs, timeout=600)
    for j in jobs:
        r = res.get(j["id"], {})
        m = meta[j["id"]]
        if "runs" not in r:
            chk.inconc("no-runs")
            continue
        runs = {run["tracing"]: run for run in r["runs"]}
        rejected = [t for t, run in runs.items() if "rejected" in run]
        if rejected:
            if len(rejected) != len(runs):
                chk.violation("C14|accepted-under-some-tracings-only", {"origin": m["origin"], "source": m["src"], "rejected_under": rejected, "detail": runs[rejected[0]]["rejected"]})
            else:
                chk.inconc("module-rejected")
            continue
        nent = len(j["entries"])
        for ei in range(nent):
            ent = j["entries"][ei]
            by_t = {}
            for t, run in runs.items():
                er = run["entries"][ei]
                if "results" not in er:
                    by_t[t] = "compile-panic" if "compile_panic" in er else "no-result"
                elif ent["kind"] == "test":
                    x = er["results"][0]
                    by_t[t] = ("failed" if x.get("failed", [None, None])[1] else "passed") if "failed" in x else okey(x)
                else:
                    by_t[t] = "compiled"
            if len(set(by_t.values())) == 1:
                chk.held(h(["harvest", m["origin"], ent["name"]]))
                chk.count("harvested_entries_identical_under_9_tracings")
            else:
                chk.violation(f"C14|outcome-depends-on-tracing|{classify_split(by_t)}|harvested", {"origin": m["origin"], "source": m["src"], "entry": ent["name"], "outcomes": by_t})
    chk.assumptions = [
        "value-or-abort is compared (constants by value, all aborts one class, budget exhaustion is no verdict); trace text, size and cost are not compared",
        "a `trace` whose message expression aborts is a grey zone under Silent and is never generated",
    ]
    chk.finish(
        rule="G-aiken modules (default and known-shapes streams) x entries x argument tuples, and harvested unit tests / validators, each type-checked and compiled under all 9 tracings; distinct = (module, entry, argument tuple)",
        floor={"cases_identical_under_9_tracings": 3000, "harvested_entries_identical_under_9_tracings": 100, "modules_under_9_tracings": 200},
    )


if __name__ == "__main__":
    A.in_big_thread(main)
