#!/usr/bin/env python3
"""C07 — pattern matching is exhaustive when accepted and first-match when run (see patterns/)."""
import os
import sys

here = os.path.dirname(os.path.abspath(__file__))
sys.path = [p for p in sys.path if os.path.abspath(p or ".") != os.path.join(here, "patterns")]
sys.path.insert(0, here)
import wrap
from patterns import run_c07  # noqa: E402

if __name__ == "__main__":
    wrap.run_component(
        "C07", "exploration", run_c07.run,
        rule="all clause lists of length <= 3 over the complete depth-<=2 pattern universe of 9 small scrutinee types (exhaustive slice; more types in the thorough tier) plus random deeper clause lists up to 6 clauses and let/expect destructuring; oracle = brute-force matcher over enumerated scrutinee values (depth+1, list length+1, every literal mentioned plus a fresh one); compared: accept/reject verdict, reported missing patterns, flagged redundant clause, and for accepted clause lists the clause index and bindings returned by the compiled code on every enumerated value under silent and verbose tracing; distinct = clause-list specs",
        floor={"evaluations": 20000},
        assumptions=[
            "the brute-force matcher (patterns/brute.py) and the value enumeration (patterns/types.py) are the trusted base; cross-checked by a second, position-directed enumeration",
            "the compiler's `unmatched` list is judged as a set of witnesses (each must be truly unmatched); it is not required to cover every unmatched value (set C07_STRICT_COVER=1 to require that)",
        ],
    )
