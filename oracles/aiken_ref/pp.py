"""Pretty-printer: generator AST (gast.py) -> Aiken source text."""
import gast as G

P_PIPE, P_OR, P_AND, P_CMP, P_ADD, P_MUL, P_UN, P_POST, P_ATOM = 0, 2, 3, 4, 6, 7, 8, 9, 10

BINPREC = {"||": P_OR, "&&": P_AND, "==": P_CMP, "!=": P_CMP, "<": P_CMP, "<=": P_CMP, ">": P_CMP, ">=": P_CMP, "+": P_ADD, "-": P_ADD, "*": P_MUL, "/": P_MUL, "%": P_MUL}

SEQ_KINDS = ("Let", "Expect", "ExpectBool", "Trace", "Backpass")
ORDINALS = ["1st", "2nd", "3rd", "4th"]


def ty(t):
    k = t[0]
    if k == "Int":
        return "Int"
    if k == "Bool":
        return "Bool"
    if k == "Bytes":
        return "ByteArray"
    if k == "String":
        return "String"
    if k == "Void":
        return "Void"
    if k == "Data":
        return "Data"
    if k == "List":
        return "List<" + ty(t[1]) + ">"
    if k == "Tuple":
        return "(" + ", ".join(ty(x) for x in t[1:]) + ")"
    if k == "Pair":
        return "Pair<" + ty(t[1]) + ", " + ty(t[2]) + ">"
    if k == "Adt":
        return t[1] + ("<" + ", ".join(ty(x) for x in t[2]) + ">" if t[2] else "")
    if k == "Fn":
        return "fn(" + ", ".join(ty(x) for x in t[1]) + ") -> " + ty(t[2])
    if k == "Var":
        return t[1]
    raise ValueError(t)


def ind(s, n=2):
    pad = " " * n
    return "\n".join(pad + line if line else line for line in s.split("\n"))


def bytes_lit(b, style):
    if style == "str":
        return '"' + b.decode("ascii") + '"'
    if style == "arr":
        return "#[" + ", ".join(str(x) for x in b) + "]"
    return '#"' + b.hex() + '"'


def int_lit(n, style):
    if style == "hex" and n >= 0:
        return hex(n)
    if style == "und" and abs(n) >= 1000:
        s = str(abs(n))
        parts = []
        while s:
            parts.append(s[-3:])
            s = s[:-3]
        return ("-" if n < 0 else "") + "_".join(reversed(parts))
    return str(n)


def string_lit(s):
    return '@"' + s + '"'


class Printer(object):
    def __init__(self, module):
        self.m = module
        self.adts = dict(G.PRELUDE_ADTS)
        for a in module.adts:
            self.adts[a.name] = a
        self.alias = {}
        self.qualified = set()

    # ------------------------------------------------------------ patterns
    def pat(self, p):
        k = p.K
        if k == "PVar":
            return p.name
        if k == "PWild":
            return "_"
        if k == "PInt":
            return str(p.n)
        if k == "PBytes":
            return bytes_lit(p.b, p.style)
        if k == "PBool":
            return "True" if p.v else "False"
        if k == "PVoid":
            return "Void"
        if k == "PCon":
            ctor = self.adts[p.adt].ctors[p.idx]
            if not ctor.fields:
                return ctor.name
            if p.style == "pos":
                parts = [self.pat(sp) for _i, sp in p.fields]
                if p.spread:
                    parts.append("..")
                return ctor.name + "(" + ", ".join(parts) + ")"
            parts = []
            for i, sp in p.fields:
                label = ctor.fields[i][0]
                if p.style == "pun" and sp.K == "PVar" and sp.name == label:
                    parts.append(label)
                else:
                    parts.append(label + ": " + self.pat(sp))
            if p.spread:
                parts.append("..")
            return ctor.name + " { " + ", ".join(parts) + " }"
        if k == "PTuple":
            return "(" + ", ".join(self.pat(x) for x in p.subs) + ")"
        if k == "PPair":
            return "Pair(" + self.pat(p.a) + ", " + self.pat(p.b) + ")"
        if k == "PList":
            parts = [self.pat(x) for x in p.elems]
            if p.tail == "discard":
                parts.append("..")
            elif p.tail is not None:
                parts.append(".." + p.tail.name)
            return "[" + ", ".join(parts) + "]"
        if k == "PAs":
            return self.pat(p.pat) + " as " + p.name
        raise ValueError(k)

    # ------------------------------------------------------------ expressions
    def block(self, e):
        """`{ ... }` holding e as a sequence."""
        return "{\n" + ind(self.seq(e)) + "\n}"

    def seq(self, e):
        """e printed as the contents of a block (statements separated by newlines)."""
        k = e.K
        if k == "Let":
            a = ": " + ty(e.annot) if e.annot is not None else ""
            return "let " + self.pat(e.pat) + a + " = " + self.rhs(e.rhs) + "\n" + self.seq(e.body)
        if k == "Expect":
            a = ": " + ty(e.annot) if e.annot is not None else ""
            return "expect " + self.pat(e.pat) + a + " = " + self.rhs(e.rhs) + "\n" + self.seq(e.body)
        if k == "ExpectBool":
            return "expect " + self.rhs(e.cond) + "\n" + self.seq(e.body)
        if k == "Trace":
            return "trace " + string_lit(e.msg) + "\n" + self.seq(e.body)
        if k == "Backpass":
            ps = ", ".join(n for n, _t in e.params)
            call = self.ex(e.fn, P_POST) + "(" + ", ".join(self.ex(a, 0) for a in e.args) + ")"
            return "let " + ps + " <- " + call + "\n" + self.seq(e.body)
        if k in ("Fail", "Todo"):
            return self.ex0(e)[0]
        return self.ex(e, 0)

    def rhs(self, e):
        if e.K in SEQ_KINDS:
            return self.block(e)
        return self.ex(e, 0)

    def body(self, e):
        """a `{ }` delimited body (function, if branch, lambda)."""
        return self.block(e)

    def ex(self, e, p):
        s, q = self.ex0(e)
        if q < p:
            return "(" + s + ")"
        return s

    def ex0(self, e):
        """-> (text, precedence of the outermost construct)"""
        k = e.K
        if k in SEQ_KINDS:
            return self.block(e), P_ATOM
        if k == "Lit":
            t = e.ty[0]
            if t == "Int":
                s = int_lit(e.val, e.style)
                return s, (P_UN if e.val < 0 else P_ATOM)
            if t == "Bool":
                return ("True" if e.val else "False"), P_ATOM
            if t == "Bytes":
                return bytes_lit(e.val, e.style), P_ATOM
            if t == "String":
                return string_lit(e.val), P_ATOM
            if t == "Void":
                return "Void", P_ATOM
            raise ValueError(e.ty)
        if k == "Var":
            if e.name in self.alias:
                return self.alias[e.name], P_ATOM
            if e.name in self.qualified:
                return "lib." + e.name, P_ATOM
            return e.name, P_ATOM
        if k == "ListE":
            parts = [self.ex(x, 0) for x in e.elems]
            if e.tail is not None:
                parts.append(".." + self.ex(e.tail, P_POST))
            return "[" + ", ".join(parts) + "]", P_ATOM
        if k == "TupleE":
            return "(" + ", ".join(self.ex(x, 0) for x in e.elems) + ")", P_ATOM
        if k == "PairE":
            return "Pair(" + self.ex(e.a, 0) + ", " + self.ex(e.b, 0) + ")", P_ATOM
        if k == "ConE":
            ctor = self.adts[e.adt].ctors[e.idx]
            if not ctor.fields:
                return ctor.name, P_ATOM
            if e.style == "rec":
                parts = [ctor.fields[i][0] + ": " + self.ex(a, 0) for i, a in enumerate(e.args)]
                return ctor.name + " { " + ", ".join(parts) + " }", P_ATOM
            return ctor.name + "(" + ", ".join(self.ex(a, 0) for a in e.args) + ")", P_ATOM
        if k == "Bin":
            q = BINPREC[e.op]
            if q == P_CMP:
                l = self.ex(e.l, q + 1)
                r = self.ex(e.r, q + 1)
            elif e.op in ("&&", "||"):
                l = self.ex(e.l, q + 1)
                r = self.ex(e.r, q + 1)
            else:
                l = self.ex(e.l, q)
                r = self.ex(e.r, q + 1)
            return l + " " + e.op + " " + r, q
        if k == "Un":
            return e.op + self.ex(e.e, P_POST), P_UN
        if k == "Chain":
            return e.kind + " {\n" + ind(",\n".join(self.ex(x, 0) for x in e.es) + ",") + "\n}", P_ATOM
        if k == "If":
            out = ""
            for i, (c, b) in enumerate(e.branches):
                out += ("if " if i == 0 else " else if ") + self.ex(c, 0) + " " + self.body(b)
            out += " else " + self.body(e.els)
            return out, 1
        if k == "IfIs":
            out = "if " + self.ex(e.subj, P_POST) + " is " + self.pat(e.pat) + ": " + ty(e.cast_ty) + " " + self.body(e.then)
            out += " else " + self.body(e.els)
            return out, 1
        if k == "When":
            lines = []
            for alts, b in e.clauses:
                head = " | ".join(self.pat(a) for a in alts)
                if b.K in SEQ_KINDS:
                    lines.append(head + " -> " + self.block(b))
                elif b.K in ("Fail", "Todo"):
                    lines.append(head + " -> " + self.ex0(b)[0])
                else:
                    lines.append(head + " -> " + self.ex(b, 0))
            return "when " + self.ex(e.subj, 0) + " is {\n" + ind("\n".join(lines)) + "\n}", 1
        if k == "Call":
            if e.style == "pipe":
                first = self.ex(e.args[0], P_OR)
                rest = e.args[1:]
                f = self.ex(e.fn, P_POST)
                if rest:
                    f += "(" + ", ".join(self.ex(a, 0) for a in rest) + ")"
                return first + " |> " + f, P_PIPE
            return self.ex(e.fn, P_POST) + "(" + ", ".join(self.ex(a, 0) for a in e.args) + ")", P_POST
        if k == "Lam":
            ps = ", ".join(n + (": " + ty(t) if not G.tvars_of(t) else "") for n, t in e.params)
            return "fn(" + ps + ") " + self.body(e.body), P_ATOM
        if k == "Capture":
            parts = ["_" if a is None else self.ex(a, 0) for a in e.args]
            return self.ex(e.fn, P_POST) + "(" + ", ".join(parts) + ")", P_POST
        if k == "Field":
            return self.ex(e.e, P_POST) + "." + e.label, P_POST
        if k == "TupIdx":
            return self.ex(e.e, P_POST) + "." + ORDINALS[e.i], P_POST
        if k == "RecUpd":
            ctor = self.adts[e.adt].ctors[e.idx]
            parts = [".." + self.ex(e.base, P_POST)] + [label + ": " + self.ex(x, 0) for label, _i, x in e.updates]
            return ctor.name + " { " + ", ".join(parts) + " }", P_ATOM
        if k == "Fail":
            return ("fail" if e.msg is None else "fail " + string_lit(e.msg)), -1
        if k == "Todo":
            return ("todo" if e.msg is None else "todo " + string_lit(e.msg)), -1
        if k == "TraceIfFalse":
            return self.ex(e.e, P_POST) + "?", P_UN
        if k == "Builtin":
            return "builtin." + e.name + "(" + ", ".join(self.ex(a, 0) for a in e.args) + ")", P_POST
        raise ValueError(k)

    # ------------------------------------------------------------ definitions
    def adt(self, a):
        head = ("pub type " + a.name + ("<" + ", ".join(a.tparams) + ">" if a.tparams else "")) + " {\n"
        lines = []
        for c in a.ctors:
            if not c.fields:
                lines.append(c.name)
            elif c.fields[0][0] is not None:
                lines.append(c.name + " { " + ", ".join(l + ": " + ty(t) for l, t in c.fields) + " }")
            else:
                lines.append(c.name + "(" + ", ".join(ty(t) for _l, t in c.fields) + ")")
        return head + ind("\n".join(lines)) + "\n}"

    def const(self, c):
        return "pub const " + c.name + ": " + ty(c.ty) + " = " + self.rhs(c.expr)

    def fn(self, f):
        ps = ", ".join(n + ": " + ty(t) for n, t in f.params)
        return ("pub " if f.public else "") + "fn " + self.alias.get(f.name, f.name) + "(" + ps + ") -> " + ty(f.ret) + " " + self.body(f.body)

    def module(self):
        parts = ["use aiken/builtin"]
        for a in self.m.adts:
            parts.append(self.adt(a))
        for c in self.m.consts:
            parts.append(self.const(c))
        for f in self.m.fns:
            parts.append(self.fn(f))
        for e in self.m.entries:
            parts.append(self.fn(e.fn))
        return "\n\n".join(parts) + "\n"


    def modules(self):
        """[{"name", "kind", "src"}] in dependency order. With the "two modules" layout the type, constant and
        helper definitions live in `lib` (all public) and the entries in `m`, which imports them by name."""
        if not self.m.features.get("layout:two_modules"):
            return [{"name": "m", "kind": "lib", "src": self.module()}]
        lib = ["use aiken/builtin"]
        names = []
        for a in self.m.adts:
            lib.append(self.adt(a))
            names.append(a.name)
            for c in a.ctors:
                if c.name != a.name:
                    names.append(c.name)
        for c in self.m.consts:
            lib.append(self.const(c))
            names.append(c.name)
        meta = self.m.meta or {}
        local = set(meta.get("local", []))
        for f in self.m.fns:
            if f.name in local:
                continue
            lib.append("pub " + self.fn(f) if not f.public else self.fn(f))
            if f.name not in meta.get("qualified", []):
                names.append(f.name)
        main = ["use aiken/builtin"]
        if names:
            main.append("use lib.{" + ", ".join(names) + "}")
        elif meta.get("qualified"):
            main.append("use lib")
        self.alias = dict(meta.get("alias", {}))
        self.qualified = set(meta.get("qualified", []))
        for f in self.m.fns:
            if f.name in local:
                main.append(self.fn(f))
        for e in self.m.entries:
            main.append(self.fn(e.fn))
        self.alias = {}
        self.qualified = set()
        return [
            {"name": "lib", "kind": "lib", "src": "\n\n".join(lib) + "\n"},
            {"name": "m", "kind": "lib", "src": "\n\n".join(main) + "\n"},
        ]


def pp_module(module):
    return Printer(module).module()


def pp_modules(module):
    return Printer(module).modules()
