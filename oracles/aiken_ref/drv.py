"""Thin helper around the aiken-run driver (compile_eval op) for the C01 oracle."""
import json
import os
import subprocess
import sys

sys.path.insert(0, os.path.dirname(os.path.dirname(os.path.abspath(__file__))))
import common  # noqa: E402

BIN = "aiken-run"


def strip_data(d):
    """Drop the output-only annotations (indef/enc/raw) of a Data JSON tree."""
    if "c" in d:
        return {"c": str(d["c"]), "f": [strip_data(x) for x in d["f"]]}
    if "m" in d:
        return {"m": [[strip_data(k), strip_data(v)] for k, v in d["m"]]}
    if "l" in d:
        return {"l": [strip_data(x) for x in d["l"]]}
    if "i" in d:
        return {"i": str(d["i"])}
    return {"b": d["b"].lower()}


def make_job(jid, src, entries, tracings=("verbose-all",), detailed=False, snapshots=False, plutus="v3"):
    """src: source text of the single module `m`, or a list of {"name", "kind", "src"} in dependency order
    (the entries always live in module `m`)."""
    modules = src if isinstance(src, list) else [{"name": "m", "kind": "lib", "src": src}]
    return {
        "id": jid,
        "op": "compile_eval",
        "plutus": plutus,
        "modules": modules,
        "tracings": list(tracings),
        "detailed": detailed,
        "snapshots": snapshots,
        "entries": [{"kind": "fn", "module": "m", "name": e["name"], "args": e["args"]} for e in entries],
    }


def outcome(res):
    """Driver per-argument result -> ("ok", data) | ("abort", variant) | ("other", res)."""
    if "ok" in res:
        v = res["ok"]
        if isinstance(v, list) and len(v) == 3 and v[0] == "con" and v[1] == "data":
            return ("ok", strip_data(v[2]))
        return ("other", res)
    if "err" in res:
        if res["err"] == "OutOfExError":
            return ("other", res)
        return ("abort", res["err"])
    return ("other", res)


def run_one(src, entries, **kw):
    """Synchronous single job (used by calibration / triage)."""
    job = make_job(0, src, entries, **kw)
    p = subprocess.run([common.bin_path(BIN)], input=json.dumps(job) + "\n", capture_output=True, text=True)
    line = p.stdout.strip().splitlines()
    if not line:
        return {"died": p.returncode, "stderr": p.stderr[-2000:]}
    return json.loads(line[-1])


def run_many(jobs, shards=None, timeout=120.0):
    return common.run_jobs(BIN, jobs, shards=shards, per_job_timeout=timeout)
