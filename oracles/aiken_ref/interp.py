"""Definitional interpreter for the generator AST (gast.py): the C01 oracle.

Semantics written from the Aiken language definition:
  * strict, call-by-value, arguments left to right; `let` evaluates its right-hand side first;
  * `when` takes the first clause (and, inside a clause, the first alternative) that matches;
  * `/` and `%` are floor division / modulo and abort on a zero divisor;
  * `&&`, `||`, `and {}`, `or {}` short-circuit left to right;
  * `==` / `!=` are structural;
  * `fail`, `todo`, a failed `expect` (pattern mismatch, False condition, Data that does not encode the
    annotated type) and partial builtins abort the whole program;
  * `trace` and `?` only log.

`run(module, entry, args, fuel)` -> ("ok", data_json) | ("abort",) | ("fuel",)

`lazy=True` evaluates `let` right-hand sides and function arguments by need instead. This is NOT the
language semantics; it is only used by run_c01.py to classify a disagreement ("the compiled program
behaves like a call-by-need evaluation of the source").
"""
import hashlib
import sys

import gast as G
import model as M
from model import VCon, VPair

sys.setrecursionlimit(200000)


class Abort(Exception):
    pass


class OutOfFuel(Exception):
    pass


class Clo(object):
    __slots__ = ("params", "body", "env")

    def __init__(self, params, body, env):
        self.params = params
        self.body = body
        self.env = env


class CaptureClo(object):
    __slots__ = ("fn", "args", "env")

    def __init__(self, fn, args, env):
        self.fn = fn
        self.args = args
        self.env = env


class Thunk(object):
    __slots__ = ("e", "env", "val", "state", "conv")

    def __init__(self, e, env, conv=None):
        self.e = e
        self.env = env
        self.val = None
        self.state = 0
        self.conv = conv


# ------------------------------------------------------------------ builtins

MAX_INT_BITS = 1 << 15
MAX_BYTES = 1 << 16


def _mul(a, b):
    # repeated squaring makes numbers whose size is exponential in the number of steps: give up
    # (inconclusive) instead of computing them
    if a.bit_length() + b.bit_length() > MAX_INT_BITS:
        raise OutOfFuel()
    return a * b


def _append(a, b):
    if len(a) + len(b) > MAX_BYTES:
        raise OutOfFuel()
    return a + b



def _b_divide(a, b):
    if b == 0:
        raise Abort()
    return a // b


def _b_mod(a, b):
    if b == 0:
        raise Abort()
    return a % b


def _b_quot(a, b):
    if b == 0:
        raise Abort()
    q = abs(a) // abs(b)
    return q if (a >= 0) == (b >= 0) else -q


def _b_rem(a, b):
    if b == 0:
        raise Abort()
    r = abs(a) % abs(b)
    return r if a >= 0 else -r


def _b_cons_bytes(n, bs):
    if not (0 <= n <= 255):
        raise Abort()
    return bytes([n]) + bs


I64_MIN, I64_MAX = -(1 << 63), (1 << 63) - 1


def _b_slice(start, ln, bs):
    # the builtin's integer arguments are machine integers: a value that does not fit 64 bits is an
    # evaluation failure (pinned by the upstream conformance goldens), not a clamped slice
    if not (I64_MIN <= start <= I64_MAX and I64_MIN <= ln <= I64_MAX):
        raise Abort()
    s = max(start, 0)
    n = max(ln, 0)
    return bs[s:s + n]


def _b_index(bs, i):
    if not (0 <= i < len(bs)):
        raise Abort()
    return bs[i]


def _b_head(xs):
    if not xs:
        raise Abort()
    return xs[0]


def _b_tail(xs):
    if not xs:
        raise Abort()
    return xs[1:]


def _b_un_i(d):
    if d[0] != "i":
        raise Abort()
    return d[1]


def _b_un_b(d):
    if d[0] != "b":
        raise Abort()
    return d[1]


def _b_un_list(d):
    if d[0] != "l":
        raise Abort()
    return list(d[1])


def _b_un_map(d):
    if d[0] != "m":
        raise Abort()
    return [VPair(k, v) for k, v in d[1]]


def _b_un_constr(d):
    if d[0] != "c":
        raise Abort()
    return VPair(d[1], list(d[2]))


def _b_constr(i, fields):
    if i < 0 or i >= (1 << 64):
        raise Abort()
    return ("c", i, tuple(fields))


def _b_int_to_bytes(big_endian, size, n):
    if n < 0 or size < 0 or size > 8192:
        raise Abort()
    need = (n.bit_length() + 7) // 8
    if size == 0:
        if need > 8192:
            raise Abort()
        size = need
    elif need > size:
        raise Abort()
    return n.to_bytes(size, "big" if big_endian else "little")


def _b_bytes_to_int(big_endian, bs):
    return int.from_bytes(bs, "big" if big_endian else "little")


def _b_replicate(n, b):
    if n < 0 or n > 8192 or not (0 <= b <= 255):
        raise Abort()
    return bytes([b]) * n


BUILTINS = {
    "add_integer": lambda a, b: a + b,
    "subtract_integer": lambda a, b: a - b,
    "multiply_integer": lambda a, b: _mul(a, b),
    "divide_integer": _b_divide,
    "mod_integer": _b_mod,
    "quotient_integer": _b_quot,
    "remainder_integer": _b_rem,
    "equals_integer": lambda a, b: a == b,
    "less_than_integer": lambda a, b: a < b,
    "less_than_equals_integer": lambda a, b: a <= b,
    "append_bytearray": lambda a, b: _append(a, b),
    "cons_bytearray": _b_cons_bytes,
    "slice_bytearray": _b_slice,
    "length_of_bytearray": lambda a: len(a),
    "index_bytearray": _b_index,
    "equals_bytearray": lambda a, b: a == b,
    "less_than_bytearray": lambda a, b: a < b,
    "less_than_equals_bytearray": lambda a, b: a <= b,
    "sha2_256": lambda a: hashlib.sha256(a).digest(),
    "sha3_256": lambda a: hashlib.sha3_256(a).digest(),
    "blake2b_256": lambda a: hashlib.blake2b(a, digest_size=32).digest(),
    "blake2b_224": lambda a: hashlib.blake2b(a, digest_size=28).digest(),
    "head_list": _b_head,
    "tail_list": _b_tail,
    "null_list": lambda xs: len(xs) == 0,
    "i_data": lambda n: ("i", n),
    "b_data": lambda b: ("b", b),
    "list_data": lambda xs: ("l", tuple(xs)),
    "map_data": lambda ps: ("m", tuple((p.a, p.b) for p in ps)),
    "constr_data": _b_constr,
    "un_i_data": _b_un_i,
    "un_b_data": _b_un_b,
    "un_list_data": _b_un_list,
    "un_map_data": _b_un_map,
    "un_constr_data": _b_un_constr,
    "equals_data": lambda a, b: a == b,
    "integer_to_bytearray": _b_int_to_bytes,
    "bytearray_to_integer": _b_bytes_to_int,
    "replicate_byte": _b_replicate,
}


F3_KIND = {"un_i_data": "i", "un_b_data": "b", "un_list_data": "l", "un_map_data": "m"}
DEVIATIONS = ("lazy", "lazy_expect", "f2", "f3", "f3x", "f6")


class Interp(object):
    """dev: set of *deviations* from the language semantics, used only to explain what a miscompiled program
    does (run_c01.explain); the oracle itself always runs with dev = {}.
      lazy        `let` right-hand sides and function arguments are evaluated by need (FINDINGS F1 / F1b)
      lazy_expect a checked down-cast to a primitive type (`expect v: Int / ByteArray / Bool / Void = data`) is only
                  performed (possible abort) when one of the variables it binds is first used (FINDINGS F10)
      f2          at a `when` whose clauses contain the F2 trigger shape (a list pattern with a tail after a longer
                  list pattern with a tail) any *matching* clause may be taken, not necessarily the first
                  (`choices` selects which; FINDINGS F2)
      f3          `un_i_data` / `un_b_data` / `un_list_data` / `un_map_data` of Data of another kind do not abort as
                  long as the result is only turned back into Data (FINDINGS F3)
      f3x         the same rewrite applied to `expect v: Int = d` / `expect v: ByteArray = d`: Data of another kind is
                  let through as long as v is only turned back into Data (FINDINGS F11)
      f6          `x && False` is False without evaluating x (FINDINGS F6)"""

    def __init__(self, module, fuel=200000, lazy=False, dev=()):
        self.m = module
        self.adts = M.adt_table(module.adts)
        self.fns = {f.name: f for f in module.fns}
        for e in module.entries:
            self.fns[e.fn.name] = e.fn
        self.consts = {c.name: c for c in module.consts}
        self.const_vals = {}
        self.fuel = fuel
        self.dev = set(dev)
        if lazy:
            self.dev.add("lazy")
        self.lazy = "lazy" in self.dev
        self.lazy_expect = "lazy_expect" in self.dev
        self.f2 = "f2" in self.dev
        self.f3 = "f3" in self.dev
        self.f3x = "f3x" in self.dev
        self.f6 = "f6" in self.dev
        self.choices = []
        self.trace = []
        self._f2_cache = {}
        self.fn_clos = {}

    # -------------------------------------------------------------- driver

    def call_entry(self, entry, args):
        f = entry.fn
        env = {}
        for (n, _t), v in zip(f.params, args):
            env[n] = v
        return self.ev(f.body, env)

    def force(self, v):
        while type(v) is Thunk:
            if v.state == 2:
                v = v.val
                continue
            if v.state == 1:
                raise Abort()  # cyclic (cannot happen)
            v.state = 1
            x = v.e() if callable(v.e) else self.ev(v.e, v.env)
            if v.conv is not None:
                x = v.conv(x)
            v.val = x
            v.state = 2
            v.e = v.env = None
            v = x
        return v

    # -------------------------------------------------------------- evaluation

    def ev(self, e, env):
        self.fuel -= 1
        if self.fuel < 0:
            raise OutOfFuel()
        return getattr(self, "e_" + e.K)(e, env)

    def e_Lit(self, e, env):
        return e.val

    def e_Var(self, e, env):
        n = e.name
        if n in env:
            v = env[n]
            if type(v) is Thunk:
                v = self.force(v)
            return v
        if n in self.fns:
            c = self.fn_clos.get(n)
            if c is None:
                f = self.fns[n]
                c = Clo([p for p, _ in f.params], f.body, {})
                self.fn_clos[n] = c
            return c
        if n in self.consts:
            if n not in self.const_vals:
                self.const_vals[n] = self.ev(self.consts[n].expr, {})
            return self.const_vals[n]
        raise KeyError("unbound variable " + n)

    def e_ListE(self, e, env):
        out = [self.ev(x, env) for x in e.elems]
        if e.tail is not None:
            out = out + self.ev(e.tail, env)
        return out

    def e_TupleE(self, e, env):
        return tuple([self.ev(x, env) for x in e.elems])

    def e_PairE(self, e, env):
        a = self.ev(e.a, env)
        return VPair(a, self.ev(e.b, env))

    def e_ConE(self, e, env):
        return VCon(e.adt, e.idx, [self.ev(x, env) for x in e.args])

    def e_Bin(self, e, env):
        op = e.op
        if op == "&&":
            if self.f6 and self.const_false(e.r):
                return False
            return self.ev(e.l, env) and self.ev(e.r, env)
        if op == "||":
            return self.ev(e.l, env) or self.ev(e.r, env)
        a = self.ev(e.l, env)
        b = self.ev(e.r, env)
        if op == "+":
            return a + b
        if op == "-":
            return a - b
        if op == "*":
            return _mul(a, b)
        if op == "/":
            if b == 0:
                raise Abort()
            return a // b
        if op == "%":
            if b == 0:
                raise Abort()
            return a % b
        if op == "==":
            return a == b
        if op == "!=":
            return not (a == b)
        if op == "<":
            return a < b
        if op == "<=":
            return a <= b
        if op == ">":
            return a > b
        if op == ">=":
            return a >= b
        raise ValueError(op)

    def f2_shape(self, e):
        r = self._f2_cache.get(id(e))
        if r is None:
            import pats

            flat = [p for alts, _b in e.clauses for p in alts]
            r = any(pats.list_tail_order_hazard(flat[i], flat[j]) for i in range(len(flat)) for j in range(i + 1, len(flat)))
            self._f2_cache[id(e)] = r
        return r

    def const_false(self, e):
        """literally `False`, or a module constant defined as such (it is inlined before the rewrite)"""
        seen = 0
        while e.K == "Var" and e.name in self.consts and seen < 10:
            e = self.consts[e.name].expr
            seen += 1
        if e.K == "Lit":
            return e.val is False
        # a closed expression of literals and operators is folded to its value before the
        # rewrite (`True == False`, `1 > 2`, `!True`)
        def closed(x, depth=0):
            if depth > 6:
                return False
            if x.K == "Lit":
                return True
            if x.K == "Var":
                return x.name in self.consts and closed(self.consts[x.name].expr, depth + 1)
            if x.K == "Bin":
                return closed(x.l, depth + 1) and closed(x.r, depth + 1)
            if x.K == "Un":
                return closed(x.e, depth + 1)
            return False

        if e.K in ("Bin", "Un") and closed(e):
            try:
                return self.ev(e, {}) is False
            except Exception:
                return False
        return False

    def e_Un(self, e, env):
        v = self.ev(e.e, env)
        return (not v) if e.op == "!" else -v

    def e_Chain(self, e, env):
        if e.kind == "and":
            es = e.es
            if self.f6 and len(es) >= 2 and self.const_false(es[-1]):
                # and { e1, .., e(n-1), False } == e1 && (.. && (e(n-1) && False)): the innermost `&&` is dropped
                for x in es[:-2]:
                    if not self.ev(x, env):
                        return False
                return False
            for x in es:
                if not self.ev(x, env):
                    return False
            return True
        for x in e.es:
            if self.ev(x, env):
                return True
        return False

    def e_If(self, e, env):
        for c, b in e.branches:
            if self.ev(c, env):
                return self.ev(b, env)
        return self.ev(e.els, env)

    def e_IfIs(self, e, env):
        d = self.ev(e.subj, env)
        try:
            v = M.from_data(d, e.cast_ty, self.adts)
        except M.Mismatch:
            return self.ev(e.els, env)
        env2 = dict(env)
        if self.match(e.pat, v, env2):
            return self.ev(e.then, env2)
        return self.ev(e.els, env)

    def e_When(self, e, env):
        if self.lazy and e.subj.K == "TupleE":
            # `when (a, b, ..) is`: the tuple is never built, each column is only evaluated when a pattern inspects it
            v = tuple(Thunk(x, env) for x in e.subj.elems)
        elif self.lazy:
            v = Thunk(e.subj, env)  # forced by the first pattern that has to inspect it
        else:
            v = self.ev(e.subj, env)
        if self.f2 and self.f2_shape(e):
            # FINDINGS F2: at a `when` that has the trigger shape, first-match is not respected; which of the
            # matching clauses is taken is left to `self.choices` (explored exhaustively by run_c01.explain)
            matching = []
            for alts, body in e.clauses:
                for p in alts:
                    env2 = dict(env)
                    if self.match(p, v, env2):
                        matching.append((body, env2))
            if not matching:
                raise AssertionError("non-exhaustive when (generator bug)")
            pick = 0
            if len(matching) > 1:
                i = len(self.trace)
                pick = self.choices[i] if i < len(self.choices) else 0
                self.trace.append(len(matching))
            body, env2 = matching[pick]
            return self.ev(body, env2)
        for alts, body in e.clauses:
            for p in alts:
                env2 = dict(env)
                if self.match(p, v, env2):
                    return self.ev(body, env2)
        raise AssertionError("non-exhaustive when (generator bug)")

    def e_Let(self, e, env):
        up = e.annot == G.DATA and e.rhs.ty != G.DATA
        if self.lazy and e.pat.K == "PVar":
            conv = None
            if up:
                rt = e.rhs.ty
                conv = lambda x: M.to_data(x, rt, self.adts)  # noqa: E731
            env2 = dict(env)
            env2[e.pat.name] = Thunk(e.rhs, env, conv)
            return self.ev(e.body, env2)
        if self.lazy:
            # destructuring let, by need: every bound variable forces the right-hand side when first used
            whole = Thunk(e.rhs, env)
            env2 = dict(env)
            from pats import pattern_vars

            def proj(name):
                def go():
                    tmp = {}
                    self.match(e.pat, self.force(whole), tmp)
                    return self.force(tmp[name]) if type(tmp[name]) is Thunk else tmp[name]
                return go

            for name, _t in pattern_vars(e.pat):
                env2[name] = Thunk(proj(name), None)
            return self.ev(e.body, env2)
        v = self.ev(e.rhs, env)
        if up:
            v = M.to_data(v, e.rhs.ty, self.adts)
        env2 = dict(env)
        if not self.match(e.pat, v, env2):
            raise AssertionError("refutable let pattern (generator bug)")
        return self.ev(e.body, env2)

    def e_Expect(self, e, env):
        if self.lazy_expect:
            from pats import pattern_vars

            names = [n for n, _t in pattern_vars(e.pat)]
            prim_cast = e.rhs.ty == G.DATA and e.annot is not None and e.annot[0] in ("Int", "Bytes", "Bool", "Void")
            if names and prim_cast:
                cast = True
                state = {}

                def perform():
                    if "env" not in state:
                        v = self.ev(e.rhs, env)
                        if cast:
                            v = self.cast(v, e)
                        tmp = {}
                        if not self.match(e.pat, v, tmp):
                            raise Abort()
                        state["env"] = tmp
                    return state["env"]

                def proj(name):
                    def go():
                        x = perform()[name]
                        return self.force(x) if type(x) is Thunk else x
                    return go

                env2 = dict(env)
                for n in names:
                    env2[n] = Thunk(proj(n), None)
                return self.ev(e.body, env2)
        v = self.ev(e.rhs, env)
        if e.rhs.ty == G.DATA and e.annot is not None and e.annot != G.DATA:
            v = self.cast(v, e)
        env2 = dict(env)
        if not self.match(e.pat, v, env2):
            raise Abort()
        return self.ev(e.body, env2)

    def cast(self, d, e):
        try:
            return M.from_data(d, e.annot, self.adts)
        except M.Mismatch:
            if self.f3x and e.annot[0] in ("Int", "Bytes") and e.pat.K == "PVar":
                return M.Opaque(d)
            raise Abort()

    def e_ExpectBool(self, e, env):
        if not self.ev(e.cond, env):
            raise Abort()
        return self.ev(e.body, env)

    def e_Call(self, e, env):
        f = self.ev(e.fn, env)
        if self.lazy:
            args = [Thunk(a, env) for a in e.args]
        else:
            args = [self.ev(a, env) for a in e.args]
        return self.apply(f, args)

    def apply(self, f, args):
        self.fuel -= 1
        if self.fuel < 0:
            raise OutOfFuel()
        if type(f) is Clo:
            env = dict(f.env)
            for p, a in zip(f.params, args):
                env[p] = a
            return self.ev(f.body, env)
        if type(f) is CaptureClo:
            inner = self.ev(f.fn, f.env)
            full = []
            for a in f.args:
                if a is None:
                    full.append(args[0])
                elif self.lazy:
                    full.append(Thunk(a, f.env))
                else:
                    full.append(self.ev(a, f.env))
            return self.apply(inner, full)
        raise TypeError("apply: not a function")

    def e_Lam(self, e, env):
        return Clo([p for p, _ in e.params], e.body, env)

    def e_Capture(self, e, env):
        return CaptureClo(e.fn, e.args, env)

    def e_Field(self, e, env):
        return self.ev(e.e, env).fields[e.idx]

    def e_TupIdx(self, e, env):
        v = self.ev(e.e, env)
        if type(v) is VPair:
            return v.a if e.i == 0 else v.b
        return v[e.i]

    def e_RecUpd(self, e, env):
        base = self.ev(e.base, env)
        fields = list(base.fields)
        for _label, i, x in e.updates:
            fields[i] = self.ev(x, env)
        return VCon(e.adt, e.idx, fields)

    def e_Fail(self, e, env):
        raise Abort()

    def e_Todo(self, e, env):
        raise Abort()

    def e_Trace(self, e, env):
        return self.ev(e.body, env)

    def e_TraceIfFalse(self, e, env):
        return self.ev(e.e, env)

    def e_Backpass(self, e, env):
        f = self.ev(e.fn, env)
        if self.lazy:
            args = [Thunk(a, env) for a in e.args]
        else:
            args = [self.ev(a, env) for a in e.args]
        k = Clo([p for p, _ in e.params], e.body, env)
        return self.apply(f, args + [k])

    def e_Builtin(self, e, env):
        args = [self.ev(a, env) for a in e.args]
        if self.f3 and e.name in F3_KIND and type(args[0]) is not M.Opaque and args[0][0] != F3_KIND[e.name]:
            return M.Opaque(args[0])
        return BUILTINS[e.name](*args)

    # -------------------------------------------------------------- patterns

    def match(self, p, v, env):
        k = p.K
        if k == "PVar":
            env[p.name] = v
            return True
        if k == "PWild":
            return True
        if type(v) is Thunk:
            if self.lazy and k in ("PCon", "PTuple", "PPair", "PAs"):
                import pats

                if pats.irrefutable(p, self.adts):
                    # nothing to test: the variables are bound by need
                    def proj(name, v=v):
                        def go():
                            tmp = {}
                            self.match(p, self.force(v), tmp)
                            x = tmp[name]
                            return self.force(x) if type(x) is Thunk else x
                        return go

                    for name, _t in pats.pattern_vars(p):
                        env[name] = Thunk(proj(name), None)
                    return True
            v = self.force(v)
        if k == "PInt":
            return v == p.n
        if k == "PBytes":
            return v == p.b
        if k == "PBool":
            return v is p.v
        if k == "PVoid":
            return True
        if k == "PCon":
            if v.idx != p.idx:
                return False
            for i, sp in p.fields:
                if not self.match(sp, v.fields[i], env):
                    return False
            return True
        if k == "PTuple":
            for sp, x in zip(p.subs, v):
                if not self.match(sp, x, env):
                    return False
            return True
        if k == "PPair":
            return self.match(p.a, v.a, env) and self.match(p.b, v.b, env)
        if k == "PList":
            n = len(p.elems)
            if p.tail is None:
                if len(v) != n:
                    return False
            elif len(v) < n:
                return False
            for sp, x in zip(p.elems, v):
                if not self.match(sp, x, env):
                    return False
            if p.tail is not None and p.tail != "discard":
                env[p.tail.name] = v[n:]
            return True
        if k == "PAs":
            env[p.name] = v
            return self.match(p.pat, v, env)
        raise ValueError(k)


def run_choices(module, entry, args, fuel, dev, choices):
    """like run, for the non-deterministic deviation f2: -> (outcome, trace) where trace[i] is the number of
    alternatives that were available at the i-th choice point"""
    it = Interp(module, fuel, False, dev)
    it.choices = list(choices)
    try:
        v = it.force(it.call_entry(entry, args))
        if type(v) is M.Opaque:
            v = v.d
        return ("ok", M.data_to_json(v)), it.trace
    except Abort:
        return ("abort",), it.trace
    except (OutOfFuel, RecursionError):
        return ("fuel",), it.trace
    except (TypeError, AttributeError):
        if it.f3 or it.f3x:
            return ("abort",), it.trace
        raise


def run(module, entry, args, fuel=200000, lazy=False, dev=()):
    """entry: gast.Entry (or its name); args: python values of the parameter types.
    Returns ("ok", data_json) | ("abort",) | ("fuel",).
    `lazy` / `dev` select deviations from the language semantics (classification only, see Interp)."""
    if isinstance(entry, str):
        entry = [e for e in module.entries if e.fn.name == entry][0]
    it = Interp(module, fuel, lazy, dev)
    try:
        v = it.call_entry(entry, args)
        v = it.force(v)
        if type(v) is M.Opaque:
            v = v.d
    except Abort:
        return ("abort",)
    except (TypeError, AttributeError):
        if it.f3 or it.f3x:
            return ("abort",)  # an unchecked un_*_data result consumed as a real value
        raise
    except (OutOfFuel, RecursionError):
        return ("fuel",)
    return ("ok", M.data_to_json(v))
