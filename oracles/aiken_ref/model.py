"""Independent type -> Data model for Aiken values.

Interpreter values:
    Int -> int, Bool -> bool, ByteArray -> bytes, String -> str, Void -> None,
    List<T> -> python list, tuples -> python tuple, Pair -> VPair, ADTs -> VCon,
    Data -> internal data tuple, functions -> interp closures.

Internal Data (hashable, structural equality == Plutus Data equality):
    ("c", idx, (fields..)) | ("m", ((k, v)..)) | ("l", (items..)) | ("i", n) | ("b", bytes)

Encoding (declared by the language, written here without looking at the code generator):
    Int -> I n; ByteArray -> B bytes; Bool -> Constr 0 [] (False) / Constr 1 [] (True);
    Void -> Constr 0 []; Option: Some x -> Constr 0 [x], None -> Constr 1 [];
    Ordering Less/Equal/Greater -> Constr 0/1/2 []; List<T> -> List; tuples -> List;
    Pair<A,B> (standalone) -> List [a, b]; List<Pair<A,B>> -> Map; user ADT constructor i
    (declaration order) with its fields in declaration order -> Constr i fields; Data -> itself.
"""
from gast import PRELUDE_ADTS, subst


class Mismatch(Exception):
    """Data does not encode a value of the requested type."""


class VPair(object):
    __slots__ = ("a", "b")

    def __init__(self, a, b):
        self.a = a
        self.b = b

    def __eq__(self, o):
        return isinstance(o, VPair) and self.a == o.a and self.b == o.b

    def __ne__(self, o):
        return not self.__eq__(o)

    def __repr__(self):
        return "Pair(%r, %r)" % (self.a, self.b)


class VCon(object):
    __slots__ = ("adt", "idx", "fields")

    def __init__(self, adt, idx, fields):
        self.adt = adt
        self.idx = idx
        self.fields = tuple(fields)

    def __eq__(self, o):
        return isinstance(o, VCon) and self.idx == o.idx and self.adt == o.adt and self.fields == o.fields

    def __ne__(self, o):
        return not self.__eq__(o)

    def __repr__(self):
        return "%s#%d%r" % (self.adt, self.idx, self.fields)


class Opaque(object):
    """Only used by the interpreter's "F3" deviation mode (see interp.py): the unchecked result of
    `un_i_data` / `un_b_data` / .. applied to Data of the wrong kind. Turning it back into Data gives the
    original Data; every other use aborts."""

    __slots__ = ("d",)

    def __init__(self, d):
        self.d = d

    def _no(self, *a):
        raise TypeError("opaque")

    __eq__ = __ne__ = __lt__ = __le__ = __gt__ = __ge__ = _no
    __hash__ = None


def adt_table(module_adts):
    t = dict(PRELUDE_ADTS)
    for a in module_adts:
        t[a.name] = a
    return t


def ctor_field_types(adts, ty, idx):
    """Field types of constructor `idx` of the ADT type `ty` (type arguments substituted)."""
    decl = adts[ty[1]]
    s = dict(zip(decl.tparams, ty[2]))
    return [subst(ft, s) for (_l, ft) in decl.ctors[idx].fields]


def to_data(v, ty, adts):
    if type(v) is Opaque:
        return v.d
    k = ty[0]
    if k == "Int":
        return ("i", v)
    if k == "Bytes":
        return ("b", v)
    if k == "Bool":
        return ("c", 1 if v else 0, ())
    if k == "Void":
        return ("c", 0, ())
    if k == "Data":
        return v
    if k == "List":
        et = ty[1]
        if et[0] == "Pair":
            return ("m", tuple((to_data(p.a, et[1], adts), to_data(p.b, et[2], adts)) for p in v))
        return ("l", tuple(to_data(x, et, adts) for x in v))
    if k == "Tuple":
        return ("l", tuple(to_data(x, t, adts) for x, t in zip(v, ty[1:])))
    if k == "Pair":
        return ("l", (to_data(v.a, ty[1], adts), to_data(v.b, ty[2], adts)))
    if k == "Adt":
        fts = ctor_field_types(adts, ty, v.idx)
        return ("c", v.idx, tuple(to_data(x, t, adts) for x, t in zip(v.fields, fts)))
    raise ValueError("not serialisable: %r" % (ty,))


def from_data(d, ty, adts):
    """Checked decoding: raises Mismatch unless `d` is exactly the encoding of some value of `ty`."""
    k = ty[0]
    tag = d[0]
    if k == "Data":
        return d
    if k == "Int":
        if tag != "i":
            raise Mismatch()
        return d[1]
    if k == "Bytes":
        if tag != "b":
            raise Mismatch()
        return d[1]
    if k == "Bool":
        if tag != "c" or d[2] or d[1] not in (0, 1):
            raise Mismatch()
        return d[1] == 1
    if k == "Void":
        if tag != "c" or d[2] or d[1] != 0:
            raise Mismatch()
        return None
    if k == "List":
        et = ty[1]
        if et[0] == "Pair":
            if tag != "m":
                raise Mismatch()
            return [VPair(from_data(a, et[1], adts), from_data(b, et[2], adts)) for a, b in d[1]]
        if tag != "l":
            raise Mismatch()
        return [from_data(x, et, adts) for x in d[1]]
    if k == "Tuple":
        if tag != "l" or len(d[1]) != len(ty) - 1:
            raise Mismatch()
        return tuple(from_data(x, t, adts) for x, t in zip(d[1], ty[1:]))
    if k == "Pair":
        if tag != "l" or len(d[1]) != 2:
            raise Mismatch()
        return VPair(from_data(d[1][0], ty[1], adts), from_data(d[1][1], ty[2], adts))
    if k == "Adt":
        if tag != "c":
            raise Mismatch()
        decl = adts[ty[1]]
        if not (0 <= d[1] < len(decl.ctors)):
            raise Mismatch()
        fts = ctor_field_types(adts, ty, d[1])
        if len(fts) != len(d[2]):
            raise Mismatch()
        return VCon(ty[1], d[1], tuple(from_data(x, t, adts) for x, t in zip(d[2], fts)))
    raise ValueError("not serialisable: %r" % (ty,))


def data_to_json(d):
    t = d[0]
    if t == "i":
        return {"i": str(d[1])}
    if t == "b":
        return {"b": d[1].hex()}
    if t == "l":
        return {"l": [data_to_json(x) for x in d[1]]}
    if t == "m":
        return {"m": [[data_to_json(k), data_to_json(v)] for k, v in d[1]]}
    return {"c": str(d[1]), "f": [data_to_json(x) for x in d[2]]}


def json_to_data(j):
    if "i" in j:
        return ("i", int(j["i"]))
    if "b" in j:
        return ("b", bytes.fromhex(j["b"]))
    if "l" in j:
        return ("l", tuple(json_to_data(x) for x in j["l"]))
    if "m" in j:
        return ("m", tuple((json_to_data(k), json_to_data(v)) for k, v in j["m"]))
    return ("c", int(j["c"]), tuple(json_to_data(x) for x in j["f"]))


def value_to_json(v, ty, adts):
    return data_to_json(to_data(v, ty, adts))


def json_to_value(j, ty, adts):
    return from_data(json_to_data(j), ty, adts)
