"""Greedy test-case reducer over the generator AST (triage tool).

reduce_module(module, predicate) -> smaller module for which predicate(module) still holds.
All rewrites are type-preserving (replace an expression by a sub-expression of the same type whose
free variables stay bound, or by a default literal), so the result is still well typed.
"""
import copy

import analysis as A
import gast as G
import model as M
from pats import pattern_vars


def default_expr(ty, adts):
    k = ty[0]
    if k == "Int":
        return G.Lit(0, "dec", ty)
    if k == "Bool":
        return G.Lit(False, None, ty)
    if k == "Bytes":
        return G.Lit(b"", "hex", ty)
    if k == "String":
        return G.Lit("", None, ty)
    if k == "Void":
        return G.Lit(None, None, ty)
    if k == "Data":
        return G.Builtin("i_data", [G.Lit(0, "dec", G.INT)], ty)
    if k == "List":
        return G.ListE([], None, ty)
    if k == "Tuple":
        xs = [default_expr(t, adts) for t in ty[1:]]
        return None if any(x is None for x in xs) else G.TupleE(xs, ty)
    if k == "Pair":
        a, b = default_expr(ty[1], adts), default_expr(ty[2], adts)
        return None if a is None or b is None else G.PairE(a, b, ty)
    if k == "Adt":
        decl = adts[ty[1]]
        for i, c in enumerate(decl.ctors):
            fts = M.ctor_field_types(adts, ty, i)
            if any(ft == ty for ft in fts):
                continue
            xs = [default_expr(t, adts) for t in fts]
            if any(x is None for x in xs):
                continue
            return G.ConE(ty[1], i, xs, "pos", ty)
        return None
    return None


def slots(e):
    """[(child, setter)] for the immediate sub-expressions of e"""
    out = []
    k = e.K

    def attr(name):
        out.append((getattr(e, name), lambda new, name=name: setattr(e, name, new)))

    def lst(l):
        for i, x in enumerate(l):
            if x is not None:
                out.append((x, lambda new, l=l, i=i: l.__setitem__(i, new)))

    if k in ("Lit", "Var", "Fail", "Todo"):
        pass
    elif k == "ListE":
        lst(e.elems)
        if e.tail is not None:
            attr("tail")
    elif k == "TupleE":
        lst(e.elems)
    elif k == "PairE":
        attr("a")
        attr("b")
    elif k in ("ConE", "Builtin"):
        lst(e.args)
    elif k == "Bin":
        attr("l")
        attr("r")
    elif k in ("Un", "TraceIfFalse"):
        attr("e")
    elif k == "Chain":
        lst(e.es)
    elif k == "If":
        for i, (c, b) in enumerate(e.branches):
            out.append((c, lambda new, i=i: e.branches.__setitem__(i, (new, e.branches[i][1]))))
            out.append((b, lambda new, i=i: e.branches.__setitem__(i, (e.branches[i][0], new))))
        attr("els")
    elif k == "IfIs":
        attr("subj")
        attr("then")
        attr("els")
    elif k == "When":
        attr("subj")
        for i, (_a, b) in enumerate(e.clauses):
            out.append((b, lambda new, i=i: e.clauses.__setitem__(i, (e.clauses[i][0], new))))
    elif k in ("Let", "Expect"):
        attr("rhs")
        attr("body")
    elif k == "ExpectBool":
        attr("cond")
        attr("body")
    elif k == "Call":
        attr("fn")
        lst(e.args)
    elif k == "Lam":
        attr("body")
    elif k == "Capture":
        attr("fn")
        lst(e.args)
    elif k in ("Field", "TupIdx"):
        attr("e")
    elif k == "RecUpd":
        attr("base")
        for i, (l, j, x) in enumerate(e.updates):
            out.append((x, lambda new, i=i: e.updates.__setitem__(i, (e.updates[i][0], e.updates[i][1], new))))
    elif k == "Trace":
        attr("body")
    elif k == "Backpass":
        attr("fn")
        lst(e.args)
        attr("body")
    else:
        raise ValueError(k)
    return out


def bound_here(e, child):
    """names that e binds in the given child"""
    k = e.K
    if k in ("Let", "Expect") and child is e.body:
        return [n for n, _t in pattern_vars(e.pat)]
    if k == "When":
        for alts, b in e.clauses:
            if b is child:
                return [n for a in alts for n, _t in pattern_vars(a)]
    if k == "IfIs" and child is e.then:
        return [n for n, _t in pattern_vars(e.pat)]
    if k == "Lam" and child is e.body:
        return [n for n, _t in e.params]
    if k == "Backpass" and child is e.body:
        return [n for n, _t in e.params]
    return []


def all_positions(root_get, root_set):
    """pre-order [(node, setter)] for every expression under a root"""
    out = []

    def walk(e, setter):
        out.append((e, setter))
        for c, s in slots(e):
            walk(c, s)

    walk(root_get(), root_set)
    return out


def candidates(e, adts):
    """type-preserving replacements for e, smallest first"""
    out = []
    d = default_expr(e.ty, adts)
    if d is not None and A.size(e) > A.size(d):
        out.append(d)

    def collect(x, banned):
        for c, _s in slots(x):
            b = banned + bound_here(x, c)
            if c.ty == e.ty and not any(A.occurs(n, c) for n in b):
                out.append(c)
            collect(c, b)

    collect(e, [])
    out.sort(key=A.size)
    return out[:6]


def referenced(m):
    names = set()

    def walk(e):
        if e.K == "Var":
            names.add(e.name)
        for c, _s in slots(e):
            walk(c)

    for f in m.fns:
        walk(f.body)
    for e in m.entries:
        walk(e.fn.body)
    for c in m.consts:
        walk(c.expr)
    return names


def clauses_ok(clauses, adts):
    import pats

    rows = []
    for alts, _b in clauses:
        for a in alts:
            n = [pats.norm(a, adts)]
            if not pats.useful(rows, n):
                return False
            rows.append(n)
    return pats.exhaustive(rows)


def well_formed(m, allow_hazard=False):
    table = {}
    for f in m.fns:
        A.set_strict_params(table)
        table[f.name] = [A.strict_occ(n, f.body) for n, _t in f.params]
    A.set_strict_params(table)
    return all(A.let_invariants_ok(f.body, allow_hazard) for f in list(m.fns) + [e.fn for e in m.entries])


def reduce_module(module, predicate0, keep_entry=None, max_rounds=6, log=None, allow_hazard=False):
    def predicate(mod):
        return well_formed(mod, allow_hazard) and predicate0(mod)

    m = copy.deepcopy(module)
    adts = M.adt_table(m.adts)
    A.set_adts(adts)
    assert predicate(m), "predicate does not hold on the input"
    if keep_entry is not None:
        m2 = copy.deepcopy(m)
        m2.entries = [e for e in m2.entries if e.fn.name == keep_entry]
        if predicate(m2):
            m = m2
    for _round in range(max_rounds):
        changed = False
        # drop unreferenced definitions
        while True:
            ref = referenced(m)
            m2 = copy.deepcopy(m)
            m2.fns = [f for f in m2.fns if f.name in ref]
            m2.consts = [c for c in m2.consts if c.name in ref]
            if len(m2.fns) == len(m.fns) and len(m2.consts) == len(m.consts):
                break
            if predicate(m2):
                m = m2
                changed = True
            else:
                break
        # drop entries one by one
        j = 0
        while len(m.entries) > 1 and j < len(m.entries):
            m2 = copy.deepcopy(m)
            del m2.entries[j]
            if predicate(m2):
                m = m2
                changed = True
            else:
                j += 1
        # drop `when` clauses (keeping the clause list exhaustive and free of redundant clauses)
        for f in [f for f in m.fns] + [e.fn for e in m.entries]:
            for node, _setter in all_positions(lambda f=f: f.body, lambda new, f=f: setattr(f, "body", new)):
                if node.K != "When":
                    continue
                ci = 0
                while len(node.clauses) > 1 and ci < len(node.clauses):
                    saved = list(node.clauses)
                    del node.clauses[ci]
                    if clauses_ok(node.clauses, adts) and predicate(m):
                        changed = True
                    else:
                        node.clauses[:] = saved
                        ci += 1
        roots = [f for f in m.fns] + [e.fn for e in m.entries]
        for fi in range(len(roots)):
            i = 0
            while True:
                roots = [f for f in m.fns] + [e.fn for e in m.entries]
                f = roots[fi]
                pos = all_positions(lambda f=f: f.body, lambda new, f=f: setattr(f, "body", new))
                if i >= len(pos):
                    break
                node, setter = pos[i]
                done = False
                for cand in candidates(node, adts):
                    setter(copy.deepcopy(cand))
                    if predicate(m):
                        changed = True
                        done = True
                        if log:
                            log("reduced %s at %d: %d -> %d nodes" % (f.name, i, A.size(node), A.size(cand)))
                        break
                    setter(node)
                if not done:
                    i += 1
        if not changed:
            break
    return m
