"""Syntactic analyses over the generator AST (used by the generator only)."""
import pats
from pats import pattern_vars
from gast import PRELUDE_ADTS

_ADTS = dict(PRELUDE_ADTS)


STRICT_PARAMS = {}


def set_strict_params(table):
    """{top-level function name: [is parameter i certainly evaluated by the body?]} for the module under analysis.
    An argument only counts as a strict use when the callee is known and uses that parameter strictly
    (FINDINGS.md F1b: arguments of inlined functions are evaluated by need)."""
    global STRICT_PARAMS
    STRICT_PARAMS = table


def _call_strict(name, fn, args):
    if strict_occ(name, fn):
        return True
    sp = STRICT_PARAMS.get(fn.name) if fn.K == "Var" else None
    if sp is None:
        return False
    return any(i < len(sp) and sp[i] and strict_occ(name, a) for i, a in enumerate(args))


def set_adts(adt_table):
    """ADT declarations of the module under analysis (needed to know which patterns are refutable)."""
    global _ADTS
    _ADTS = dict(adt_table)


PRIM_CASTS = ("Int", "Bytes", "Bool", "Void")


def is_cast(e):
    return e.annot is not None and e.rhs.ty[0] == "Data" and e.annot[0] != "Data"


def forcing_cast(e):
    """a checked down-cast that is certainly performed where it stands (FINDINGS F10: casts to a primitive type
    are only performed when the bound variable is needed, except under verbose compiler traces)"""
    return is_cast(e) and e.annot[0] not in PRIM_CASTS


def lazy_cast_hazard(e):
    """`expect v: Int = d` (or ByteArray / Bool / Void) whose variables are used, but nowhere strictly (F10);
    for Int / ByteArray: nowhere *consumed* strictly (F11). Returns the label of the hazard or None."""
    if not (is_cast(e) and e.annot[0] in PRIM_CASTS):
        return None
    used = [n for n, _t in pattern_vars(e.pat) if occurs(n, e.body)]
    if not used:
        return None
    if not binding_forced(e.pat, e.body):
        return "call-by-need-expect-cast"
    if e.annot[0] in ("Int", "Bytes") and e.pat.K == "PVar" and not strict_consume(e.pat.name, e.body):
        return "F3_cast_cancel_expect"
    return None


def binding_forced(pat, body):
    """Does matching `pat` and then evaluating `body` certainly force the matched value?
    (a refutable pattern has to inspect it; an irrefutable one only if a bound variable is used strictly)"""
    if not pats.irrefutable(pat, _ADTS):
        return True
    return any(strict_occ(b, body) for b, _t in pattern_vars(pat))

PARTIAL_BUILTINS = {
    "divide_integer", "mod_integer", "quotient_integer", "remainder_integer", "cons_bytearray", "index_bytearray",
    "head_list", "tail_list", "un_i_data", "un_b_data", "un_list_data", "un_map_data", "un_constr_data",
    "constr_data", "integer_to_bytearray", "replicate_byte",
}


def children(e):
    """Immediate sub-expressions (all of them, whatever their evaluation status)."""
    k = e.K
    if k in ("Lit", "Var", "Fail", "Todo"):
        return []
    if k == "ListE":
        return list(e.elems) + ([e.tail] if e.tail is not None else [])
    if k == "TupleE":
        return list(e.elems)
    if k == "PairE":
        return [e.a, e.b]
    if k in ("ConE", "Builtin"):
        return list(e.args)
    if k == "Bin":
        return [e.l, e.r]
    if k in ("Un", "TraceIfFalse"):
        return [e.e]
    if k == "Chain":
        return list(e.es)
    if k == "If":
        out = []
        for c, b in e.branches:
            out += [c, b]
        return out + [e.els]
    if k == "IfIs":
        return [e.subj, e.then, e.els]
    if k == "When":
        return [e.subj] + [b for _a, b in e.clauses]
    if k in ("Let", "Expect"):
        return [e.rhs, e.body]
    if k == "ExpectBool":
        return [e.cond, e.body]
    if k == "Call":
        return [e.fn] + list(e.args)
    if k == "Lam":
        return [e.body]
    if k == "Capture":
        return [e.fn] + [a for a in e.args if a is not None]
    if k in ("Field", "TupIdx"):
        return [e.e]
    if k == "RecUpd":
        return [e.base] + [x for _l, _i, x in e.updates]
    if k == "Trace":
        return [e.body]
    if k == "Backpass":
        return [e.fn] + list(e.args) + [e.body]
    raise ValueError(k)


def size(e):
    return 1 + sum(size(c) for c in children(e))


def depth(e):
    cs = children(e)
    return 1 + (max(depth(c) for c in cs) if cs else 0)


def occurs(name, e):
    """Does Var(name) occur free in e?"""
    k = e.K
    if k == "Var":
        return e.name == name
    if k == "When":
        if occurs(name, e.subj):
            return True
        for alts, b in e.clauses:
            bound = any(name == n for a in alts for n, _t in pattern_vars(a))
            if not bound and occurs(name, b):
                return True
        return False
    if k in ("Let", "Expect"):
        if occurs(name, e.rhs):
            return True
        if any(name == n for n, _t in pattern_vars(e.pat)):
            return False
        return occurs(name, e.body)
    if k == "IfIs":
        if occurs(name, e.subj) or occurs(name, e.els):
            return True
        if any(name == n for n, _t in pattern_vars(e.pat)):
            return False
        return occurs(name, e.then)
    if k == "Lam":
        if any(name == n for n, _t in e.params):
            return False
        return occurs(name, e.body)
    if k == "Backpass":
        if occurs(name, e.fn) or any(occurs(name, a) for a in e.args):
            return True
        if any(name == n for n, _t in e.params):
            return False
        return occurs(name, e.body)
    return any(occurs(name, c) for c in children(e))


def may_abort(e):
    """Conservative: can evaluating e abort? (creating a lambda / capture cannot)"""
    k = e.K
    if k in ("Fail", "Todo", "Expect", "ExpectBool", "Call", "Backpass"):
        return True
    if k in ("Lam", "Capture"):
        return False
    if k == "Bin" and e.op in ("/", "%"):
        return True
    if k == "Builtin" and e.name in PARTIAL_BUILTINS:
        return True
    return any(may_abort(c) for c in children(e))


def strict_occ(name, e):
    """Is Var(name) certainly evaluated whenever e is evaluated to completion (or e certainly aborts)?
    Conservative (False when unsure)."""
    k = e.K
    if k == "Var":
        return e.name == name
    if k in ("Lit", "Lam", "Capture"):
        return False
    if k in ("Fail", "Todo"):
        return True
    if k == "Bin":
        if e.op in ("&&", "||"):
            return strict_occ(name, e.l)
        return strict_occ(name, e.l) or strict_occ(name, e.r)
    if k == "Chain":
        return strict_occ(name, e.es[0])
    if k == "If":
        if strict_occ(name, e.branches[0][0]):
            return True
        return False
    if k == "IfIs":
        return strict_occ(name, e.subj)
    if k == "When":
        if e.subj.K in ("TupleE", "PairE", "ConE", "ListE"):
            # a constructed subject is never built: its components are only evaluated if some pattern inspects
            # them on the path actually taken (not decidable here)
            return False
        alts, body0 = e.clauses[0]
        return strict_occ(name, e.subj) and binding_forced(alts[0], body0)
    if k == "Let":
        bound = [n for n, _t in pattern_vars(e.pat)]
        if strict_occ(name, e.rhs) and any(strict_occ(b, e.body) for b in bound):
            return True
        if name in bound:
            return False
        return strict_occ(name, e.body)
    if k == "Expect":
        if strict_occ(name, e.rhs) and (forcing_cast(e) or binding_forced(e.pat, e.body)):
            return True
        if any(name == n for n, _t in pattern_vars(e.pat)):
            return False
        return strict_occ(name, e.body)
    if k == "ExpectBool":
        return strict_occ(name, e.cond) or strict_occ(name, e.body)
    if k == "Trace":
        return strict_occ(name, e.body)
    if k == "Backpass":
        return _call_strict(name, e.fn, e.args)
    if k == "Call":
        return _call_strict(name, e.fn, e.args)
    return any(strict_occ(name, c) for c in children(e))


def _is(name, x):
    return x.K == "Var" and x.name == name


DATA_WRAPPERS = ("i_data", "b_data", "list_data", "map_data", "constr_data")


def strict_consume(name, e):
    """Is the *value* of Var(name) certainly inspected as a value of its own type (operand of arithmetic, a
    comparison, a builtin, a refutable pattern) whenever e is evaluated? Merely storing it (list element,
    constructor field, up-cast, argument) does not count: FINDINGS F11 (an unchecked Int / ByteArray cast is
    only noticed when the value is consumed). Conservative."""
    k = e.K
    if k in ("Var", "Lit", "Lam", "Capture"):
        return False
    if k in ("Fail", "Todo"):
        return True
    if k == "Bin":
        if e.op in ("&&", "||"):
            return strict_consume(name, e.l)
        if _is(name, e.l) or _is(name, e.r):
            return True
        return strict_consume(name, e.l) or strict_consume(name, e.r)
    if k == "Un":
        return _is(name, e.e) or strict_consume(name, e.e)
    if k == "Builtin":
        if e.name not in DATA_WRAPPERS and any(_is(name, a) for a in e.args):
            return True
        return any(strict_consume(name, a) for a in e.args)
    if k == "Chain":
        return strict_consume(name, e.es[0])
    if k == "If":
        return strict_consume(name, e.branches[0][0])
    if k == "IfIs":
        return strict_consume(name, e.subj)
    if k == "When":
        if e.subj.K in ("TupleE", "PairE", "ConE", "ListE"):
            return False
        alts, body0 = e.clauses[0]
        if _is(name, e.subj):
            return not pats.irrefutable(alts[0], _ADTS)
        return strict_consume(name, e.subj) and binding_forced(alts[0], body0)
    if k == "Let":
        bound = [n for n, _t in pattern_vars(e.pat)]
        if strict_consume(name, e.rhs) and any(strict_occ(b, e.body) for b in bound):
            return True
        if name in bound:
            return False
        return strict_consume(name, e.body)
    if k == "Expect":
        if strict_consume(name, e.rhs) and (forcing_cast(e) or binding_forced(e.pat, e.body)):
            return True
        if any(name == n for n, _t in pattern_vars(e.pat)):
            return False
        return strict_consume(name, e.body)
    if k == "ExpectBool":
        return strict_consume(name, e.cond) or strict_consume(name, e.body)
    if k == "Trace":
        return strict_consume(name, e.body)
    if k in ("Call", "Backpass"):
        if strict_consume(name, e.fn):
            return True
        sp = STRICT_PARAMS.get(e.fn.name) if e.fn.K == "Var" else None
        if sp is None:
            return False
        return any(i < len(sp) and sp[i] and strict_consume(name, a) for i, a in enumerate(e.args))
    return any(strict_consume(name, c) for c in children(e))


def let_invariants_ok(e, allow_hazard=False):
    """generator invariants about `let`: the bound variable(s) are used, and used strictly when the
    right-hand side may abort (otherwise the program sits in the erased/lazy-let grey zone)."""
    if e.K == "Let":
        bound = [n for n, _t in pattern_vars(e.pat)]
        # `let d: Data = v  d` style wrappers are fine: the variable is the body
        used = [b for b in bound if occurs(b, e.body)]
        if not used:
            return False
        if may_abort(e.rhs) and not allow_hazard and not any(strict_occ(b, e.body) for b in used):
            return False
    if e.K == "When" and not allow_hazard and may_abort(e.subj):
        alts, body0 = e.clauses[0]
        if not binding_forced(alts[0], body0):
            return False
    if e.K == "Expect" and not allow_hazard:
        if lazy_cast_hazard(e):
            return False
        if may_abort(e.rhs) and not forcing_cast(e) and not binding_forced(e.pat, e.body):
            return False
    return all(let_invariants_ok(c, allow_hazard) for c in children(e))
