#!/usr/bin/env python3
"""Calibration of the C01 oracle's reading of the language against hand-written corner cases.

Each case is Aiken source + (entry, args, expected) triples whose expected value was worked out BY HAND from
the language definition (not by running anything). All of them go through the driver. A case marked
`known=` is a confirmed compiler defect (FINDINGS.md): the expectation stays the language's, the mismatch
is reported as KNOWN-DEFECT (and as FIXED? when it starts to agree).

Exit code 0 iff every non-known case agrees.
"""
import json
import os
import sys

HERE = os.path.dirname(os.path.abspath(__file__))
sys.path.insert(0, HERE)
sys.path.insert(0, os.path.dirname(HERE))

import drv  # noqa: E402


def I(n):
    return {"i": str(n)}


def B(h):
    return {"b": h}


def C(i, *f):
    return {"c": str(i), "f": list(f)}


def L(*x):
    return {"l": list(x)}


def Mp(*kv):
    return {"m": [list(p) for p in kv]}


F, T = C(0), C(1)
NONE = C(1)


def SOME(x):
    return C(0, x)


ABORT = "abort"

PRELUDE = """
use aiken/builtin

pub type Shape { Circle(Int)  Rect { w: Int, h: Int }  Dot }
pub type Box<a> { Box(a) }
pub type Rec { Rec { p: Int, q: ByteArray, s: Shape } }
pub type Tree<a> { Leaf  Node(Tree<a>, a, Tree<a>) }
pub type Either<a, b> { Lft(a)  Rgt(b) }

pub const k1: Int = 3
pub const k2: List<Int> = [1, 2, k1]
pub const k3: (Int, ByteArray, Option<List<Int>>) = (k1 * 2, #"ff", Some(k2))
pub const k4: Shape = Rect { w: k1, h: 4 }

fn and_then(o: Option<a>, k: fn(a) -> Option<b>) -> Option<b> {
  when o is {
    Some(x) -> k(x)
    None -> None
  }
}

fn fold(xs: List<a>, acc: b, f: fn(a, b) -> b) -> b {
  when xs is {
    [] -> acc
    [x, ..rest] -> fold(rest, f(x, acc), f)
  }
}

fn map(xs: List<a>, f: fn(a) -> b) -> List<b> {
  when xs is {
    [] -> []
    [x, ..rest] -> [f(x), ..map(rest, f)]
  }
}

fn ident(x: a) -> a { x }

fn add3(a: Int, b: Int, c: Int) -> Int { a + b * c }

fn sum_tree(t: Tree<Int>) -> Int {
  when t is {
    Leaf -> 0
    Node(l, v, r) -> sum_tree(l) + v + sum_tree(r)
  }
}

fn is_even(xs: List<Int>) -> Bool {
  when xs is {
    [] -> True
    [_, ..rest] -> is_odd(rest)
  }
}

fn is_odd(xs: List<Int>) -> Bool {
  when xs is {
    [] -> False
    [_, ..rest] -> is_even(rest)
  }
}

fn count(n: Int, acc: Int) -> Int {
  if n <= 0 { acc } else { count(n - 1, acc + n) }
}

fn area(s: Shape) -> Int {
  when s is {
    Circle(r) -> 3 * r * r
    Rect { w, h } -> w * h
    Dot -> 0
  }
}
"""

TREE = C(1, C(1, C(0), I(1), C(0)), I(2), C(1, C(0), I(4), C(0)))

CASES = [
    # ---------------------------------------------------------------- arithmetic
    ("divmod", "pub fn f(a: Int, b: Int) -> Data { let r: Data = (a / b, a % b)  r }", [
        ([I(-7), I(2)], L(I(-4), I(1))), ([I(7), I(-2)], L(I(-4), I(-1))), ([I(-7), I(-2)], L(I(3), I(-1))),
        ([I(7), I(2)], L(I(3), I(1))), ([I(7), I(0)], ABORT), ([I(0), I(5)], L(I(0), I(0))),
        ([I(-(2**64)), I(3)], L(I(-6148914691236517206), I(2))),
    ]),
    ("mod_only_zero", "pub fn f(a: Int, b: Int) -> Data { let r: Data = a % b  r }", [([I(1), I(0)], ABORT), ([I(-1), I(3)], I(2))]),
    ("precedence", "pub fn f(a: Int, b: Int) -> Data { let r: Data = a - b - 1 + a * b % 4 - -(a / 2)  r }", [
        ([I(7), I(3)], I(7 - 3 - 1 + (21 % 4) + 3)), ([I(-7), I(3)], I(-7 - 3 - 1 + ((-21) % 4) - 4)),
    ]),
    ("bigint", "pub fn f(a: Int) -> Data { let r: Data = a * 340282366920938463463374607431768211456 + 0xff - 1_000  r }", [
        ([I(1)], I(2**128 + 255 - 1000)), ([I(-1)], I(-(2**128) + 255 - 1000)),
    ]),
    ("neg", "pub fn f(a: Int) -> Data { let r: Data = -a  r }", [([I(5)], I(-5)), ([I(-5)], I(5)), ([I(0)], I(0))]),
    ("cmp", "pub fn f(a: Int, b: Int) -> Data { let r: Data = [a < b, a <= b, a > b, a >= b, a == b, a != b]  r }", [
        ([I(1), I(2)], L(T, T, F, F, F, T)), ([I(2), I(2)], L(F, T, F, T, T, F)), ([I(-1), I(-2)], L(F, F, T, T, F, T)),
    ]),
    # ---------------------------------------------------------------- short circuit / strictness
    ("and_sc", "pub fn f(a: Int) -> Data { let r: Data = a != 0 && 10 / a > 1  r }", [([I(0)], F), ([I(2)], T), ([I(20)], F)]),
    ("or_sc", "pub fn f(a: Int) -> Data { let r: Data = a == 0 || 10 / a > 1  r }", [([I(0)], T), ([I(2)], T), ([I(20)], F)]),
    ("and_block", "pub fn f(a: Int) -> Data { let r: Data = and { a != 0, 10 / a > 1, True }  r }", [([I(0)], F), ([I(2)], T), ([I(20)], F)]),
    ("or_block", "pub fn f(a: Int) -> Data { let r: Data = or { a == 0, 10 / a > 1 }  r }", [([I(0)], T), ([I(2)], T), ([I(20)], F)]),
    ("and_left_aborts", "pub fn f(a: Int) -> Data { let r: Data = 10 / a > 1 && a > 100  r }", [([I(0)], ABORT), ([I(2)], F)]),
    ("not", "pub fn f(a: Bool) -> Data { let r: Data = !a  r }", [([T], F), ([F], T)]),
    ("branch_not_taken", "pub fn f(a: Int) -> Data { let r: Data = if a > 0 { a } else { 1 / 0 }  r }", [([I(1)], I(1)), ([I(0)], ABORT)]),
    ("else_if", "pub fn f(a: Int) -> Data { let r: Data = if a > 10 { 1 } else if a > 5 { 2 } else if a > 0 { 3 } else { 4 }  r }", [
        ([I(11)], I(1)), ([I(6)], I(2)), ([I(1)], I(3)), ([I(0)], I(4)),
    ]),
    ("lambda_not_called", "pub fn f(a: Int, b: Bool) -> Data { let g = fn(z) { z / a }  let r: Data = if b { g(10) } else { 0 }  r }", [
        ([I(0), F], I(0)), ([I(0), T], ABORT), ([I(3), T], I(3)),
    ]),
    ("strict_let_used_twice", "pub fn f(a: Int, b: Bool) -> Data { let x = 10 / a  let r: Data = if b { x + x } else { 0 }  r }", [
        ([I(0), F], ABORT), ([I(2), T], I(10)),
    ]),
    ("strict_arg", "fn g(_x: Int, y: Int) -> Int { y }\npub fn f(a: Int) -> Data { let r: Data = g(1 / a, 5)  r }", [([I(0)], ABORT), ([I(1)], I(5))]),
    ("strict_let_lazy_use", "pub fn f(a: Int, b: Bool) -> Data { let x = 10 / a  let r: Data = if b { x } else { 0 }  r }", [
        ([I(0), F], ABORT), ([I(0), T], ABORT), ([I(2), T], I(5)),
    ], "F1"),
    ("strict_arg_inlined", "fn g(x: Int, b: Bool) -> Int { if b { x } else { 0 } }\npub fn f(a: Int, b: Bool) -> Data { let r: Data = g(10 / a, b)  r }", [
        ([I(0), F], ABORT), ([I(0), T], ABORT),
    ], "F1b"),
    ("and_false", "pub fn f(a: Int) -> Data { let r: Data = 10 / a > 0 && False  r }", [([I(0)], ABORT), ([I(1)], F)], "F6"),
    # ---------------------------------------------------------------- when / patterns
    ("first_match_int", "pub fn f(a: Int) -> Data { let r: Data = when a is { 0 -> 10\n 1 -> 11\n -1 -> 12\n _ -> 13 }  r }", [
        ([I(0)], I(10)), ([I(1)], I(11)), ([I(-1)], I(12)), ([I(2)], I(13)),
    ]),
    ("first_match_tuple", "pub fn f(t: (Int, Bool)) -> Data { let r: Data = when t is { (0, _) -> 1\n (_, True) -> 2\n (n, False) as whole -> n + whole.1st }  r }", [
        ([L(I(0), T)], I(1)), ([L(I(0), F)], I(1)), ([L(I(3), T)], I(2)), ([L(I(3), F)], I(6)),
    ]),
    ("first_match_pair", "pub fn f(p: Pair<Int, Bool>) -> Data { let r: Data = when p is { Pair(0, True) -> 1\n Pair(_, True) -> 2\n Pair(n, False) -> n }  r }", [
        ([L(I(0), T)], I(1)), ([L(I(4), T)], I(2)), ([L(I(4), F)], I(4)),
    ]),
    ("ctor_patterns", "pub fn f(s: Shape) -> Data { let r: Data = when s is { Circle(0) -> 0\n Circle(n) | Rect { w: n, .. } -> n\n Dot -> -1 }  r }", [
        ([C(0, I(0))], I(0)), ([C(0, I(5))], I(5)), ([C(1, I(6), I(7))], I(6)), ([C(2)], I(-1)),
    ]),
    ("nested_patterns", "pub fn f(o: Option<(Int, Shape)>) -> Data { let r: Data = when o is { Some((1, Rect { h, .. })) -> h\n Some((_, Circle(r))) -> r\n Some((n, _) as t) -> n + t.1st\n None -> 0 }  r }", [
        ([SOME(L(I(1), C(1, I(2), I(3))))], I(3)), ([SOME(L(I(1), C(0, I(9))))], I(9)), ([SOME(L(I(2), C(2)))], I(4)),
        ([SOME(L(I(2), C(1, I(2), I(3))))], I(4)), ([NONE], I(0)),
    ]),
    ("list_patterns", "pub fn f(xs: List<Int>) -> Data { let r: Data = when xs is { [] -> 0\n [1, ..] -> 1\n [_] -> 2\n [_, b] -> b\n [_, _, ..rest] as all -> builtin.head_list(all) + fold(rest, 0, fn(x, a) { x + a }) }  r }", [
        ([L()], I(0)), ([L(I(1), I(5))], I(1)), ([L(I(2))], I(2)), ([L(I(2), I(3))], I(3)), ([L(I(2), I(3), I(4), I(5))], I(11)),
    ]),
    ("list_tail_order", "pub fn f(xs: List<Int>) -> Data { let r: Data = when xs is { [_, _, ..] -> 9\n [_, ..] -> 878\n [] -> 0 }  r }", [
        ([L()], I(0)), ([L(I(1))], I(878)), ([L(I(1), I(2))], I(9)), ([L(I(1), I(2), I(3))], I(9)),
    ], "F2"),
    ("bytes_patterns", "pub fn f(b: ByteArray) -> Data { let r: Data = when b is { #\"00\" -> 1\n \"foo\" -> 2\n _ -> 3 }  r }", [
        ([B("00")], I(1)), ([B("666f6f")], I(2)), ([B("")], I(3)),
    ]),
    ("bool_void", "pub fn f(b: Bool, v: Void) -> Data { let r: Data = (when b is { True -> 1\n False -> 0 }, when v is { Void -> 7 })  r }", [
        ([T, C(0)], L(I(1), I(7))), ([F, C(0)], L(I(0), I(7))),
    ]),
    ("ordering", "pub fn f(a: Int, b: Int) -> Data { let o = if a < b { Less } else if a == b { Equal } else { Greater }  let r: Data = (o, when o is { Less -> -1\n Equal -> 0\n Greater -> 1 })  r }", [
        ([I(1), I(2)], L(C(0), I(-1))), ([I(2), I(2)], L(C(1), I(0))), ([I(3), I(2)], L(C(2), I(1))),
    ]),
    ("clause_shadowing", "pub fn f(x: Option<Int>, v: Int) -> Data { let r: Data = when x is { None -> v\n Some(v) -> v * 2 }  r }", [
        ([NONE, I(3)], I(3)), ([SOME(I(5)), I(3)], I(10)),
    ], "F4"),
    # ---------------------------------------------------------------- records / tuples / pairs
    ("record_access_update", "pub fn f(x: Rec, n: Int) -> Data { let y = Rec { ..x, p: x.p + n, s: Rect { w: n, h: 2 } }  let r: Data = (y, y.q, x.s, x.p)  r }", [
        ([C(0, I(1), B("aa"), C(2)), I(10)], L(C(0, I(11), B("aa"), C(1, I(10), I(2))), B("aa"), C(2), I(1))),
    ]),
    ("tuple_access", "pub fn f(t: (Int, ByteArray, Bool, Int), p: Pair<Int, ByteArray>) -> Data { let r: Data = (t.4th, t.3rd, t.2nd, t.1st, p.2nd, p.1st)  r }", [
        ([L(I(1), B("02"), T, I(4)), L(I(5), B("06"))], L(I(4), T, B("02"), I(1), B("06"), I(5))),
    ]),
    ("destructuring_let", "pub fn f(b: Box<Int>, t: (Int, ByteArray, Bool), p: Pair<Int, Int>) -> Data { let Box(x) = b  let (i, bs, _) = t  let Pair(k, v) = p  let r: Data = (x, i, bs, k, v)  r }", [
        ([C(0, I(3)), L(I(4), B("ab"), T), L(I(5), I(6))], L(I(3), I(4), B("ab"), I(5), I(6))),
    ]),
    ("pairs_as_map", "pub fn f(xs: List<Pair<Int, ByteArray>>) -> Data { let r: Data = (xs, when xs is { [Pair(k, _), ..] -> k\n [] -> 0 }, [Pair(1, #\"\"), ..xs])  r }", [
        ([Mp((I(7), B("01")))], L(Mp((I(7), B("01"))), I(7), Mp((I(1), B("")), (I(7), B("01"))))), ([Mp()], L(Mp(), I(0), Mp((I(1), B(""))))),
    ]),
    ("generic_adt", "pub fn f(a: Int, b: ByteArray) -> Data { let x: Either<Int, ByteArray> = Lft(a)  let y: Either<Int, ByteArray> = Rgt(b)  let r: Data = (x, y, Box(Box(a)), Node(Leaf, b, Leaf))  r }", [
        ([I(1), B("ff")], L(C(0, I(1)), C(1, B("ff")), C(0, C(0, I(1))), C(1, C(0), B("ff"), C(0)))),
    ]),
    ("equality_structural", "pub fn f(a: Shape, b: Shape, xs: List<(Int, Bool)>) -> Data { let r: Data = [a == b, a != b, xs == [(1, True)], Some(a) == Some(b), (a, 1) == (b, 1)]  r }", [
        ([C(1, I(1), I(2)), C(1, I(1), I(2)), L(L(I(1), T))], L(T, F, T, T, T)), ([C(1, I(1), I(2)), C(1, I(2), I(1)), L()], L(F, T, F, F, F)),
    ]),
    # ---------------------------------------------------------------- expect
    ("expect_some", "pub fn f(o: Option<Int>) -> Data { expect Some(x) = o  let r: Data = x  r }", [([SOME(I(3))], I(3)), ([NONE], ABORT)]),
    ("expect_list", "pub fn f(xs: List<Int>) -> Data { expect [a, b, ..] = xs  expect [_, ..rest] = xs  let r: Data = (a + b, rest)  r }", [
        ([L(I(1), I(2), I(3))], L(I(3), L(I(2), I(3)))), ([L(I(1))], ABORT), ([L()], ABORT),
    ]),
    ("expect_exact_list", "pub fn f(xs: List<Int>) -> Data { expect [a] = xs  let r: Data = a  r }", [([L(I(1))], I(1)), ([L(I(1), I(2))], ABORT), ([L()], ABORT)]),
    ("expect_literal", "pub fn f(t: (Int, Int)) -> Data { expect (1, x) = t  let r: Data = x  r }", [([L(I(1), I(9))], I(9)), ([L(I(2), I(9))], ABORT)]),
    ("expect_bool", "pub fn f(a: Int) -> Data { expect a > 0  let r: Data = a  r }", [([I(1)], I(1)), ([I(0)], ABORT)]),
    ("expect_ctor", "pub fn f(s: Shape) -> Data { expect Rect { w, .. } = s  let r: Data = w  r }", [([C(1, I(4), I(5))], I(4)), ([C(0, I(4))], ABORT), ([C(2)], ABORT)]),
    ("expect_unused_still_checked", "pub fn f(a: Int) -> Data { expect Some(_) = if a > 0 { Some(a) } else { None }  let r: Data = a  r }", [([I(1)], I(1)), ([I(0)], ABORT)]),
    ("fail_todo", "pub fn f(a: Int) -> Data { let r: Data = if a > 1 { a } else if a == 1 { fail @\"one\" } else if a == 0 { todo } else { fail }  r }", [
        ([I(2)], I(2)), ([I(1)], ABORT), ([I(0)], ABORT), ([I(-1)], ABORT),
    ]),
    ("trace", "pub fn f(a: Int) -> Data { trace @\"hello\"  let r: Data = (a > 0)?  r }", [([I(0)], F), ([I(1)], T)]),
    # ---------------------------------------------------------------- Data casts
    ("upcast", "pub fn f(a: Int, s: Shape, o: Option<(Int, Bool)>, p: Pair<Int, Int>, v: Void) -> Data { let r: Data = (a, s, o, p, v, True, Less, [p])  r }", [
        ([I(1), C(1, I(2), I(3)), SOME(L(I(4), F)), L(I(5), I(6)), C(0)], L(I(1), C(1, I(2), I(3)), SOME(L(I(4), F)), L(I(5), I(6)), C(0), T, C(0), Mp((I(5), I(6))))),
    ]),
    ("downcast_int", "pub fn f(d: Data) -> Data { expect v: Int = d  let r: Data = v + 1  r }", [([I(1)], I(2)), ([B("00")], ABORT), ([C(0)], ABORT), ([L()], ABORT)]),
    ("downcast_bytes", "pub fn f(d: Data) -> Data { expect v: ByteArray = d  let r: Data = v  r }", [([B("00ff")], B("00ff")), ([I(1)], ABORT), ([L()], ABORT)]),
    ("downcast_bool", "pub fn f(d: Data) -> Data { expect v: Bool = d  let r: Data = !v  r }", [([C(0)], T), ([C(1)], F), ([C(2)], ABORT), ([C(0, I(1))], ABORT), ([C(1, I(1))], ABORT), ([I(0)], ABORT)]),
    ("downcast_void", "pub fn f(d: Data) -> Data { expect v: Void = d  let r: Data = v  r }", [([C(0)], C(0)), ([C(1)], ABORT), ([C(0, I(1))], ABORT), ([L()], ABORT)]),
    ("downcast_option", "pub fn f(d: Data) -> Data { expect v: Option<Int> = d  let r: Data = v  r }", [
        ([SOME(I(1))], SOME(I(1))), ([NONE], NONE), ([C(0)], ABORT), ([C(0, I(1), I(2))], ABORT), ([C(1, I(1))], ABORT), ([C(2)], ABORT), ([C(0, B("00"))], ABORT),
    ]),
    ("downcast_adt", "pub fn f(d: Data) -> Data { expect v: Shape = d  let r: Data = area(v)  r }", [
        ([C(0, I(2))], I(12)), ([C(1, I(2), I(3))], I(6)), ([C(2)], I(0)), ([C(1, I(1))], ABORT), ([C(1, I(1), I(2), I(3))], ABORT),
        ([C(3)], ABORT), ([C(0, B("00"))], ABORT), ([C(0)], ABORT), ([L(I(1))], ABORT), ([C(2, I(0))], ABORT),
    ]),
    ("downcast_tuple", "pub fn f(d: Data) -> Data { expect v: (Int, Bool) = d  let r: Data = v.1st  r }", [
        ([L(I(1), T)], I(1)), ([L(I(1), T, I(3))], ABORT), ([L(I(1))], ABORT), ([L(I(1), C(2))], ABORT), ([L(T, I(1))], ABORT), ([C(0, I(1), T)], ABORT),
    ]),
    ("downcast_pair", "pub fn f(d: Data) -> Data { expect v: Pair<Int, Int> = d  let r: Data = v.2nd  r }", [
        ([L(I(1), I(2))], I(2)), ([L(I(1), I(2), I(3))], ABORT), ([L(I(1))], ABORT), ([Mp((I(1), I(2)))], ABORT),
    ]),
    ("downcast_pairs", "pub fn f(d: Data) -> Data { expect v: List<Pair<Int, Int>> = d  let r: Data = v  r }", [
        ([Mp((I(1), I(2)))], Mp((I(1), I(2)))), ([L(L(I(1), I(2)))], ABORT), ([Mp((I(1), B("")))], ABORT), ([Mp()], Mp()), ([L()], ABORT),
    ]),
    ("downcast_list", "pub fn f(d: Data) -> Data { expect v: List<List<Int>> = d  let r: Data = v  r }", [
        ([L()], L()), ([L(L(I(1)), L())], L(L(I(1)), L())), ([L(L(I(1)), I(2))], ABORT), ([L(L(B("")))], ABORT), ([Mp()], ABORT), ([I(1)], ABORT),
    ]),
    ("downcast_ordering", "pub fn f(d: Data) -> Data { expect v: Ordering = d  let r: Data = v  r }", [([C(0)], C(0)), ([C(2)], C(2)), ([C(3)], ABORT), ([C(2, I(1))], ABORT)]),
    ("downcast_pattern", "pub fn f(d: Data) -> Data { expect Some(x): Option<Int> = d  let r: Data = x  r }", [([SOME(I(4))], I(4)), ([NONE], ABORT), ([I(1)], ABORT)]),
    ("roundtrip", "pub fn f(s: Shape) -> Data { let d: Data = s  expect t: Shape = d  let r: Data = t == s  r }", [([C(1, I(1), I(2))], T), ([C(2)], T)]),
    ("cast_tuple_as_pair", "pub fn f(t: (Int, Int)) -> Data { let d: Data = t  expect p: Pair<Int, Int> = d  let r: Data = p.1st - p.2nd  r }", [([L(I(5), I(3))], I(2))]),
    ("soft_cast", "pub fn f(d: Data) -> Data { let r: Data = if d is Some(x): Option<Int> { x } else if d is Rect { w, .. }: Shape { w } else if d is n: Int { n } else { -1 }  r }", [
        ([SOME(I(5))], I(5)), ([C(1, I(6), I(7))], I(6)), ([C(1)], I(-1)), ([I(3)], I(3)), ([C(0, B(""))], I(-1)), ([B("")], I(-1)),
    ]),
    ("un_data_builtins", "pub fn f(d: Data) -> Data { let r: Data = builtin.un_i_data(d) + 1  r }", [([I(1)], I(2)), ([B("")], ABORT)]),
    ("un_b_data_cancel", "pub fn f(d: Data) -> Data { let r: Data = builtin.un_b_data(d)  r }", [([B("00")], B("00")), ([C(2)], ABORT), ([I(1)], ABORT)], "F3"),
    # ---------------------------------------------------------------- functions
    ("closures_captures_pipes", "pub fn f(xs: List<Int>, n: Int) -> Data { let g = add3(_, n, 2)  let h = add3(1, _, n)  let r: Data = (g(10), h(10), xs |> fold(0, fn(x, a) { x - a }), n |> add3(1, 2) |> g, map(xs, fn(x) { x * n }))  r }", [
        ([L(I(1), I(2), I(3)), I(5)], L(I(20), I(51), I(2), I(17), L(I(5), I(10), I(15)))),
    ]),
    ("backpassing", "pub fn f(a: Option<Int>, b: Option<Int>) -> Data { let r: Data = { let x <- and_then(a)\n let y <- and_then(b)\n Some(x + y) }  r }", [
        ([SOME(I(1)), SOME(I(2))], SOME(I(3))), ([NONE, SOME(I(2))], NONE), ([SOME(I(1)), NONE], NONE),
    ]),
    ("backpassing2", "pub fn f(xs: List<Int>) -> Data { let r: Data = { let x, acc <- fold(xs, 0)\n x + 2 * acc }  r }", [([L(I(1), I(2), I(3))], I(11)), ([L()], I(0))]),
    ("generic_two_types", "pub fn f(a: Int, b: ByteArray) -> Data { let r: Data = (ident(a), ident(b), ident([a]), map([a, a + 1], fn(x) { (x, b) }), fold([b, b], 0, fn(x, n) { n + builtin.length_of_bytearray(x) }))  r }", [
        ([I(1), B("aabb")], L(I(1), B("aabb"), L(I(1)), L(L(I(1), B("aabb")), L(I(2), B("aabb"))), I(4))),
    ]),
    ("recursion", "pub fn f(t: Tree<Int>, xs: List<Int>, n: Int) -> Data { let r: Data = (sum_tree(t), is_even(xs), is_odd(xs), count(n, 0))  r }", [
        ([TREE, L(I(1), I(2), I(3)), I(4)], L(I(7), F, T, I(10))), ([C(0), L(), I(-1)], L(I(0), T, F, I(0))),
    ]),
    ("constants", "pub fn f(a: Int) -> Data { let r: Data = (k3, k2, [a, ..k2], k4, area(k4) + k1)  r }", [
        ([I(9)], L(L(I(6), B("ff"), SOME(L(I(1), I(2), I(3)))), L(I(1), I(2), I(3)), L(I(9), I(1), I(2), I(3)), C(1, I(3), I(4)), I(15))),
    ]),
    ("bytes_literals_builtins", "pub fn f(a: ByteArray) -> Data { let r: Data = ([a, \"foo\", #\"00ff\", #[1, 2, 255]], builtin.append_bytearray(a, \"z\"), builtin.length_of_bytearray(a), builtin.slice_bytearray(1, 2, #\"0a0b0c0d\"), builtin.index_bytearray(#\"0a0b\", 1))  r }", [
        ([B("aa")], L(L(B("aa"), B("666f6f"), B("00ff"), B("0102ff")), B("aa7a"), I(1), B("0b0c"), I(11))),
    ]),
    ("partial_builtins", "pub fn f(xs: List<Int>, i: Int) -> Data { let r: Data = (builtin.head_list(xs), builtin.tail_list(xs), builtin.index_bytearray(#\"0a0b\", i))  r }", [
        ([L(I(4), I(5)), I(0)], L(I(4), L(I(5)), I(10))), ([L(), I(0)], ABORT), ([L(I(1)), I(2)], ABORT), ([L(I(1)), I(-1)], ABORT),
    ]),
    ("int_builtins", "pub fn f(a: Int, b: Int) -> Data { let r: Data = (builtin.quotient_integer(a, b), builtin.remainder_integer(a, b), builtin.divide_integer(a, b), builtin.mod_integer(a, b))  r }", [
        ([I(-7), I(2)], L(I(-3), I(-1), I(-4), I(1))), ([I(7), I(-2)], L(I(-3), I(1), I(-4), I(-1))), ([I(1), I(0)], ABORT),
    ]),
    ("bytes_int_conversion", "pub fn f(n: Int) -> Data { let r: Data = (builtin.integer_to_bytearray(True, 2, n), builtin.integer_to_bytearray(False, 0, n), builtin.bytearray_to_integer(True, #\"0100\"), builtin.bytearray_to_integer(False, #\"0100\"))  r }", [
        ([I(258)], L(B("0102"), B("0201"), I(256), I(1))), ([I(65536)], ABORT), ([I(-1)], ABORT), ([I(0)], L(B("0000"), B(""), I(256), I(1))),
    ]),
    ("cons_replicate", "pub fn f(n: Int) -> Data { let r: Data = (builtin.cons_bytearray(n, #\"00\"), builtin.replicate_byte(2, n))  r }", [
        ([I(255)], L(B("ff00"), B("ffff"))), ([I(256)], ABORT), ([I(-1)], ABORT),
    ]),
    ("hashes", "pub fn f(a: ByteArray) -> Data { let r: Data = [builtin.sha2_256(a), builtin.blake2b_256(a), builtin.sha3_256(a)]  r }", [
        ([B("")], L(B("e3b0c44298fc1c149afbf4c8996fb92427ae41e4649b934ca495991b7852b855"), B("0e5751c026e543b2e8ab2eb06099daa1d1e5df47778f7787faab45cdf12fe3a8"), B("a7ffc6f8bf1ed76651c14756a061d662f580ff4de43b49fa82d80a4b80f8434a"))),
    ]),
    ("curried_builtin_three_instances", "fn g5(x: a) -> a { when (builtin.slice_bytearray(if True { 11 } else { 256 }, 2, #\"\"), 1) is { _p -> x } }\npub fn f(y: Int) -> Data { let r: Data = (g5(y), g5(#\"\"), g5(Void))  r }", [
        ([I(1)], L(I(1), B(""), C(0))),
    ], "F5"),
    ("list_clauses_no_wildcard", "pub fn f(xs: List<Int>) -> Data { let r: Data = when xs is { [7, 8, ..] -> 1\n [9, ..] -> 2\n [_, _, ..] -> 4\n [_] -> 3\n [] -> 0 }  r }", [
        ([L(I(7), I(8))], I(1)), ([L(I(9))], I(2)), ([L(I(1), I(2))], I(4)), ([L(I(1))], I(3)), ([L()], I(0)), ([L(I(9), I(1))], I(2)),
    ], "F7"),
    ("failing_builtin_in_dead_branch", "pub fn f(x: Bool) -> Data { let r: Data = if x { builtin.slice_bytearray(18446744073709551616, 1, #\"96\") } else { #\"\" }  r }", [
        ([F], B("")), ([T], ABORT),
    ], "F8"),
    ("nested_list_tail_binding", "pub fn f(xs: List<List<Int>>) -> Data { let r: Data = when xs is { [_, []] -> 1\n [[a, ..b], [c, ..], ..] -> a + c + fold(b, 0, fn(x, n) { x + n })\n _ -> 4 }  r }", [
        ([L(L(I(5), I(-6)), L(I(8)), L(I(-2)))], I(7)), ([L(L(I(5)), L(I(8)))], I(13)), ([L(L(I(5)), L())], I(1)), ([L()], I(4)),
    ], "F9"),
    # ---------------------------------------------------------------- tracing-dependent (5th field: tracing)
    ("lazy_prim_cast_verbose", "pub fn f(d: Data, b: Bool) -> Data { expect v: Int = d  let r: Data = if b { v } else { 0 }  r }", [
        ([B("00"), F], ABORT), ([I(4), T], I(4)), ([I(4), F], I(0)),
    ], None, "verbose-all"),
    ("lazy_prim_cast_silent", "pub fn f(d: Data, b: Bool) -> Data { expect v: Int = d  let r: Data = if b { v } else { 0 }  r }", [
        ([B("00"), F], ABORT), ([I(4), T], I(4)), ([I(4), F], I(0)),
    ], "F10", "silent-all"),
    ("lazy_prim_cast_compact", "pub fn f(d: Data, b: Bool) -> Data { expect v: Bool = d  let r: Data = if b { v } else { False }  r }", [
        ([I(1), F], ABORT), ([T, T], T),
    ], "F10", "compact-user"),
    ("unchecked_cast_to_data_verbose", "pub fn f(d: Data) -> Data { expect v: ByteArray = d  let r: Data = [v]  r }", [
        ([I(1)], ABORT), ([B("aa")], L(B("aa"))),
    ], None, "verbose-all"),
    ("unchecked_cast_to_data_silent", "pub fn f(d: Data) -> Data { expect v: ByteArray = d  let r: Data = [v]  r }", [
        ([I(1)], ABORT), ([B("aa")], L(B("aa"))),
    ], "F11", "silent-all"),
    ("cast_consumed_silent", "pub fn f(d: Data) -> Data { expect v: Int = d  let r: Data = v + 1  r }", [
        ([B("")], ABORT), ([I(1)], I(2)),
    ], None, "silent-all"),
    ("nonprim_cast_lazy_use_silent", "pub fn f(d: Data, b: Bool) -> Data { expect v: (Int, Int) = d  let r: Data = if b { v.1st } else { 0 }  r }", [
        ([I(1), F], ABORT), ([L(I(1), I(2)), T], I(1)),
    ], None, "silent-all"),
    ("and_false_constant", "pub const kf: Bool = False\npub fn f(a: Int) -> Data { let r: Data = and { a != 1, 10 / a > 0, kf }  r }", [
        ([I(0)], ABORT), ([I(1)], F), ([I(2)], F),
    ], "F6", "silent-all"),
    ("tuple_subject_column", "pub fn f(a: Int, b: Bool) -> Data { let v = 10 / a  let r: Data = when (b, v) is { (True, p) -> p\n (_, _) -> 0 }  r }", [
        ([I(0), F], ABORT), ([I(0), T], ABORT), ([I(5), T], I(2)),
    ], None, "verbose-all"),
    ("string_internal", "pub fn f(a: Int) -> Data { let s = if a > 0 { @\"pos\" } else { @\"neg\" }  let r: Data = s == @\"pos\"  r }", [([I(1)], T), ([I(0)], F)]),
]


def main():
    jobs = []
    for i, case in enumerate(CASES):
        name, src, triples = case[0], case[1], case[2]
        tracing = case[4] if len(case) > 4 else "verbose-all"
        jobs.append(drv.make_job(i, PRELUDE + "\n" + src + "\n", [{"name": "f", "args": [a for a, _x in triples]}], tracings=(tracing,)))
    res = drv.run_many(jobs)
    bad = 0
    known_seen = 0
    total = 0
    for i, case in enumerate(CASES):
        name, _src, triples = case[0], case[1], case[2]
        known = case[3] if len(case) > 3 else None
        if len(case) > 4:
            name = name + "@" + case[4]
        r = res.get(i, {})
        run = (r.get("runs") or [{}])[0]
        if "entries" not in run or "results" not in run["entries"][0]:
            detail = json.dumps(run.get("rejected") or run.get("entries") or r)[:400]
            if known:
                known_seen += 1
                print("KNOWN-DEFECT %-28s [%s] does not compile: %s" % (name, known, detail[:160]))
            else:
                bad += 1
                print("FAIL %-28s could not compile/run: %s" % (name, detail))
            continue
        mism = []
        for (args, exp), got in zip(triples, run["entries"][0]["results"]):
            total += 1
            o = drv.outcome(got)
            ok = (exp == ABORT and o[0] == "abort") or (exp != ABORT and o[0] == "ok" and o[1] == exp)
            if not ok:
                mism.append((args, exp, o))
        if mism and known:
            known_seen += 1
            a, x, o = mism[0]
            print("KNOWN-DEFECT %-28s [%s] args=%s expected=%s got=%s" % (name, known, json.dumps(a), json.dumps(x), json.dumps(o)[:200]))
        elif mism:
            bad += 1
            for a, x, o in mism:
                print("FAIL %-28s args=%s expected=%s got=%s" % (name, json.dumps(a), json.dumps(x), json.dumps(o)[:300]))
        elif known:
            print("FIXED? %-28s [%s] now agrees with the language semantics" % (name, known))
    print("calibration: %d cases / %d evaluations, %d failing, %d known compiler defects reproduced" % (len(CASES), total, bad, known_seen))
    return 1 if bad else 0


if __name__ == "__main__":
    sys.exit(main())
