"""Pattern usefulness (Maranget) over generator patterns.

Only used by the *generator* to emit clause lists that the Aiken type checker accepts
(exhaustive, no redundant clause). The interpreter does not use it: first-match semantics
there is a plain top-to-bottom scan.
"""
import gast as G

W = ("w",)


def _list_norm(elems, tail, adts):
    if not elems:
        if tail is None:
            return ("c", "nil", [], LIST_SIG)
        return W
    return ("c", "cons", [norm(elems[0], adts), _list_norm(elems[1:], tail, adts)], LIST_SIG)


LIST_SIG = (("nil", 0), ("cons", 2))
BOOL_SIG = ((False, 0), (True, 0))


def norm(p, adts):
    """pattern -> W | ("c", key, [subpatterns], signature | None)"""
    k = p.K
    if k in ("PVar", "PWild"):
        return W
    if k == "PAs":
        return norm(p.pat, adts)
    if k == "PInt":
        return ("c", ("i", p.n), [], None)
    if k == "PBytes":
        return ("c", ("b", p.b), [], None)
    if k == "PBool":
        return ("c", p.v, [], BOOL_SIG)
    if k == "PVoid":
        return ("c", "void", [], (("void", 0),))
    if k == "PCon":
        decl = adts[p.adt]
        sig = tuple((i, len(c.fields)) for i, c in enumerate(decl.ctors))
        n = len(decl.ctors[p.idx].fields)
        subs = [W] * n
        for i, sp in p.fields:
            subs[i] = norm(sp, adts)
        return ("c", p.idx, subs, sig)
    if k == "PTuple":
        return ("c", "tuple", [norm(x, adts) for x in p.subs], (("tuple", len(p.subs)),))
    if k == "PPair":
        return ("c", "pair", [norm(p.a, adts), norm(p.b, adts)], (("pair", 2),))
    if k == "PList":
        return _list_norm(p.elems, p.tail, adts)
    raise ValueError(k)


def _specialise(rows, key, arity):
    out = []
    for r in rows:
        h = r[0]
        if h is W or h == W:
            out.append([W] * arity + r[1:])
        elif h[1] == key:
            out.append(list(h[2]) + r[1:])
    return out


def useful(rows, vec):
    """Is the pattern vector `vec` useful w.r.t. the matrix `rows` (lists of normalised patterns)?"""
    if not vec:
        return len(rows) == 0
    if not rows:
        return True
    h = vec[0]
    if h != W:
        return useful(_specialise(rows, h[1], len(h[2])), list(h[2]) + vec[1:])
    heads = {}
    sig = None
    for r in rows:
        x = r[0]
        if x != W:
            heads[x[1]] = len(x[2])
            sig = x[3]
    if sig is not None and all(key in heads for key, _a in sig):
        for key, arity in sig:
            if useful(_specialise(rows, key, arity), [W] * arity + vec[1:]):
                return True
        return False
    default = [r[1:] for r in rows if r[0] == W]
    return useful(default, vec[1:])


def exhaustive(rows):
    return not useful(rows, [W])


def irrefutable(p, adts):
    return exhaustive([[norm(p, adts)]])


def pattern_vars(p, acc=None):
    """[(name, type)] bound by a pattern, in order."""
    if acc is None:
        acc = []
    k = p.K
    if k == "PVar":
        acc.append((p.name, p.ty))
    elif k == "PAs":
        acc.append((p.name, p.ty))
        pattern_vars(p.pat, acc)
    elif k == "PCon":
        for _i, sp in p.fields:
            pattern_vars(sp, acc)
    elif k == "PTuple":
        for sp in p.subs:
            pattern_vars(sp, acc)
    elif k == "PPair":
        pattern_vars(p.a, acc)
        pattern_vars(p.b, acc)
    elif k == "PList":
        for sp in p.elems:
            pattern_vars(sp, acc)
        if p.tail is not None and p.tail != "discard":
            acc.append((p.tail.name, p.tail.ty))
    return acc


def _strip(p):
    while p.K == "PAs":
        p = p.pat
    return p


def list_tail_order_hazard(p, q):
    """p is an earlier pattern, q a later one (same type): at some common position, both are list patterns
    with a tail and the earlier one has more elements (see FINDINGS.md F2)."""
    p = _strip(p)
    q = _strip(q)
    if p.K != q.K:
        return False
    k = p.K
    if k == "PList":
        if p.tail is not None and q.tail is not None and len(p.elems) > len(q.elems):
            return True
        return any(list_tail_order_hazard(a, b) for a, b in zip(p.elems, q.elems))
    if k == "PTuple":
        return any(list_tail_order_hazard(a, b) for a, b in zip(p.subs, q.subs))
    if k == "PPair":
        return list_tail_order_hazard(p.a, q.a) or list_tail_order_hazard(p.b, q.b)
    if k == "PCon":
        if p.idx != q.idx:
            return False
        qf = dict(q.fields)
        return any(i in qf and list_tail_order_hazard(sp, qf[i]) for i, sp in p.fields)
    return False
